"""Controlled scheduler + crash injector for the real Panoptica_Aggregator.

The aggregator module's two lock objects, its three file helpers, `os.remove`, `open` and the
statistics loader are wrapped from outside; every wrapped call is a scheduling point at which the
calling thread parks until the controller lets it continue.  Lock acquisition is try-acquire-or-
stay-parked, so a blocked thread is observable.  A crash abandons all parked threads and frees the
locks; files stay."""
from __future__ import annotations
import os, threading, csv, builtins, tempfile, shutil
import numpy as np
import impl
from impl import quiet
import panoptica.panoptica_aggregator as PA

_REAL = {k: getattr(PA, k) for k in ("filelock", "inevalfilelock", "_write_content", "_load_first_column_entries",
                                      "_read_first_row", "os", "Panoptica_Statistic")}


class Controller:
    def __init__(self):
        self.gates, self.at, self.done, self.exc = {}, {}, set(), {}
        self.arrived = threading.Semaphore(0)
        self.tl = threading.local()
        self.abandoned = set()

    def tid(self):
        return getattr(self.tl, "tid", None)

    def point(self, label):
        tid = self.tid()
        if tid is None:
            return
        self.at[tid] = label
        self.arrived.release()
        self.gates[tid].acquire()

    def spawn(self, tid, fn):
        """start a thread; returns once it is parked before its first action (or finished)"""
        self.gates[tid] = threading.Semaphore(0)
        self.done.discard(tid)

        def run():
            self.tl.tid = tid
            try:
                fn()
            except BaseException as e:  # noqa
                self.exc[tid] = e
            finally:
                self.done.add(tid)
                self.at[tid] = ("done",)
                self.arrived.release()
        t = threading.Thread(target=run, daemon=True)
        t.start()
        self.arrived.acquire()
        return t

    def step(self, tid):
        """let thread `tid` perform its pending action; returns the label of the action performed"""
        if tid in self.done or tid in self.abandoned:
            return ("done",)
        did = self.at[tid]
        self.gates[tid].release()
        self.arrived.acquire()
        return did

    def abandon_all(self):
        for tid in list(self.gates):
            if tid not in self.done:
                self.abandoned.add(tid)


class MLock:
    def __init__(self, C: Controller, name: str):
        self.C, self.name, self.owner = C, name, None

    def __enter__(self):
        while True:
            self.C.point(("acq", self.name))
            if self.owner is None:
                t = self.C.tid()
                self.owner = "free-thread" if t is None else t
                return self

    def __exit__(self, *a):
        self.C.point(("rel", self.name))
        self.owner = None
        return False

    # the same lock used through its method interface (try/finally style code)
    def acquire(self, block=True, timeout=None):
        if not block:
            self.C.point(("acq", self.name))
            if self.owner is None:
                t = self.C.tid()
                self.owner = "free-thread" if t is None else t
                return True
            return False
        if self.C.tid() is None and self.owner is not None:
            raise RuntimeError(f"lock {self.name} is held by {self.owner} and nobody is left to release it")
        self.__enter__()
        return True

    def release(self):
        self.__exit__(None, None, None)


class Harness:
    """one output path in a scratch directory; sessions of constructor + threads driven step by step"""

    def __init__(self, workdir, out_name="out.tsv", split_rows=False):
        # split_rows: a row appended to the output file reaches the disk in two halves with a scheduling point in between
        # (what a large row, a slow disk or a signal does to one write call), so that readers can run in the middle
        self.split_rows = split_rows
        self.stat_snaps = []
        self.C = Controller()
        self.dir = workdir
        self.out = os.path.join(workdir, out_name)
        self.buf = os.path.join(workdir, os.path.splitext(out_name)[0] + "_panoptica_aggregator_tmp.tsv")
        self.l1, self.l2 = MLock(self.C, "l1"), MLock(self.C, "l2")
        self.inhelper = threading.local()
        self.agg = None
        self.install()

    # ---------------------------------------------------------------- wrappers
    def which(self, path):
        p = os.path.abspath(str(path))
        return "out" if p == os.path.abspath(self.out) else ("buf" if p == os.path.abspath(self.buf) else "other:" + os.path.basename(p))

    def install(self):
        C = self.C
        H = self
        PA.filelock, PA.inevalfilelock = self.l2, self.l1

        def helper(kind, fn):
            def w(file, *a, **k):
                C.point((kind, H.which(file)))
                H.inhelper.flag = True
                try:
                    return fn(file, *a, **k)
                finally:
                    H.inhelper.flag = False
            return w
        PA._write_content = helper("write", _REAL["_write_content"])
        PA._load_first_column_entries = helper("load", _REAL["_load_first_column_entries"])
        PA._read_first_row = helper("readrow", _REAL["_read_first_row"])

        class OsProxy:
            def __getattr__(s, n):
                return getattr(os, n)

            def remove(s, p):
                C.point(("remove", H.which(p)))
                return os.remove(p)
        PA.os = OsProxy()

        class SplitFile:
            """collects what is written and puts it on disk in two halves when closed"""
            def __init__(s, real):
                s.real, s.parts = real, []

            def write(s, x):
                s.parts.append(x)
                return len(x)

            def __enter__(s):
                return s

            def __exit__(s, *a):
                s.close()
                return False

            def __getattr__(s, n):
                return getattr(s.real, n)

            def close(s):
                data = "".join(s.parts)
                s.parts = []
                h = len(data) // 2
                s.real.write(data[:h])
                s.real.flush()
                if data:
                    C.point(("write2", "out"))
                s.real.write(data[h:])
                s.real.close()

        def wopen(file, *a, **k):
            if not getattr(H.inhelper, "flag", False) and C.tid() is not None:
                C.point(("touch", H.which(file)))
            f = builtins.open(file, *a, **k)
            mode = a[0] if a else k.get("mode", "r")
            if H.split_rows and getattr(H.inhelper, "flag", False) and C.tid() is not None and H.which(file) == "out" and "a" in mode:
                return SplitFile(f)
            return f
        PA.open = wopen

        class StatProxy:
            @staticmethod
            def from_file(f):
                C.point(("stat", H.which(f)))
                try:
                    with builtins.open(f, encoding="utf8", newline="") as fh:
                        H.stat_snaps.append(fh.read())
                except OSError:
                    H.stat_snaps.append(None)
                return _REAL["Panoptica_Statistic"].from_file(f)
        PA.Panoptica_Statistic = StatProxy

    def uninstall(self):
        for k, v in _REAL.items():
            setattr(PA, k, v)
        if hasattr(PA, "open"):
            del PA.open

    # ---------------------------------------------------------------- observation
    def header(self, agg_or_ev):
        return None

    def observe(self):
        st = {"out_exists": os.path.exists(self.out), "buf_exists": os.path.exists(self.buf), "rows": [], "hdrs": 0, "buf": [],
              "raw_rows": []}
        if st["out_exists"]:
            with builtins.open(self.out, newline="") as f:
                rows = list(csv.reader(f, delimiter="\t"))
            for r in rows:
                if r and r[0] == "subject_name" and not st["rows"]:
                    st["hdrs"] += 1
                else:
                    st["rows"].append(r[0] if r else "")
                    st["raw_rows"].append(r)
        if st["buf_exists"]:
            try:
                with builtins.open(self.buf, newline="") as f:
                    st["buf"] = [r[0] for r in csv.reader(f, delimiter="\t") if r]
            except FileNotFoundError:      # removed between the existence test and the read (by nobody the model knows of)
                st["buf_exists"] = False
        st["l1"], st["l2"] = self.l1.owner, self.l2.owner
        return st

    def crash(self):
        self.C.abandon_all()
        self.l1.owner = self.l2.owner = None
        self.C = Controller()
        self.l1.C = self.l2.C = self.C
        self.install()


class EvProxy:
    """the real evaluator behind a scheduling point (the `compute` step)"""

    def __init__(self, real, C_getter):
        self._real, self._C = real, C_getter

    @property
    def segmentation_class_groups_names(self):
        return self._real.segmentation_class_groups_names

    @property
    def resulting_metric_keys(self):
        return self._real.resulting_metric_keys

    def evaluate(self, *a, **k):
        self._C().point(("compute",))
        return self._real.evaluate(*a, **k)
