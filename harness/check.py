"""bin/check <Cxx> [quick|thorough] [--replay FILE] — decide one property.

exit 0: property held on everything explored (KNOWN-FINDING lines for listed findings)
exit 1: `VIOLATION property=<id> replay=<path>[ no-failing-input-found]`
exit 2: infrastructure failure (never a violation)"""
from __future__ import annotations
import sys, os, json, importlib, traceback, time
sys.path.insert(0, os.path.dirname(os.path.abspath(__file__)))
import common
from common import Ctx, VERIF


def main(argv):
    if len(argv) < 2:
        print(__doc__)
        return 2
    pid = argv[1]
    tier = os.environ.get("VERIF_TIER") or (argv[2] if len(argv) > 2 and not argv[2].startswith("--") else "quick")
    replay_file = None
    if "--replay" in argv:
        replay_file = argv[argv.index("--replay") + 1]
    seed = int(os.environ.get("VERIF_SEED", "0"))
    ctx = Ctx(pid, tier, seed)

    # 0. extraction: regenerate Lean data from /repo's working tree (atomic write)
    ob = common.obligations_for(pid)
    for ex in ob.get("extractors", []):
        import subprocess
        subprocess.run([sys.executable, os.path.join(os.path.dirname(os.path.abspath(__file__)), "extract", ex)], check=True)
    # 1. build (this property's modules + driver)
    ok, log = common.lean_build(ob.get("modules", []))
    if not ok:
        # an error inside Panoptica/Extracted is a broken extraction obligation, and so is generated data that no longer type-checks
        # (the extractor met source outside its subset); anything else is infrastructure
        broken = [l for l in log.splitlines() if "error" in l and ("Extracted" in l or "Panoptica/Generated" in l)]
        if not broken:
            sys.stderr.write(log[-4000:])
            print(f"INFRA: lake build failed for {pid}")
            return 2
        ctx.notes.append("extraction obligation failed: " + "; ".join(broken[:3]))
    # 2. audit
    theorems = ob.get("theorems", [])
    bad_src = common.source_grep(ob.get("modules", []))
    axioms = common.audit_axioms(theorems, ob.get("modules", []))
    discharged, problems = 0, []
    for t in theorems:
        ax = axioms.get(t)
        if ax is None:
            problems.append(f"theorem {t} not found")
        elif not set(ax) <= common.ALLOWED_AXIOMS:
            problems.append(f"theorem {t} uses axioms {ax}")
        else:
            discharged += 1
    if bad_src:
        problems.append("forbidden constructs: " + "; ".join(bad_src[:5]))
    if not ok:
        problems.append("build: " + "; ".join(ctx.notes))
    proof = {"obligations": len(theorems), "discharged": discharged if not bad_src else 0,
             "checker_cmd": "cd lean && lake build && lake env lean <#print axioms of the listed theorems>",
             "theorems": theorems, "axioms": {t: axioms.get(t) for t in theorems},
             "assumptions": ob.get("assumptions", []), "tie": ob.get("tie", "correspondence")}
    if tier == "thorough" and ob.get("modules"):
        import subprocess
        p = subprocess.run(["lake", "env", "leanchecker"] + ob["modules"], cwd=common.LEAN, capture_output=True, text=True)
        ctx.extra["leanchecker"] = {"modules": ob["modules"], "exit": p.returncode, "tail": (p.stdout + p.stderr)[-300:]}
        if p.returncode != 0:
            problems.append("leanchecker rejected " + ",".join(ob["modules"]))

    # 3. correspondence + property oracles on the implementation
    mod = importlib.import_module(f"props.{pid.lower()}")
    ctx.rule = getattr(mod, "RULE", "")
    try:
        if replay_file:
            rec = json.loads(open(os.path.join(VERIF, replay_file) if not os.path.isabs(replay_file) else replay_file).read())
            mod.replay(ctx, rec)
        else:
            mod.run(ctx)
            if (ctx.disagreements or problems) and not ctx.violations and hasattr(mod, "search"):
                # 4. failing-input search focused on what disagreed
                mod.search(ctx)
    except Exception:
        traceback.print_exc()
        print(f"INFRA: harness error in {pid}")
        ctx.close()
        return 2
    finally:
        ctx.close()

    # 5. verdict
    sys.stdout = sys.__stdout__
    lines, code = [], 0
    for v in ctx.violations:
        path = common.write_replay(pid, {"property": pid, "kind": "property-fails-on-implementation", **v,
                                         "tier": tier, "seed": seed})
        lines.append(f"VIOLATION property={pid} replay={path}")
        code = 1
    if not ctx.violations and (ctx.disagreements or problems):
        rec = {"property": pid, "kind": "obligation-or-correspondence-broken",
               "broken_obligations": problems,
               "broken_correspondence": ctx.disagreements[:5],
               "searched": {"evaluations": ctx.evaluations, "note": "property oracle evaluated on every case incl. focused search; no failing input found"},
               "tier": tier, "seed": seed}
        path = common.write_replay(pid, rec)
        lines.append(f"VIOLATION property={pid} replay={path} no-failing-input-found")
        code = 1
    for k in ctx.known_hits:
        print(f"KNOWN-FINDING: property={pid} {k['what']}")
    common.write_evidence(ctx, proof, len(ctx.violations) + (1 if code and not ctx.violations else 0))
    for l in lines:
        print(l)
    if code == 0:
        print(f"OK {pid} {tier} seed={seed}: {proof['discharged']}/{proof['obligations']} theorems audited, "
              f"{ctx.evaluations} correspondence cases ({len(ctx.nontrivial)} distinct non-trivial), {round(time.time()-ctx.t0,1)}s")
    return code


if __name__ == "__main__":
    sys.exit(main(sys.argv))
