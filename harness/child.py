"""child.py — executed in a fresh interpreter (optionally `python -O`, optionally with another multiprocessing start
method) by forms.run_child: reads a JSON document {"start_method": ..., "serial_pool": bool, "tasks": [...]} from stdin,
runs every task against the real library and prints one JSON list of results.  No assertions are used here (the
interpreter may run with -O); failures are reported as strings."""
import json, os, sys

np = impl = E = quiet = None


def arr(j):
    return np.array(j["data"], dtype=np.dtype(j["dtype"])).reshape(j["shape"])


def run(t):
    k = t["kind"]
    if k == "evaluate":
        res = E.run_impl(t["cfg"], arr(t["pred"]), arr(t["ref"]), groups=t.get("groups"), global_metrics=t.get("global_metrics", ()))
        return res
    if k == "relabel":
        from panoptica.utils.instancelabelmap import InstanceLabelMap
        from impl import IM, UnmatchedInstancePair
        lm = InstanceLabelMap()
        for p, r in t["lmap"]:
            lm.add_labelmap_entry(int(p), int(r))
        with quiet():
            mp = IM.map_instance_labels(UnmatchedInstancePair(arr(t["pred"]), arr(t["ref"])), lm)
        return {"pred": np.asarray(mp.prediction_arr).astype(np.int64).ravel().tolist(), "ref": np.asarray(mp.reference_arr).astype(np.int64).ravel().tolist()}
    if k == "match":
        from impl import UnmatchedInstancePair
        m = impl.mk_matcher(t["matcher"])
        with quiet():
            mp = m.match_instances(UnmatchedInstancePair(arr(t["pred"]), arr(t["ref"])))
        return {"pred": np.asarray(mp.prediction_arr).astype(np.int64).ravel().tolist(), "ref": np.asarray(mp.reference_arr).astype(np.int64).ravel().tolist()}
    if k == "stat_file":
        from panoptica import Panoptica_Statistic
        with quiet():
            st = Panoptica_Statistic.from_file(t["path"])
            out_ = {"summaries": {}, "subjects": {}}
            for g, m in t["columns"]:
                try:
                    sm = st.get_summary(g, m)
                    out_["summaries"][f"{g}|{m}"] = [float(sm.avg), float(sm.std), float(sm.min), float(sm.max)]
                except BaseException as e:      # noqa
                    out_["summaries"][f"{g}|{m}"] = "ERR:" + type(e).__name__
            for sname in t["subjects"]:
                try:
                    one = st.get_one_subject(sname)
                    out_["subjects"][sname] = {f"{g}|{m}": (None if one[g][m] is None else float(one[g][m])) for g, m in t["columns"]}
                except BaseException as e:      # noqa
                    out_["subjects"][sname] = "ERR:" + type(e).__name__
        return out_
    if k == "aggregate":
        # sessions on one output file: each session = a new aggregator object that evaluates the listed subjects in order;
        # afterwards the file is read back raw and through the statistics loader
        import csv, locale
        from panoptica import Panoptica_Aggregator, Panoptica_Statistic
        ev = impl.mk_evaluator(t["cfg"], groups=t.get("groups"), global_metrics=t.get("global_metrics", ()))
        errors = []
        for sess in t["sessions"]:
            try:
                with quiet():
                    agg = Panoptica_Aggregator(ev, t["path"])
            except BaseException as e:      # noqa
                errors.append("constructor:" + type(e).__name__)
                continue
            for name, pj, rj in sess:
                try:
                    with quiet():
                        agg.evaluate(arr(pj), arr(rj), name)
                except BaseException as e:      # noqa
                    errors.append("evaluate:" + type(e).__name__)
        with open(t["path"], encoding="utf8", newline="") as f:
            rows = list(csv.reader(f, delimiter="\t"))
        loaded = None
        try:
            with quiet():
                st = Panoptica_Statistic.from_file(t["path"])
                loaded = {"subjects": list(st.subjectnames), "groups": list(st.groupnames),
                          "values": {sn: {g: {m: (None if v is None else float(v)) for m, v in d.items()} for g, d in st.get_one_subject(sn).items()} for sn in st.subjectnames}}
        except BaseException as e:      # noqa
            errors.append("loader:" + type(e).__name__)
        return {"rows": rows, "loaded": loaded, "errors": errors, "encoding": locale.getpreferredencoding(False)}
    if k == "info":
        import multiprocessing
        return {"optimize": sys.flags.optimize, "start_method": multiprocessing.get_start_method(), "debug": __debug__,
                "cores": len(os.sched_getaffinity(0)) if hasattr(os, "sched_getaffinity") else None}
    return "ERR:unknown task"


def main():
    global np, impl, E, quiet
    doc = json.loads(sys.stdin.read())
    if isinstance(doc, list):
        doc = {"tasks": doc}
    if doc.get("one_core"):
        try:
            os.sched_setaffinity(0, {sorted(os.sched_getaffinity(0))[0]})       # the process may use a single core only
        except Exception:      # noqa
            pass
    sm = doc.get("start_method")
    if sm:
        import multiprocessing
        try:
            multiprocessing.set_start_method(sm, force=True)
        except Exception as e:  # pragma: no cover
            print(json.dumps({"error": "start method: " + repr(e)}))
            sys.exit(0)

    import numpy as np
    import impl, evalutil as E          # noqa: E402  (import after the start method is fixed)
    from impl import quiet
    impl._devnull = open(os.devnull, "w", encoding="utf-8", errors="replace")     # the library prints subject names; the sink must accept them in any locale

    if sm:
        import multiprocessing
        multiprocessing.set_start_method(sm, force=True)      # the library sets "fork" at import time; put ours back
    if not doc.get("serial_pool", True):
        impl.serial_pool(False)


    out = []
    for t in doc["tasks"]:
        try:
            out.append(run(t))
        except BaseException as e:      # noqa
            out.append("ERR:" + type(e).__name__)
    print(json.dumps(out, default=lambda o: float(o) if isinstance(o, (np.floating, np.integer)) else str(o)))


if __name__ == "__main__":
    main()
