"""Shared machinery of the correspondence harness: Lean driver client, build + axiom audit,
case bookkeeping, evidence / replay / known-findings handling.  Runs under /venv/bin/python."""
from __future__ import annotations
import os, sys, json, time, subprocess, hashlib, random, fcntl, re, math, shutil
from fractions import Fraction
from pathlib import Path

VERIF = Path(__file__).resolve().parent.parent
LEAN = VERIF / "lean"
REPO = Path(os.environ.get("PANOPTICA_REPO", "/repo"))
DRIVER = LEAN / ".lake" / "build" / "bin" / "driver"
ALLOWED_AXIOMS = {"propext", "Classical.choice", "Quot.sound"}
TRUSTED_BASE = [
    "Lean 4.33.0 kernel (thorough tier re-checks with leanchecker)",
    "axioms: propext, Classical.choice, Quot.sound only (audited per theorem on every run)",
    "Lean compiler/runtime for the driver executable (compiled model = defined model)",
    "this correspondence harness (Python) and its generators",
    "numpy 1.26 / scipy 1.17 / cc3d 3.29 / skimage 0.22 as specified functions compared against the model",
]


# ----------------------------------------------------------------------------- build & audit
def _flock(path: Path):
    path.parent.mkdir(parents=True, exist_ok=True)
    f = open(path, "w")
    fcntl.flock(f, fcntl.LOCK_EX)
    return f


def lean_build(modules=()) -> tuple[bool, str]:
    """`lake build driver <modules of the property>`, serialised across concurrent checks.
    If only an extraction obligation (Panoptica/Extracted) fails, the driver is still built."""
    lock = _flock(LEAN / ".lake" / "verif-build.lock")
    try:
        p = subprocess.run(["lake", "build", "driver", *modules], cwd=LEAN, capture_output=True, text=True)
        out = p.stdout + p.stderr
        if p.returncode != 0:
            subprocess.run(["lake", "build", "driver"], cwd=LEAN, capture_output=True, text=True)
        return p.returncode == 0, out
    finally:
        lock.close()


FORBIDDEN = re.compile(r"\b(sorry|admit|native_decide|bv_decide|implemented_by|unsafe)\b|^\s*axiom\s|maxHeartbeats\s+0\b", re.M)


def strip_comments(src: str) -> str:
    src = re.sub(r"/-.*?-/", "", src, flags=re.S)
    return re.sub(r"--.*", "", src)


def import_closure(modules: list[str]) -> list[Path]:
    """files of the given Lean modules and of everything under Panoptica/ or Driver/ they import"""
    seen, todo = {}, list(modules) + ["Driver.Main"]
    while todo:
        m = todo.pop()
        if m in seen or not (m.startswith("Panoptica") or m.startswith("Driver")):
            continue
        f = LEAN / (m.replace(".", "/") + ".lean")
        if not f.exists():
            continue
        seen[m] = f
        for line in f.read_text().splitlines():
            mm = re.match(r"\s*import\s+(\S+)", line)
            if mm:
                todo.append(mm.group(1))
    return sorted(seen.values())


def source_grep(modules: list[str]) -> list[str]:
    bad = []
    for f in import_closure(modules):
        txt = strip_comments(f.read_text())
        for m in FORBIDDEN.finditer(txt):
            bad.append(f"{f.relative_to(LEAN)}: {m.group(0).strip()}")
    return bad


def obligations_for(pid: str) -> dict:
    ob = json.loads((LEAN / "obligations.json").read_text())
    return ob.get(pid, {"theorems": [], "modules": []})


def audit_axioms(theorems: list[str], imports: list[str]) -> dict[str, list[str] | None]:
    """Run `#print axioms` for every theorem; returns name -> axiom list (None if missing)."""
    if not theorems:
        return {}
    work = VERIF / ".work"
    work.mkdir(exist_ok=True)
    f = work / f"audit_{os.getpid()}.lean"
    f.write_text("".join(f"import {m}\n" for m in imports) +
                 "".join(f"#print axioms {t}\n" for t in theorems))
    p = subprocess.run(["lake", "env", "lean", str(f)], cwd=LEAN, capture_output=True, text=True)
    out = p.stdout + p.stderr
    f.unlink(missing_ok=True)
    res: dict[str, list[str] | None] = {t: None for t in theorems}
    for m in re.finditer(r"'([^']+)' depends on axioms: \[([^\]]*)\]", out, flags=re.S):
        res[m.group(1)] = [a.strip() for a in m.group(2).replace("\n", " ").split(",") if a.strip()]
    for m in re.finditer(r"'([^']+)' does not depend on any axioms", out):
        res[m.group(1)] = []
    return res


# ----------------------------------------------------------------------------- driver client
class Driver:
    def __init__(self):
        if not DRIVER.exists():
            raise RuntimeError(f"driver executable missing: {DRIVER} (run lake build)")
        self.p = subprocess.Popen([str(DRIVER)], stdin=subprocess.PIPE, stdout=subprocess.PIPE,
                                  text=True, bufsize=1)
        self.calls = 0

    def ask(self, req: dict):
        self.calls += 1
        self.p.stdin.write(json.dumps(req) + "\n")
        self.p.stdin.flush()
        line = self.p.stdout.readline()
        if not line:
            raise RuntimeError("driver died")
        ans = json.loads(line)
        if "bad" in ans:
            raise RuntimeError(f"driver rejected request: {ans['bad']} :: {json.dumps(req)[:300]}")
        return ans["r"]

    def close(self):
        try:
            self.p.stdin.close()
            self.p.wait(timeout=5)
        except Exception:
            self.p.kill()


# ----------------------------------------------------------------------------- value helpers
def frac(j) -> Fraction:
    return Fraction(int(j[0]), int(j[1]))


def rat_json(q: Fraction):
    return [q.numerator, q.denominator]


def float_is_quotient(x: float, q: Fraction) -> bool:
    """x is the correctly rounded float of the exact rational q (one IEEE division)."""
    try:
        return float(x) == q.numerator / q.denominator
    except OverflowError:
        return False


def close(a: float, b: float, rel=1e-9, abs_=1e-12) -> bool:
    if a is None or b is None:
        return a is None and b is None
    if isinstance(a, float) and isinstance(b, float):
        if math.isnan(a) or math.isnan(b):
            return math.isnan(a) and math.isnan(b)
        if math.isinf(a) or math.isinf(b):
            return a == b
    return abs(a - b) <= max(abs_, rel * max(abs(a), abs(b)))


def score_to_float(s) -> float:
    """Score JSON from the driver -> float the way the implementation computes it."""
    import numpy as np
    if "q" in s:
        q = frac(s["q"])
        return q.numerator / q.denominator
    if "surf" in s:
        a, b = s["surf"]
        if len(a) == 0 or len(b) == 0:
            return float("nan")
        return float(np.mean((np.sqrt(np.array(a, dtype=np.float64)).mean(),
                              np.sqrt(np.array(b, dtype=np.float64)).mean())))
    return float("nan")


def score_matches(s, x: float) -> bool:
    if "q" in s:
        return float_is_quotient(x, frac(s["q"]))
    if "surf" in s:
        return close(float(x), score_to_float(s))
    return False


def rval_to_py(v):
    """RVal JSON -> python value (None / float)."""
    if v == "nan":
        return float("nan")
    if v == "inf":
        return float("inf")
    if v == "ninf":
        return float("-inf")
    if v == "none":
        return None
    if isinstance(v, dict) and "num" in v:
        q = frac(v["num"])
        return q.numerator / q.denominator
    raise ValueError(v)


def same_value(impl, model, exact=False) -> bool:
    """compare an implementation value with a python value derived from the model"""
    if impl is None or model is None:
        return impl is None and model is None
    impl = float(impl)
    model = float(model)
    if math.isnan(impl) or math.isnan(model):
        return math.isnan(impl) and math.isnan(model)
    if exact:
        return impl == model
    return close(impl, model)


def canon(obj) -> str:
    return json.dumps(obj, sort_keys=True, default=str)


def digest(obj) -> str:
    return hashlib.sha256(canon(obj).encode()).hexdigest()[:16]


# ----------------------------------------------------------------------------- run context
class Ctx:
    """Bookkeeping of one check run (one property, one tier)."""

    def __init__(self, pid: str, tier: str, seed: int):
        self.pid, self.tier, self.seed = pid, tier, seed
        self.t0 = time.time()
        self.rng = random.Random(f"{pid}:{seed}")
        self.evaluations = 0
        self.nontrivial: set[str] = set()
        self.counters: dict[str, int] = {}
        self.samples: list = []
        self.violations: list[dict] = []      # property fails on the implementation (with input)
        self.disagreements: list[dict] = []   # model and implementation differ
        self.known_hits: list[dict] = []
        self.notes: list[str] = []
        self.exhaustive = False
        self.rule = ""
        self.extra: dict = {}
        kf = VERIF / "known_findings.json"
        self.known = json.loads(kf.read_text()) if kf.exists() else {"findings": [], "fixed": []}
        self._driver: Driver | None = None

    @property
    def quick(self):
        return self.tier == "quick"

    def scale(self, quick: int, thorough: int) -> int:
        return quick if self.quick else thorough

    def driver(self) -> Driver:
        if self._driver is None:
            self._driver = Driver()
        return self._driver

    def count(self, key: str, n: int = 1):
        self.counters[key] = self.counters.get(key, 0) + n

    def case(self, inp, nontrivial: bool, sample=None):
        """register one explored case; returns its hash"""
        self.evaluations += 1
        h = digest(inp)
        if nontrivial:
            self.nontrivial.add(h)
        if sample is not None and len(self.samples) < 4 and (nontrivial or not self.samples):
            self.samples.append(sample)
        return h

    # -- findings
    def _known(self, finding_key: dict) -> dict | None:
        for k in self.known.get("findings", []):
            if k.get("property") != self.pid:
                continue
            m = k.get("match", {})
            if all(finding_key.get(a) == b for a, b in m.items()):
                return k
        return None

    def violation(self, what: str, inp, impl=None, model=None, key: dict | None = None, observable: str = ""):
        """the *property* fails on the implementation for this concrete input"""
        k = self._known(key or {})
        rec = {"what": what, "input": inp, "impl": impl, "model": model, "key": key or {}, "observable": observable}
        if k is not None:
            if not any(h["id"] == k["id"] for h in self.known_hits):
                self.known_hits.append({"id": k["id"], "what": k["what"]})
            return
        if len(self.violations) < 20:
            self.violations.append(rec)

    def disagree(self, observable: str, inp, impl, model, note: str = ""):
        """model and implementation differ on an observable (not by itself a violation)"""
        if len(self.disagreements) < 20:
            self.disagreements.append({"observable": observable, "input": inp, "impl": impl, "model": model, "note": note})
        self.count("disagreements")

    def close(self):
        if self._driver is not None:
            self._driver.close()


# ----------------------------------------------------------------------------- replay / evidence
def write_replay(pid: str, rec: dict) -> str:
    d = VERIF / "replays" / pid
    d.mkdir(parents=True, exist_ok=True)
    h = digest(rec)
    p = d / f"{h}.json"
    rec = dict(rec)
    rec["replay_cmd"] = f"bin/check {pid} --replay replays/{pid}/{h}.json"
    p.write_text(json.dumps(rec, indent=1, default=str))
    return f"replays/{pid}/{h}.json"


def write_evidence(ctx: Ctx, proof: dict, violations: int):
    cov = {
        "obligations": proof["obligations"],
        "discharged": proof["discharged"],
        "checker_cmd": proof["checker_cmd"],
        "trusted_base": TRUSTED_BASE + ([f"extractors run on this tree before the build (Python ast -> Lean terms in lean/Panoptica/Generated): {', '.join(obligations_for(ctx.pid).get('extractors', []))}"]
                                         if obligations_for(ctx.pid).get("extractors") else []),
        "theorems": proof["theorems"],
        "axioms": proof["axioms"],
        "source_tie": proof.get("tie", "correspondence (model vs implementation on the same inputs)"),
        "evaluations": ctx.evaluations,
        "distinct_nontrivial": len(ctx.nontrivial),
        "rule": ctx.rule,
        "samples": ctx.samples if ctx.samples else [{"note": "no correspondence case in this run"}],
        "exhaustive": ctx.exhaustive,
        "distribution": ctx.counters,
        "disagreements": len(ctx.disagreements),
        "known_findings_observed": ctx.known_hits,
        "notes": ctx.notes,
    }
    cov.update(ctx.extra)
    ev = {
        "property_id": ctx.pid,
        "tier": ctx.tier,
        "seed": ctx.seed,
        "level": "proof",
        "coverage": cov,
        "assumptions": proof.get("assumptions", []),
        "wall_s": round(time.time() - ctx.t0, 2),
        "violations": violations,
    }
    (VERIF / "evidence").mkdir(exist_ok=True)
    (VERIF / "evidence" / f"{ctx.pid}.json").write_text(json.dumps(ev, indent=1, default=str))
