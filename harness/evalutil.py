"""Running the real evaluator and the model pipeline on the same input and comparing them."""
from __future__ import annotations
import math
from fractions import Fraction
import numpy as np
import impl, gen
from impl import quiet
from common import frac, score_matches, score_to_float, close, same_value, rval_to_py

BITS = {np.dtype(np.uint8): 8, np.dtype(np.uint16): 16, np.dtype(np.uint32): 32, np.dtype(np.uint64): 64,
        np.dtype(np.int8): 8, np.dtype(np.int16): 16, np.dtype(np.int32): 32, np.dtype(np.int64): 64}


def default_handler_json():
    z = lambda a, b, c, d: {"NO_INSTANCES": a, "EMPTY_PRED": b, "EMPTY_REF": c, "NORMAL": d}
    return {"table": [["DSC", z("NAN", "ZERO", "ZERO", "ZERO")], ["clDSC", z("NAN", "ZERO", "ZERO", "ZERO")],
                      ["IOU", z("NAN", "ZERO", "ZERO", "ZERO")], ["ASSD", z("NAN", "INF", "INF", "INF")],
                      ["RVD", z("NAN", "NAN", "NAN", "NAN")]], "empty_list_std": "NAN"}


def mk_cfg(input_type, eval_metrics, matcher=None, decision=None, backend=None, handler=None):
    return {"input": input_type, "backend": backend, "matcher": matcher, "eval_metrics": list(eval_metrics),
            "decision": decision, "handler": handler or default_handler_json()}


def naive(metric, thr, m2o=False):
    return {"kind": "naive", "metric": metric, "thr": {"q": list(thr)}, "m2o": m2o}


def merge(metric, thr):
    return {"kind": "merge", "metric": metric, "thr": {"q": list(thr)}}


def run_impl(cfg, pred, ref, groups=None, global_metrics=(), evaluator=None, **kw):
    """real evaluator -> {group: summary} or 'ERR:<class>'"""
    try:
        with quiet(), np.errstate(all="ignore"):
            ev = evaluator or impl.mk_evaluator(cfg, groups=groups, global_metrics=global_metrics)
            out = ev.evaluate(pred, ref, **kw)
            res = {}
            for g, (r, _) in out.items():
                s = impl.result_summary(r, cfg["eval_metrics"])
                for m in global_metrics:
                    try:
                        s["global_bin_" + m.lower()] = getattr(r, "global_bin_" + m.lower())
                    except Exception as e:
                        s["global_bin_" + m.lower()] = "ERR:" + type(e).__name__
                res[g] = s
            return res
    except Exception as e:
        return "ERR:" + type(e).__name__


def run_model(ctx, cfg, pred, ref, groups=None):
    req = {"op": "pipeline", "shape": list(pred.shape), "pred": gen.arr_json(pred), "ref": gen.arr_json(ref),
           "cfg": cfg, "bits": BITS.get(pred.dtype, 64)}
    if groups is not None:
        req["groups"] = groups
    return ctx.driver().ask(req)


def model_aggregates(ctx, out, cfg):
    """sq / std / rq / pq implied by the model's (n_ref, n_pred, tp, lists) through the model's result op
    for rational metrics, and through float arithmetic on the model's squared-distance lists for ASSD."""
    lists = []
    for m in cfg["eval_metrics"]:
        vals = out["lists"].get(m, [])
        if all("q" in v for v in vals):
            lists.append([m, [v["q"] for v in vals]])
    res = ctx.driver().ask({"op": "result", "n_ref": out["n_ref"], "n_pred": out["n_pred"], "tp": out["tp"],
                            "lists": lists, "handler": cfg["handler"]})
    return res


NAMES = {"IOU": ("sq", "sq_std", "pq"), "DSC": ("sq_dsc", "sq_dsc_std", "pq_dsc"),
         "ASSD": ("sq_assd", "sq_assd_std", None), "RVD": ("sq_rvd", "sq_rvd_std", None)}


def edge_py(name):
    return {"INF": float("inf"), "NAN": float("nan"), "ZERO": 0.0, "ONE": 1.0, "NONE": None}[name]


def compare_result(ctx, inp, summ, out, cfg, observable_prefix=""):
    """compare one implementation summary with one model PipeOut; returns list of differing observables"""
    diffs = []
    if summ["num_ref_instances"] != out["n_ref"]:
        diffs.append(("num_ref_instances", summ["num_ref_instances"], out["n_ref"]))
    if summ["num_pred_instances"] != out["n_pred"]:
        diffs.append(("num_pred_instances", summ["num_pred_instances"], out["n_pred"]))
    if summ["tp"] != out["tp"]:
        diffs.append(("tp", summ["tp"], out["tp"]))
    if summ["fp"] != out["n_pred"] - out["tp"]:
        diffs.append(("fp", summ["fp"], out["n_pred"] - out["tp"]))
    if summ["fn"] != out["n_ref"] - out["tp"]:
        diffs.append(("fn", summ["fn"], out["n_ref"] - out["tp"]))
    agg = model_aggregates(ctx, out, cfg)
    rq_m = rval_to_py(agg["rq"])
    if not same_value(summ["rq"], rq_m, exact=True):
        diffs.append(("rq", summ["rq"], rq_m))
    for m in cfg["eval_metrics"]:
        if m not in NAMES:
            continue
        il = summ.get("list_" + m)
        ml = out["lists"].get(m, [])
        if isinstance(il, str) or len(il) != len(ml):
            diffs.append(("list_" + m + " length", il, len(ml)))
            continue
        # per-instance values as multisets (order is label order on both sides, but keep it canonical)
        fl = sorted(score_to_float(v) for v in ml)
        if not all((score_matches({"q": v["q"]}, x) if "q" in v else close(x, score_to_float(v)))
                   for x, v in zip(sorted(il), sorted(ml, key=score_to_float))):
            diffs.append(("list_" + m, il, fl))
            continue
        sqn, stdn, pqn = NAMES[m]
        am = agg["metrics"][m]
        if len(ml) == 0 or m != "ASSD":
            sq_m = am["sq"]
            if isinstance(sq_m, dict) and "error" in sq_m:
                if not (isinstance(summ[sqn], str)):
                    diffs.append((sqn, summ[sqn], sq_m))
                continue
            sq_mv = rval_to_py(sq_m) if sq_m != "absent" else "absent"
            std_m = am["sq_std_sq"]
            std_mv = rval_to_py(std_m)
            if std_mv is not None and not (isinstance(std_mv, float) and (math.isnan(std_mv) or math.isinf(std_mv))) and len(ml) > 0:
                std_mv = math.sqrt(std_mv)
            pq_mv = rval_to_py(am["pq"]) if pqn and am["pq"] not in ("absent", None) and not (isinstance(am["pq"], dict) and "error" in am["pq"]) else None
        else:
            arr = np.array(fl)
            sq_mv, std_mv = float(np.average(arr)), float(np.std(arr))
            pq_mv = None
        if isinstance(summ[sqn], str) or not same_value(summ[sqn], sq_mv):
            diffs.append((sqn, summ[sqn], sq_mv))
        if isinstance(summ[stdn], str) or not same_value(summ[stdn], std_mv):
            diffs.append((stdn, summ[stdn], std_mv))
        if pqn and am["pq"] is None:
            if not isinstance(summ[pqn], str):
                diffs.append((pqn, summ[pqn], "uncomputable"))
        elif pqn and not (isinstance(summ[pqn], str)) and not same_value(summ[pqn], pq_mv):
            diffs.append((pqn, summ[pqn], pq_mv))
    return diffs


def check_bookkeeping(summ, metrics):
    """C02 identities on one implementation summary; returns list of failure strings"""
    f = []
    tp, fp, fn = summ["tp"], summ["fp"], summ["fn"]
    if tp + fp != summ["num_pred_instances"]:
        f.append(f"tp+fp = {tp}+{fp} != num_pred_instances {summ['num_pred_instances']}")
    if tp + fn != summ["num_ref_instances"]:
        f.append(f"tp+fn = {tp}+{fn} != num_ref_instances {summ['num_ref_instances']}")
    if fp < 0 or fn < 0:
        f.append(f"negative fp/fn: {fp},{fn}")
    for m in metrics:
        if m not in NAMES:
            continue
        l = summ.get("list_" + m)
        if isinstance(l, str):
            f.append(f"list of {m} not available: {l}")
            continue
        if len(l) != tp:
            f.append(f"list of {m} has {len(l)} entries but tp={tp}")
            continue
        sqn, stdn, pqn = NAMES[m]
        if tp > 0:
            if isinstance(summ[sqn], str) or not close(float(summ[sqn]), float(np.average(l))):
                f.append(f"{sqn}={summ[sqn]} is not the mean {np.average(l)} of its list")
            if isinstance(summ[stdn], str) or not close(float(summ[stdn]), float(np.std(l))):
                f.append(f"{stdn}={summ[stdn]} is not the population std {np.std(l)} of its list")
            rq = tp / (tp + 0.5 * fp + 0.5 * fn)
            if isinstance(summ["rq"], str) or not close(float(summ["rq"]), rq):
                f.append(f"rq={summ['rq']} != tp/(tp+fp/2+fn/2)={rq}")
            if pqn and (isinstance(summ[pqn], str) or not close(float(summ[pqn]), float(summ[sqn]) * float(summ["rq"]))):
                f.append(f"{pqn}={summ[pqn]} != {sqn}*rq")
            if m in ("IOU", "DSC"):
                if any(not (0.0 <= x <= 1.0) for x in l):
                    f.append(f"{m} value outside [0,1]: {l}")
                if pqn and not isinstance(summ[pqn], str) and not (0.0 <= float(summ[pqn]) <= 1.0):
                    f.append(f"{pqn} outside [0,1]")
            if not isinstance(summ["rq"], str) and not (0.0 < float(summ["rq"]) <= 1.0):
                f.append(f"rq outside (0,1]: {summ['rq']}")
    if tp > 0 and "IOU" in metrics and "DSC" in metrics and not isinstance(summ.get("sq"), str) and not isinstance(summ.get("sq_dsc"), str):
        if float(summ["sq_dsc"]) < float(summ["sq"]) - 1e-12:
            f.append(f"sq_dsc {summ['sq_dsc']} < sq {summ['sq']}")
    return f


# ----------------------------------------------------------------------------------------------------------------
# the selection of instance metrics must not influence any individual metric
# ----------------------------------------------------------------------------------------------------------------
def selection_variants(rng, base, allow_cldsc):
    """metric lists that contain every metric of `base`: duplicates (adjacent, separated, before/after ASSD),
    clDSC inserted first / in the middle / last, reorderings"""
    out = []
    b = list(base)
    for _ in range(3):
        v = list(b)
        rng.shuffle(v)
        k = rng.random()
        if k < 0.45:
            d = rng.choice(v)
            v.insert(rng.randint(0, len(v)), d)            # one metric named twice
            if rng.random() < 0.4:
                v.insert(rng.randint(0, len(v)), rng.choice(v))
        elif k < 0.8 and allow_cldsc:
            v.insert(rng.choice([0, 0, len(v) // 2, len(v)]), "clDSC")
        out.append(v)
    if allow_cldsc:
        out.append(["clDSC"] + b)
    out.append([b[0]] + b)                                  # the first metric twice, in front
    return out


def _same(a, b):
    if isinstance(a, str) or isinstance(b, str):
        return a == b
    if isinstance(a, (list, tuple)):
        return isinstance(b, (list, tuple)) and len(a) == len(b) and all(_same(x, y) for x, y in zip(a, b))
    if a is None or b is None:
        return a is b
    try:
        fa, fb = float(a), float(b)
    except (TypeError, ValueError):
        return a == b
    return (math.isnan(fa) and math.isnan(fb)) or fa == fb


def selection_failures(cfg, pred, ref, variants, groups=None):
    """runs the evaluator with cfg and with each variant metric list; returns (invariance failures, bookkeeping
    failures, number of variants that ran).  A variant that raises is skipped when the base also raises with it
    on its own (e.g. centre-line Dice on 2-D crops)"""
    base = run_impl(cfg, pred, ref, groups=groups)
    inv, book, ran = [], [], 0
    if isinstance(base, str):
        return inv, book, ran
    for v in variants:
        c2 = dict(cfg)
        c2["eval_metrics"] = list(v)
        res = run_impl(c2, pred, ref, groups=groups)
        if isinstance(res, str):
            if "clDSC" in v:
                continue                                   # skeletonisation may reject the crop: not our property
            inv.append(f"metric list {v}: evaluation raised {res}, while {cfg['eval_metrics']} evaluates")
            continue
        ran += 1
        for g, s in base.items():
            t = res.get(g)
            if t is None:
                inv.append(f"metric list {v}: group {g} missing")
                continue
            for k, val in s.items():
                if k in t and not _same(val, t[k]):
                    inv.append(f"metric list {v}: {g}.{k} = {t[k]!r}, but {val!r} when only {cfg['eval_metrics']} are requested")
            for m in dict.fromkeys(v):
                lst = t.get("list_" + m)
                if isinstance(lst, list) and isinstance(t.get("tp"), int) and len(lst) != t["tp"]:
                    book.append(f"metric list {v}: {g}: list of {m} has {len(lst)} entries but tp = {t['tp']}")
    return inv, book, ran


# ----------------------------------------------------------------------------------------------------------------
# the same evaluations in a child interpreter started with -O (assert statements are not executed)
# ----------------------------------------------------------------------------------------------------------------
def optimized_differences(ctx, cases, mode="python -O", **child_kw):
    """cases: list of dicts {cfg, pred, ref, groups?, global_metrics?}.  Runs them here and in a child interpreter and
    returns [(case index, description of the first difference)]; [] when the child could not be started (noted)."""
    import forms
    j = lambda a: {"data": a.astype(np.int64).ravel().tolist(), "dtype": str(a.dtype), "shape": list(a.shape)}
    tasks = [{"kind": "evaluate", "cfg": c["cfg"], "pred": j(c["pred"]), "ref": j(c["ref"]), "groups": c.get("groups"),
              "global_metrics": list(c.get("global_metrics", ()))} for c in cases]
    kw = {"optimize": True}
    doc_extra = {k: child_kw.pop(k) for k in ("start_method", "serial_pool", "one_core") if k in child_kw}
    kw.update(child_kw)
    res = forms.run_child(dict({"tasks": [{"kind": "info"}] + tasks}, **doc_extra), **kw)
    if isinstance(res, dict) or not isinstance(res[0], dict) or (kw["optimize"] and res[0].get("debug") is not False):
        ctx.notes.append(f"child interpreter ({mode}) could not be started: " + str(res)[:200])
        return []
    out = []
    for k, (c, o) in enumerate(zip(cases, res[1:])):
        h = run_impl(c["cfg"], c["pred"], c["ref"], groups=c.get("groups"), global_metrics=c.get("global_metrics", ()))
        if isinstance(h, str) or isinstance(o, str):
            if h != o:
                out.append((k, f"this process: {h if isinstance(h, str) else 'a result'}, child ({mode}): {o if isinstance(o, str) else 'a result'}"))
            continue
        for g, s in h.items():
            t = o.get(g)
            if t is None:
                out.append((k, f"group {g} missing in the child's result"))
                break
            bad = [key for key, val in s.items() if key in t and not _same(val, t[key])]
            if bad:
                out.append((k, f"{g}.{bad[0]} = {t[bad[0]]!r} in the child ({mode}), {s[bad[0]]!r} in this process"))
                break
    return out
