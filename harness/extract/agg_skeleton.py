"""Extractor (Python `ast`): the lock / file-operation skeleton of `Panoptica_Aggregator` — `evaluate` (with
`_save_one_subject` inlined), `make_statistic`, and the file part of `__init__` — as `Agg.Prog` terms in
lean/Panoptica/Generated/Skeleton.lean.  Statements that touch neither a lock nor a file helper are dropped; a
construct around such an operation that is outside the subset (loop, try, unknown guard, unknown `with`) becomes
`.other "<source>"`, on which the interpreter returns `none` and the obligation fails."""
from __future__ import annotations
import ast, os, re, sys, tempfile

REPO = os.environ.get("PANOPTICA_REPO", "/repo")
OUT = os.path.join(os.path.dirname(os.path.abspath(__file__)), "..", "..", "lean", "Panoptica", "Generated", "Skeleton.lean")
LOCKS = {"inevalfilelock": ".l1", "filelock": ".l2"}


def src(n) -> str:
    return re.sub(r"\s+", " ", ast.unparse(n)).strip()


def lean_str(s: str) -> str:
    return '"' + s.replace("\\", "\\\\").replace('"', '\\"') + '"'


def file_of(arg) -> str | None:
    t = src(arg)
    if "buffer" in t:
        return ".buf"
    if "output_file" in t or "out_file" in t:
        return ".out"
    return None


class Ex:
    def __init__(self, cls: ast.ClassDef):
        self.cls = cls
        self.methods = {n.name: n for n in cls.body if isinstance(n, ast.FunctionDef)}
        self.inlining: list[str] = []

    # ---- operations inside one expression, in evaluation order (we only accept one per statement) ----
    def ops_in(self, node) -> list:
        out = []
        for c in ast.walk(node):
            if not isinstance(c, ast.Call):
                continue
            f = src(c.func)
            if f == "_load_first_column_entries" and c.args:
                out.append(("act", f"(.load {file_of(c.args[0])})") if file_of(c.args[0]) else ("other", src(c)))
            elif f == "_write_content" and c.args:
                out.append(("act", f"(.write {file_of(c.args[0])})") if file_of(c.args[0]) else ("other", src(c)))
            elif f == "_read_first_row" and c.args:
                out.append(("act", ".readHdr") if file_of(c.args[0]) == ".out" else ("other", src(c)))
            elif f in ("os.remove", "os.unlink") and c.args:
                out.append(("act", f"(.remove {file_of(c.args[0])})") if file_of(c.args[0]) else ("other", src(c)))
            elif f == "open" and c.args:
                mode = src(c.args[1]) if len(c.args) > 1 else "'r'"
                if file_of(c.args[0]) and "a" in mode:
                    out.append(("act", f"(.create {file_of(c.args[0])})"))
                else:
                    out.append(("other", src(c)))
            elif f.endswith("panoptica_evaluator.evaluate"):
                out.append(("act", ".compute"))
            elif f == "Panoptica_Statistic.from_file":
                out.append(("act", ".statRead") if c.args and file_of(c.args[0]) == ".out" else ("other", src(c)))
            elif f.startswith("self.") and f[5:] in self.methods and f[5:] not in ("__init__",):
                m = f[5:]
                if m in self.inlining:
                    out.append(("other", "recursive " + src(c)))
                elif self.touches(self.methods[m]):
                    out.append(("inline", m))
            elif f.endswith(".acquire") or f.endswith(".release"):
                out.append(("other", src(c)))     # explicit lock calls are outside the subset
        return out

    def touches(self, node) -> bool:
        """does this statement (or function) contain a lock or a file operation?"""
        for c in ast.walk(node):
            if isinstance(c, ast.With) and any(src(i.context_expr) in LOCKS for i in c.items):
                return True
            if isinstance(c, ast.Call):
                f = src(c.func)
                if f in ("_load_first_column_entries", "_write_content", "_read_first_row", "os.remove", "os.unlink", "Panoptica_Statistic.from_file"):
                    return True
                if f == "open" and c.args and file_of(c.args[0]):
                    return True
                if f.endswith("panoptica_evaluator.evaluate") or f.endswith(".acquire") or f.endswith(".release"):
                    return True
                if f.startswith("self.") and f[5:] in self.methods and f[5:] not in self.inlining and f[5:] != "__init__":
                    self.inlining.append(f[5:])
                    try:
                        if self.touches(self.methods[f[5:]]):
                            return True
                    finally:
                        self.inlining.pop()
        return False

    def guard(self, test):
        """(guard, negated) or None"""
        neg = False
        while isinstance(test, ast.UnaryOp) and isinstance(test.op, ast.Not):
            neg = not neg
            test = test.operand
        t = src(test)
        if re.fullmatch(r"subject_name in \w+", t):
            return ".claimed", neg
        if re.fullmatch(r"subject_name not in \w+", t):
            return ".claimed", not neg
        if re.fullmatch(r"(Path\()?\w*output_file\)?\.exists\(\)", t) or re.fullmatch(r"os\.path\.exists\(\w*output_file\)", t):
            return ".outExists", neg
        if re.fullmatch(r"len\(header_list\) == 0", t) or t == "not header_list":
            return ".hdrEmpty", neg
        if re.fullmatch(r"len\(header_list\) (!=|>) 0", t):
            return ".hdrEmpty", not neg
        if re.fullmatch(r"(self\.__)?out(put)?_buffer_file\.exists\(\)", t):
            return ".bufExists", neg
        if t == "continue_file":
            return ".continueFile", neg
        return None

    def block(self, stmts, tail="Prog.nil") -> str:
        """translate a statement list followed by `tail`"""
        if not stmts:
            return tail
        s, rest = stmts[0], stmts[1:]
        k = lambda: self.block(rest, tail)
        if isinstance(s, ast.Return):
            if s.value is not None and self.touches(s.value):
                return f"(.other {lean_str(src(s))})"
            return ".ret"
        if isinstance(s, ast.Raise):
            return f"(.other {lean_str(src(s))})"
        leaves = isinstance(s, (ast.If, ast.With, ast.For, ast.While, ast.Try)) and any(isinstance(n, (ast.Return, ast.Raise)) for n in ast.walk(s))
        if not self.touches(s) and not leaves:
            if isinstance(s, ast.Assert) and "header" in src(s.test) and "hash" in src(s.test):
                return f"(.assertG .hdrMatches {k()})"
            return k()
        if isinstance(s, ast.With):
            names = [src(i.context_expr) for i in s.items]
            if len(names) == 1 and names[0] in LOCKS:
                return f"(.withLock {LOCKS[names[0]]} {self.block(s.body)} {k()})"
            if all(n in LOCKS for n in names):       # `with a, b:` = nested
                inner = self.block(s.body)
                for n in reversed(names):
                    inner = f"(.withLock {LOCKS[n]} {inner} .nil)"
                return inner[:-len(" .nil)")] + f" {k()})"
            return f"(.other {lean_str('with ' + ', '.join(names))})"
        if isinstance(s, ast.If):
            g = self.guard(s.test)
            if g is None:
                return f"(.other {lean_str('if ' + src(s.test))})"
            return f"(.ite {g[0]} {'true' if g[1] else 'false'} {self.block(s.body)} {self.block(s.orelse)} {k()})"
        if isinstance(s, (ast.Expr, ast.Assign, ast.AnnAssign, ast.AugAssign)):
            ops = self.ops_in(s)
            if len(ops) != 1:
                return f"(.other {lean_str(src(s))})"
            kind, v = ops[0]
            if kind == "act":
                return f"(.act {v} {k()})"
            if kind == "inline":
                self.inlining.append(v)
                try:
                    body = [n for n in self.methods[v].body]
                    # a `return` inside the callee ends the callee only: accept bodies without one
                    if any(isinstance(n, ast.Return) for n in ast.walk(self.methods[v])):
                        return f"(.other {lean_str('return inside inlined ' + v)})"
                    return self.block(body, k())
                finally:
                    self.inlining.pop()
            return f"(.other {lean_str(v)})"
        return f"(.other {lean_str(type(s).__name__ + ': ' + src(s)[:80])})"

    def method(self, name) -> str:
        f = self.methods.get(name)
        if f is None:
            return f"(.other {lean_str('MISSING ' + name)})"
        self.inlining = [name]
        return self.block(list(f.body))


# ---------------------------------------------------------------------------------------------------------------
# which file is it?  `file_of` above classifies a path argument by its *name*; the facts below follow the *value*: a small
# symbolic evaluation of the constructor (the given path is the symbol P; `str(x)` / `Path(x)` are the identity, `x + ".tsv"`
# and `x += ".tsv"` append, the buffer name is recognised by shape), forking at every `if` that assigns a path variable.
# For every branch it records the value stored as the output file and as the buffer file, and for every file operation the
# value of its path argument.
PATH_HELPERS = ("_load_first_column_entries", "_write_content", "_read_first_row", "os.remove", "os.unlink", "open", "Panoptica_Statistic.from_file")


def _key(node):
    t = src(node)
    return re.sub(r"^self\._?\w*?__", "self.__", t) if t.startswith("self.") else t


def sym(node, env):
    """symbolic value of a path expression, or None"""
    if isinstance(node, ast.Constant) and isinstance(node.value, str):
        return repr(node.value)
    if isinstance(node, (ast.Name, ast.Attribute)) and _key(node) in env:
        return env[_key(node)]
    if isinstance(node, ast.Call) and src(node.func) in ("str", "Path") and len(node.args) == 1 and not node.keywords:
        return sym(node.args[0], env)
    if isinstance(node, ast.BinOp) and isinstance(node.op, ast.Add):
        a, b = sym(node.left, env), sym(node.right, env)
        return None if a is None or b is None else f"{a}+{b}"
    if isinstance(node, ast.Call) and isinstance(node.func, ast.Attribute) and node.func.attr in ("joinpath", "with_name") and len(node.args) == 1:
        # Path(X).parent.joinpath(NAME)  /  Path(X).with_name(NAME): a sibling of X
        base = node.func.value
        if node.func.attr == "joinpath":
            if not (isinstance(base, ast.Attribute) and base.attr == "parent"):
                return None
            base = base.value
        a, b = sym(base, env), sym(node.args[0], env)
        return None if a is None or b is None else f"sibling({a}, {b})"
    if isinstance(node, ast.Attribute) and node.attr == "stem":
        a = sym(node.value, env)
        return None if a is None else f"stem({a})"
    return None


def path_facts(cls):
    methods = {n.name: n for n in cls.body if isinstance(n, ast.FunctionDef)}
    init = methods.get("__init__")
    uses, branches = [], []
    if init is None:
        return [], [("MISSING __init__", "?", "?")]
    PATHVARS = re.compile(r"output_file|out_file|buffer_file")

    def assigns_path(stmts):
        for st in stmts:
            for n in ast.walk(st):
                if isinstance(n, (ast.Assign, ast.AugAssign, ast.AnnAssign)):
                    tg = n.targets[0] if isinstance(n, ast.Assign) else n.target
                    if PATHVARS.search(src(tg)):
                        return True
        return False

    def record(node, env, label):
        for c in ast.walk(node):
            if isinstance(c, ast.Call) and src(c.func) in PATH_HELPERS and c.args and file_of(c.args[0]):
                v = sym(c.args[0], env)
                uses.append((file_of(c.args[0])[1:], src(c)[:60], label, v if v is not None else "other:" + src(c.args[0])))

    def run(stmts, env, label, cont):
        """process stmts in env; `cont(env, label)` is called for every path through"""
        if not stmts:
            return cont(env, label)
        st, rest = stmts[0], stmts[1:]
        if isinstance(st, ast.If) and (assigns_path(st.body) or assigns_path(st.orelse)):
            t = src(st.test)
            if re.fullmatch(r"isinstance\(\w+, str\)", t):      # str -> Path conversion: the same value either way
                return run(list(st.body) + rest, dict(env), label, cont)
            run(list(st.body) + rest, dict(env), (label + " & " if label else "") + t, cont)
            run(list(st.orelse) + rest, dict(env), (label + " & " if label else "") + "not (" + t + ")", cont)
            return
        if isinstance(st, (ast.Assign, ast.AnnAssign)) and (st.value is not None):
            tg = st.targets[0] if isinstance(st, ast.Assign) else st.target
            record(st.value, env, label)
            if PATHVARS.search(src(tg)):
                v = sym(st.value, env)
                env[_key(tg)] = v if v is not None else "other:" + src(st.value)
            return run(rest, env, label, cont)
        if isinstance(st, ast.AugAssign) and PATHVARS.search(src(st.target)) and isinstance(st.op, ast.Add):
            a, b = env.get(_key(st.target)), sym(st.value, env)
            env[_key(st.target)] = f"{a}+{b}" if a is not None and b is not None else "other:" + src(st)
            return run(rest, env, label, cont)
        record(st, env, label)
        return run(rest, env, label, cont)

    def done(env, label):
        branches.append((label or "always", env.get("self.__output_file", "?"), env.get("self.__output_buffer_file", "?")))
        # the other methods see the two attributes only
        for m in ("evaluate", "_save_one_subject", "make_statistic"):
            if m in methods:
                record(methods[m], {"self.__output_file": env.get("self.__output_file", "?"),
                                    "self.__output_buffer_file": env.get("self.__output_buffer_file", "?")}, label or "always")
    arg = init.args.args[2].arg if len(init.args.args) > 2 else "output_file"
    run(list(init.body), {arg: "P"}, "", done)
    return uses, branches


def generate() -> str:
    tree = ast.parse(open(os.path.join(REPO, "panoptica/panoptica_aggregator.py")).read())
    cls = next((n for n in ast.walk(tree) if isinstance(n, ast.ClassDef) and n.name == "Panoptica_Aggregator"), None)
    locks = {}
    for n in tree.body:
        if isinstance(n, ast.Assign) and len(n.targets) == 1 and src(n.targets[0]) in LOCKS:
            locks[src(n.targets[0])] = src(n.value)
    out = ["/- GENERATED by harness/extract/agg_skeleton.py from /repo's working tree — do not edit. -/",
           "import Panoptica.Model.Skeleton", "namespace Panoptica.Generated", "open Panoptica.Agg", ""]
    if cls is None:
        progs = {k: f"(.other {lean_str('MISSING class')})" for k in ("evaluate", "make_statistic", "__init__")}
    else:
        ex = Ex(cls)
        progs = {k: ex.method(k) for k in ("evaluate", "make_statistic", "__init__")}
    out.append(f"def evaluateProg : Prog := {progs['evaluate']}")
    out.append(f"def statProg : Prog := {progs['make_statistic']}")
    out.append(f"def ctorProg : Prog := {progs['__init__']}")
    # the two module-level locks must be two distinct multiprocessing locks
    ok = locks.get("inevalfilelock") == "Lock()" and locks.get("filelock") == "Lock()"
    out.append(f"def moduleLocksDistinct : Bool := {'true' if ok else 'false'}")
    uses, branches = path_facts(cls) if cls is not None else ([], [("MISSING class", "?", "?")])
    out.append("/-- (branch of the constructor, value stored as the output file, value stored as the buffer file); P = the path given -/")
    out.append("def pathBranches : List (String × String × String) := [" + ", ".join(f"({lean_str(a)}, {lean_str(b)}, {lean_str(c)})" for a, b, c in branches) + "]")
    out.append("/-- (file the operation is classified as, operation, branch, value of its path argument) -/")
    out.append("def pathUses : List (String × String × String × String) := [" + ",\n  ".join(f"({lean_str(a)}, {lean_str(b)}, {lean_str(c)}, {lean_str(d)})" for a, b, c, d in uses) + "]")
    out.append("\nend Panoptica.Generated\n")
    return "\n".join(out)


def main():
    txt = generate()
    out = os.path.abspath(OUT)
    old = open(out).read() if os.path.exists(out) else None
    if old != txt:
        fd, tmp = tempfile.mkstemp(dir=os.path.dirname(out))
        with os.fdopen(fd, "w") as f:
            f.write(txt)
        os.replace(tmp, out)
    if "--print" in sys.argv:
        print(txt)


if __name__ == "__main__":
    main()
