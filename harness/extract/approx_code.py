"""Extractor (Python `ast`): the decisions of the instance approximation —
  * `ConnectedComponentsInstanceApproximator._approximate_instances` (instance_approximator.py): which backend is used
    (the configured one, else by dimensionality), that the choice is not written back to the object, which array goes
    through the connected-component labelling on each side and which emptiness test guards it, the dtype of the result
    and which count is reported for which side;
  * `_connected_components` (_functionals.py): which library call each backend selects, with which extra arguments, and
    where the reported count comes from —
into lean/Panoptica/Generated/Approx.lean.  Conditional expressions may be written either way round or as statements."""
from __future__ import annotations
import ast, os, re, sys, tempfile

REPO = os.environ.get("PANOPTICA_REPO", "/repo")
OUT = os.path.join(os.path.dirname(os.path.abspath(__file__)), "..", "..", "lean", "Panoptica", "Generated", "Approx.lean")


def src(n) -> str:
    return re.sub(r"\s+", " ", ast.unparse(n)).strip()


def lean_str(s: str) -> str:
    return '"' + s.replace("\\", "\\\\").replace('"', '\\"') + '"'


def find_fn(tree, name, cls=None):
    for n in ast.walk(tree):
        if cls and isinstance(n, ast.ClassDef) and n.name == cls:
            for m in n.body:
                if isinstance(m, ast.FunctionDef) and m.name == name:
                    return m
        if not cls and isinstance(n, ast.FunctionDef) and n.name == name:
            return n
    return None


def bk(node) -> str:
    t = src(node)
    return {"CCABackend.cc3d": ".cc3d", "CCABackend.scipy": ".scipy"}.get(t, f"(.other {lean_str(t)})")


def cmp_nd(node, nd_names) -> str:
    neg = False
    while isinstance(node, ast.UnaryOp) and isinstance(node.op, ast.Not):
        neg, node = not neg, node.operand
    out = f"(.other {lean_str(src(node))})"
    if isinstance(node, ast.Compare) and len(node.ops) == 1:
        k = {ast.Gt: ".gt", ast.GtE: ".ge", ast.Lt: ".lt", ast.LtE: ".le"}.get(type(node.ops[0]))
        side = lambda x: '(.var "nd")' if src(x) in nd_names else (f"(.lit {x.value})" if isinstance(x, ast.Constant) and isinstance(x.value, int) else f"(.other {lean_str(src(x))})")
        if k:
            out = f"({k} {side(node.left)} {side(node.comparators[0])})"
    return f"(.not {out})" if neg else out


def side_of(text) -> str:
    if "prediction" in text or "pred" in text:
        return "pred"
    if "reference" in text or "ref" in text:
        return "ref"
    return "other:" + text


def generate() -> str:
    rd = lambda p: ast.parse(open(os.path.join(REPO, p)).read())
    ia, fu = rd("panoptica/instance_approximator.py"), rd("panoptica/_functionals.py")
    F = dict(usesGiven="false", ndCond='(.other "missing")', onTrue='(.other "missing")', onFalse='(.other "missing")', stores="true",
             pred='("?", "?", false)', ref='("?", "?", false)', dtypeArg='(.other "missing")', castBoth="false", counts="false", sameBackend="false")
    fn = find_fn(ia, "_approximate_instances", "ConnectedComponentsInstanceApproximator")
    if fn is not None:
        F["stores"] = "true" if any(isinstance(n, (ast.Assign, ast.AugAssign, ast.AnnAssign)) and any(
            src(t).startswith("self.") for t in (n.targets if isinstance(n, ast.Assign) else [n.target])) for n in ast.walk(fn)) or \
            any(isinstance(n, ast.Call) and src(n.func) == "setattr" for n in ast.walk(fn)) else "false"
        bvar, flags, sides, cc_backend_args = None, {}, {}, set()
        nd_names = {"semantic_pair.n_dim"}

        def default_choice(node):
            """A if <nd cond> else B"""
            if isinstance(node, ast.IfExp):
                F["ndCond"], F["onTrue"], F["onFalse"] = cmp_nd(node.test, nd_names), bk(node.body), bk(node.orelse)
                return True
            return False

        def cc_side(value):
            """(array through CC, emptiness flag, empty gives (same array, 0)) from  CC(a, b) if not e else (a, 0)  either way round"""
            if not isinstance(value, ast.IfExp):
                return None
            test, yes, no = value.test, value.body, value.orelse
            neg = False
            while isinstance(test, ast.UnaryOp) and isinstance(test.op, ast.Not):
                neg, test = not neg, test.operand
            if not neg:                  # `X if empty else CC`
                yes, no = no, yes
            # now: yes = taken when NOT empty
            if not (isinstance(yes, ast.Call) and src(yes.func) == "_connected_components" and len(yes.args) == 2):
                return None
            cc_backend_args.add(src(yes.args[1]))
            arr = src(yes.args[0])
            same = isinstance(no, ast.Tuple) and len(no.elts) == 2 and src(no.elts[0]) == arr and src(no.elts[1]) == "0"
            return arr, src(test), same

        for st in fn.body:
            if isinstance(st, ast.Assign) and len(st.targets) == 1:
                tg, v = st.targets[0], st.value
                if isinstance(tg, ast.Name) and src(v) == "self.cca_backend":
                    bvar = tg.id
                    continue
                if isinstance(tg, ast.Name) and re.fullmatch(r"len\(semantic_pair\._(pred|ref)_labels\) == 0", src(v)):
                    flags[tg.id] = "pred" if "_pred_" in src(v) else "ref"
                    continue
                if isinstance(tg, ast.Name) and src(v) == "semantic_pair.n_dim":
                    nd_names.add(tg.id)
                    continue
                if isinstance(tg, ast.Tuple) and len(tg.elts) == 2:
                    cs = cc_side(v)
                    if cs is not None:
                        sides[side_of(src(tg.elts[0]))] = (src(tg.elts[0]), src(tg.elts[1]), cs)
                    continue
                if isinstance(tg, ast.Name) and isinstance(v, ast.Call) and src(v.func) == "_get_smallest_fitting_uint" and len(v.args) == 1:
                    a = v.args[0]
                    if isinstance(a, ast.Call) and src(a.func) in ("max", "np.max") and len(a.args) == 2:
                        names = sorted(src(x) for x in a.args)
                        want = sorted(f"{sides[k][0]}.max()" for k in ("pred", "ref") if k in sides)
                        F["dtypeArg"] = '(.max (.var "pmax") (.var "rmax"))' if names == want and len(want) == 2 else f"(.other {lean_str(src(a))})"
                    F["_dtype_name"] = tg.id
                    continue
            if isinstance(st, ast.If) and bvar and src(st.test) == f"{bvar} is None" and len(st.body) == 1 and not st.orelse:
                inner = st.body[0]
                if isinstance(inner, ast.Assign) and src(inner.targets[0]) == bvar:
                    F["usesGiven"] = "true" if default_choice(inner.value) else "false"
                elif isinstance(inner, ast.If) and len(inner.body) == 1 and len(inner.orelse) == 1 \
                        and all(isinstance(x, ast.Assign) and src(x.targets[0]) == bvar for x in (inner.body[0], inner.orelse[0])):
                    # the same choice written as a statement
                    F["usesGiven"] = "true" if default_choice(ast.IfExp(test=inner.test, body=inner.body[0].value, orelse=inner.orelse[0].value)) else "false"
                continue
            if isinstance(st, ast.Return) and isinstance(st.value, ast.Call) and src(st.value.func) == "UnmatchedInstancePair":
                kw = {k.arg: src(k.value) for k in st.value.keywords}
                dn = F.get("_dtype_name")
                if "pred" in sides and "ref" in sides and dn:
                    F["castBoth"] = "true" if kw.get("prediction_arr") == f"{sides['pred'][0]}.astype({dn})" and kw.get("reference_arr") == f"{sides['ref'][0]}.astype({dn})" else "false"
                    F["counts"] = "true" if kw.get("n_prediction_instance") == sides["pred"][1] and kw.get("n_reference_instance") == sides["ref"][1] else "false"
        for k in ("pred", "ref"):
            if k in sides:
                arr, test, same = sides[k][2]
                F[k] = f"({lean_str(side_of(arr))}, {lean_str(flags.get(test, 'other:' + test))}, {'true' if same else 'false'})"
        F["sameBackend"] = "true" if bvar and cc_backend_args == {bvar} else "false"
    # ---- _connected_components
    G = dict(dispatch="[]", countFromCall="false")
    fn = find_fn(fu, "_connected_components")
    if fn is not None:
        arr = fn.args.args[0].arg
        bname = fn.args.args[1].arg if len(fn.args.args) > 1 else "cca_backend"
        entries, ok_count = [], True

        def branch(test, stmts):
            """(backend, library call, extra arguments) of one branch"""
            m = re.fullmatch(rf"{bname} == (CCABackend\.\w+)", src(test))
            call, count_ok = None, False
            for s in stmts:
                tgt = val = None
                if isinstance(s, ast.Assign) and isinstance(s.targets[0], ast.Tuple) and len(s.targets[0].elts) == 2 and isinstance(s.value, ast.Call):
                    tgt, val = s.targets[0], s.value
                    names = [src(e) for e in tgt.elts]
                    # the pair must be what the function returns (directly or at the end)
                    rets = [r for r in ast.walk(fn) if isinstance(r, ast.Return) and r.value is not None]
                    count_ok = any(isinstance(r.value, ast.Tuple) and [src(e) for e in r.value.elts] == names for r in rets)
                elif isinstance(s, ast.Return) and isinstance(s.value, ast.Call):
                    val, count_ok = s.value, True
                if val is not None:
                    extra = [src(a) for a in val.args[1:]] + [f"{k.arg}={src(k.value)}" for k in val.keywords]
                    first = src(val.args[0]) if val.args else "?"
                    call = (src(val.func), first == arr, extra)
            return (m.group(1) if m else "other:" + src(test)), call, count_ok

        node = next((s for s in fn.body if isinstance(s, ast.If)), None)
        rest_after = []
        while node is not None:
            b, call, cok = branch(node.test, node.body)
            ok_count = ok_count and cok
            if call:
                entries.append(f"({bk(ast.parse(b, mode='eval').body) if b.startswith('CCABackend') else '(.other ' + lean_str(b) + ')'}, {lean_str(call[0])}, {'true' if call[1] else 'false'}, [{', '.join(lean_str(x) for x in call[2])}])")
            nxt = None
            if len(node.orelse) == 1 and isinstance(node.orelse[0], ast.If):
                nxt = node.orelse[0]
            elif not node.orelse:
                # early-return style: the next `if` statement of the body
                idx = fn.body.index(node) if node in fn.body else -1
                nxt = next((s for s in fn.body[idx + 1:] if isinstance(s, ast.If)), None) if idx >= 0 else None
            node = nxt
        G["dispatch"] = "[" + ", ".join(entries) + "]"
        G["countFromCall"] = "true" if entries and ok_count else "false"
    out = ["/- GENERATED by harness/extract/approx_code.py from /repo's working tree — do not edit. -/",
           "import Panoptica.Model.Codes", "namespace Panoptica.Generated.Approx", "open Panoptica.Codes", "",
           "inductive Bk where | cc3d | scipy | other (src : String) deriving Repr, DecidableEq", "",
           "/-- the configured backend is used when one is configured; otherwise `if ndCond then onTrue else onFalse` (over nd = number of axes) -/",
           f"def usesConfiguredBackend : Bool := {F['usesGiven']}",
           f"def ndCond : Cmp := {F['ndCond']}",
           f"def onTrue : Bk := {F['onTrue']}",
           f"def onFalse : Bk := {F['onFalse']}",
           "/-- does the method assign to an attribute of the approximator? -/",
           f"def writesToSelf : Bool := {F['stores']}",
           "/-- per side: (array that goes through the labelling, whose label list's emptiness guards it, the empty case returns that same array with count 0) -/",
           f"def predSide : String × String × Bool := {F['pred']}",
           f"def refSide : String × String × Bool := {F['ref']}",
           f"def bothSidesUseTheChosenBackend : Bool := {F['sameBackend']}",
           "/-- argument of the dtype choice (over pmax / rmax = maxima of the two labelled arrays); both arrays cast; counts handed on to the right side -/",
           f"def dtypeArg : IExpr := {F['dtypeArg']}",
           f"def castBoth : Bool := {F['castBoth']}",
           f"def countsToTheirSides : Bool := {F['counts']}",
           "/-- `_connected_components`: (backend, library function, applied to the array itself, further arguments) -/",
           f"def dispatch : List (Bk × String × Bool × List String) := {G['dispatch']}",
           f"def countIsTheLibrarysCount : Bool := {G['countFromCall']}",
           "", "end Panoptica.Generated.Approx", ""]
    return "\n".join(out)


def main():
    txt = generate()
    out = os.path.abspath(OUT)
    old = open(out).read() if os.path.exists(out) else None
    if old != txt:
        fd, tmp = tempfile.mkstemp(dir=os.path.dirname(out))
        with os.fdopen(fd, "w") as f:
            f.write(txt)
        os.replace(tmp, out)
    if "--print" in sys.argv:
        print(txt)


if __name__ == "__main__":
    main()
