"""Extractor (Python `ast`): the structure of the ASSD computation (metrics/assd.py) —
  * `_average_symmetric_surface_distance`: the two directed calls (which argument goes where, after binding keywords to
    the callee's parameters and substituting locals) and how they are combined;
  * `_average_surface_distance`: what it hands to `__surface_distances` and how it reduces the result;
  * `__surface_distances`: how the two masks are prepared, the structuring element (and the default connectivity), how each
    border is formed, of which border the distance map is taken and at which border it is read —
into lean/Panoptica/Generated/AssdCode.lean."""
from __future__ import annotations
import ast, copy, os, re, sys, tempfile

REPO = os.environ.get("PANOPTICA_REPO", "/repo")
OUT = os.path.join(os.path.dirname(os.path.abspath(__file__)), "..", "..", "lean", "Panoptica", "Generated", "AssdCode.lean")


def src(n) -> str:
    return re.sub(r"\s+", " ", ast.unparse(n)).strip()


def lean_str(s: str) -> str:
    return '"' + s.replace("\\", "\\\\").replace('"', '\\"') + '"'


class Sub(ast.NodeTransformer):
    def __init__(self, env):
        self.env = env

    def visit_Name(self, n):
        return copy.deepcopy(self.env[n.id]) if isinstance(n.ctx, ast.Load) and n.id in self.env else n


def subst(node, env):
    return Sub(env).visit(copy.deepcopy(node))


def bind(call: ast.Call, fn: ast.FunctionDef):
    """parameter name -> source of the argument"""
    names = [a.arg for a in fn.args.args]
    out = {}
    for i, a in enumerate(call.args):
        if i < len(names):
            out[names[i]] = src(a)
    for k in call.keywords:
        if k.arg:
            out[k.arg] = src(k.value)
    return out


def generate() -> str:
    tree = ast.parse(open(os.path.join(REPO, "panoptica/metrics/assd.py")).read())
    fns = {n.name: n for n in tree.body if isinstance(n, ast.FunctionDef)}
    F = dict(directed="[]", combine=lean_str("missing"), asdArgs=lean_str("missing"), asdReduce=lean_str("missing"), prep="[]", footprint=lean_str("missing"),
             defaultConn="none", borders="[]", dtOf=lean_str("missing"), readAt=lean_str("missing"), returns=lean_str("missing"))
    sym, asd, sd = fns.get("_average_symmetric_surface_distance"), fns.get("_average_surface_distance"), fns.get("__surface_distances")
    if sym is not None and asd is not None:
        R, P = sym.args.args[0].arg, sym.args.args[1].arg
        env = {}
        ret = None
        for st in sym.body:
            if isinstance(st, ast.Assign) and isinstance(st.targets[0], ast.Name):
                env[st.targets[0].id] = subst(st.value, env)
            if isinstance(st, ast.Return) and st.value is not None:
                ret = subst(st.value, env)
        if ret is not None:
            inner = ret.args[0] if isinstance(ret, ast.Call) and src(ret.func) == "float" and len(ret.args) == 1 else ret
            calls = [n for n in ast.walk(inner) if isinstance(n, ast.Call) and src(n.func) == "_average_surface_distance"]
            pairs = []
            for c in calls:
                b = bind(c, asd)
                side = lambda t: "reference" if t == R else "prediction" if t == P else "other:" + str(t)
                pairs.append((side(b.get(asd.args.args[0].arg)), side(b.get(asd.args.args[1].arg)), b.get("connectivity", "default"), b.get("voxelspacing", "default")))
            F["directed"] = "[" + ", ".join(f"({lean_str(a)}, {lean_str(b)}, {lean_str(c)}, {lean_str(d)})" for a, b, c, d in pairs) + "]"
            ok = isinstance(inner, ast.Call) and src(inner.func) == "np.mean" and len(inner.args) == 1 and isinstance(inner.args[0], (ast.Tuple, ast.List)) \
                and len(inner.args[0].elts) == 2 and all(e in calls for e in inner.args[0].elts) and not inner.keywords
            F["combine"] = lean_str("np.mean of exactly the two directed values" if ok else "other: " + src(inner)[:80])
    if asd is not None and sd is not None:
        env, ret = {}, None
        for st in asd.body:
            if isinstance(st, ast.Assign) and isinstance(st.targets[0], ast.Name):
                env[st.targets[0].id] = subst(st.value, env)
            if isinstance(st, ast.Return) and st.value is not None:
                ret = subst(st.value, env)
        if ret is not None:
            calls = [n for n in ast.walk(ret) if isinstance(n, ast.Call) and src(n.func) == "__surface_distances"]
            if len(calls) == 1:
                b = bind(calls[0], sd)
                a0, a1 = asd.args.args[0].arg, asd.args.args[1].arg
                s0, s1 = sd.args.args[0].arg, sd.args.args[1].arg
                F["asdArgs"] = lean_str("its own (reference, prediction, voxelspacing, connectivity) in that order" if b.get(s0) == a0 and b.get(s1) == a1 and b.get("voxelspacing") == "voxelspacing" and b.get("connectivity") == "connectivity" else "other: " + str(b))
                red = src(ret).replace(src(calls[0]), "SDS")
                F["asdReduce"] = lean_str("mean of the distances" if red in ("SDS.mean()", "np.mean(SDS)") else "other: " + red)
    if sd is not None:
        R, P = sd.args.args[0].arg, sd.args.args[1].arg
        for a, d in zip(reversed(sd.args.args), reversed(sd.args.defaults)):
            if a.arg == "connectivity" and isinstance(d, ast.Constant):
                F["defaultConn"] = f"(some {d.value})"
        prep, borders, foot, dt_name, bnames = [], [], None, None, {}
        for st in sd.body:
            if isinstance(st, ast.Expr) and isinstance(st.value, ast.Constant):
                continue
            if isinstance(st, ast.If) and "voxelspacing" in src(st.test):
                continue
            if isinstance(st, ast.Assign) and isinstance(st.targets[0], ast.Name):
                nm, t = st.targets[0].id, src(st.value)
                if nm in (R, P):
                    prep.append((("reference" if nm == R else "prediction"), "np.atleast_1d(x.astype(bool))" if t == f"np.atleast_1d({nm}.astype(bool))" else "other: " + t))
                    continue
                if t == f"generate_binary_structure({P}.ndim, connectivity)" or t == f"generate_binary_structure({R}.ndim, connectivity)":
                    foot = nm
                    F["footprint"] = lean_str("generate_binary_structure(ndim, connectivity)")
                    continue
                m = re.fullmatch(rf"(\w+) \^ binary_erosion\(\1, structure={foot}, iterations=1\)", t) if foot else None
                if m and m.group(1) in (R, P):
                    bnames[nm] = "reference" if m.group(1) == R else "prediction"
                    borders.append((bnames[nm], "x ^ binary_erosion(x, structure=footprint, iterations=1)"))
                    continue
                m = re.fullmatch(r"_distance_transform_edt\(~(\w+), sampling=(\w+)\)", t)
                if m:
                    dt_name = nm
                    F["dtOf"] = lean_str(f"complement of the {bnames.get(m.group(1), 'other:' + m.group(1))} border, sampling={m.group(2)}")
                    continue
                m = re.fullmatch(rf"{dt_name}\[(\w+)\]", t) if dt_name else None
                if m:
                    F["readAt"] = lean_str(f"the {bnames.get(m.group(1), 'other:' + m.group(1))} border")
                    F["_sds"] = nm
                    continue
                if "voxelspacing" in nm:
                    continue
                prep.append(("other", nm + " = " + t[:60]))
            if isinstance(st, ast.Return) and st.value is not None:
                m = re.fullmatch(rf"{dt_name}\[(\w+)\]", src(st.value)) if dt_name else None
                if m and "_sds" not in F:
                    F["readAt"] = lean_str(f"the {bnames.get(m.group(1), 'other:' + m.group(1))} border")
                    F["returns"] = lean_str("the distances read")
                else:
                    F["returns"] = lean_str("the distances read" if src(st.value) == F.get("_sds") else "other: " + src(st.value))
        F["prep"] = "[" + ", ".join(f"({lean_str(a)}, {lean_str(b)})" for a, b in sorted(prep)) + "]"
        F["borders"] = "[" + ", ".join(f"({lean_str(a)}, {lean_str(b)})" for a, b in sorted(borders)) + "]"
    out = ["/- GENERATED by harness/extract/assd_code.py from /repo's working tree — do not edit. -/",
           "namespace Panoptica.Generated.AssdCode", "",
           "/-- the directed calls of the symmetric distance: (what is passed as reference, as prediction, connectivity, voxelspacing) -/",
           f"def directed : List (String × String × String × String) := {F['directed']}",
           f"def combine : String := {F['combine']}",
           f"def asdArgs : String := {F['asdArgs']}",
           f"def asdReduce : String := {F['asdReduce']}",
           f"def maskPreparation : List (String × String) := {F['prep']}",
           f"def footprint : String := {F['footprint']}",
           f"def defaultConnectivity : Option Nat := {F['defaultConn']}",
           f"def borders : List (String × String) := {F['borders']}",
           f"def distanceMapOf : String := {F['dtOf']}",
           f"def readAt : String := {F['readAt']}",
           f"def returns : String := {F['returns']}",
           "", "end Panoptica.Generated.AssdCode", ""]
    return "\n".join(out)


def main():
    txt = generate()
    out = os.path.abspath(OUT)
    old = open(out).read() if os.path.exists(out) else None
    if old != txt:
        fd, tmp = tempfile.mkstemp(dir=os.path.dirname(out))
        with os.fdopen(fd, "w") as f:
            f.write(txt)
        os.replace(tmp, out)
    if "--print" in sys.argv:
        print(txt)


if __name__ == "__main__":
    main()
