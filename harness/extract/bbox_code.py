"""Extractor (Python `ast`): the bounds of the crop — in `_get_bbox_nd` (utils/numpy_utils.py) the start and stop of the
slice of one axis as `Codes.IExpr` terms over lo / hi (first and last non-zero index of the axis), pad and n (axis length);
in `_get_paired_crop` (_functionals.py) what the box is computed from (union of the two foregrounds), the fallback for two
empty maps, and the default padding — into lean/Panoptica/Generated/Bbox.lean.  The slices may be built by a generator
expression or by a loop with locals (substituted before matching)."""
from __future__ import annotations
import ast, copy, os, re, sys, tempfile

REPO = os.environ.get("PANOPTICA_REPO", "/repo")
OUT = os.path.join(os.path.dirname(os.path.abspath(__file__)), "..", "..", "lean", "Panoptica", "Generated", "Bbox.lean")


def src(n) -> str:
    return re.sub(r"\s+", " ", ast.unparse(n)).strip()


def lean_str(s: str) -> str:
    return '"' + s.replace("\\", "\\\\").replace('"', '\\"') + '"'


def other(n) -> str:
    return f"(.other {lean_str(n if isinstance(n, str) else src(n))})"


class Sub(ast.NodeTransformer):
    def __init__(self, env):
        self.env = env

    def visit_Name(self, n):
        return copy.deepcopy(self.env[n.id]) if isinstance(n.ctx, ast.Load) and n.id in self.env else n


def subst(node, env):
    return Sub(env).visit(copy.deepcopy(node))


def iexpr(node, atoms) -> str:
    t = src(node)
    if t in atoms:
        return f'(.var "{atoms[t]}")'
    if isinstance(node, ast.Constant) and isinstance(node.value, int) and not isinstance(node.value, bool) and node.value >= 0:
        return f"(.lit {node.value})"
    if isinstance(node, ast.Call) and src(node.func) == "int" and len(node.args) == 1:
        return iexpr(node.args[0], atoms)
    if isinstance(node, ast.Call) and src(node.func) in ("max", "min") and len(node.args) == 2 and not node.keywords:
        a, b = node.args
        if src(node.func) == "max":
            # max(x - y, 0) / max(0, x - y): subtraction that stops at zero
            for x, z in ((a, b), (b, a)):
                if src(z) == "0" and isinstance(x, ast.BinOp) and isinstance(x.op, ast.Sub):
                    return f"(.monus {iexpr(x.left, atoms)} {iexpr(x.right, atoms)})"
        return f"(.{src(node.func)} {iexpr(a, atoms)} {iexpr(b, atoms)})"
    if isinstance(node, ast.BinOp) and type(node.op) in (ast.Add, ast.Sub, ast.Mult):
        op = {ast.Add: ".add", ast.Sub: ".sub", ast.Mult: ".mul"}[type(node.op)]
        return f"({op} {iexpr(node.left, atoms)} {iexpr(node.right, atoms)})"
    return other(node)


def find_fn(tree, name):
    return next((n for n in ast.walk(tree) if isinstance(n, ast.FunctionDef) and n.name == name), None)


def generate() -> str:
    rd = lambda p: ast.parse(open(os.path.join(REPO, p)).read())
    nu, fu = rd("panoptica/utils/numpy_utils.py"), rd("panoptica/_functionals.py")
    facts = dict(startE=other("missing"), stopE=other("missing"), union="false", fallbackWhole="false", defaultPad="none", padPassed="false")
    fn = find_fn(nu, "_get_bbox_nd")
    if fn is not None:
        img = fn.args.args[0].arg
        pad = fn.args.args[1].arg if len(fn.args.args) > 1 else "px_dist"
        # aliases of the shape
        shape_names = {f"{img}.shape"}
        for st in fn.body:
            if isinstance(st, ast.Assign) and isinstance(st.targets[0], ast.Name) and src(st.value) == f"{img}.shape":
                shape_names.add(st.targets[0].id)
        sl = None           # (index variable, slice node with locals substituted)
        for st in fn.body:
            # out = tuple(slice(a, b) for i in range(0, len(out), 2))
            for n in ast.walk(st):
                if isinstance(n, ast.GeneratorExp) and isinstance(n.elt, ast.Call) and src(n.elt.func) == "slice" and len(n.elt.args) == 2 \
                        and len(n.generators) == 1 and re.fullmatch(r"range\(0, len\(\w+\), 2\)", src(n.generators[0].iter)):
                    sl = (src(n.generators[0].target), re.fullmatch(r"range\(0, len\((\w+)\), 2\)", src(n.generators[0].iter)).group(1), n.elt)
            if isinstance(st, ast.For) and re.fullmatch(r"range\(0, len\(\w+\), 2\)", src(st.iter)) and isinstance(st.target, ast.Name):
                env = {}
                for b in st.body:
                    if isinstance(b, ast.Assign) and isinstance(b.targets[0], ast.Name):
                        env[b.targets[0].id] = subst(b.value, env)
                    else:
                        for n in ast.walk(b):
                            if isinstance(n, ast.Call) and src(n.func) == "slice" and len(n.args) == 2:
                                sl = (st.target.id, re.fullmatch(r"range\(0, len\((\w+)\), 2\)", src(st.iter)).group(1), subst(n, env))
        if sl is not None:
            i, arr, call = sl
            atoms = {f"{arr}[{i}]": "lo", f"{arr}[{i} + 1]": "hi", f"{pad}[{i} // 2]": "pad"}
            for sn in shape_names:
                atoms[f"{sn}[{i} // 2]"] = "n"
            facts["startE"], facts["stopE"] = iexpr(call.args[0], atoms), iexpr(call.args[1], atoms)
    fn = find_fn(fu, "_get_paired_crop")
    if fn is not None:
        a0, a1 = fn.args.args[0].arg, fn.args.args[1].arg
        padname = fn.args.args[2].arg if len(fn.args.args) > 2 else None
        # the default of the padding parameter itself (the third positional one), whatever parameters follow it
        n_pos, n_def = len(fn.args.args), len(fn.args.defaults)
        k = 2 - (n_pos - n_def)
        if padname and 0 <= k < n_def and isinstance(fn.args.defaults[k], ast.Constant) and type(fn.args.defaults[k].value) is int and fn.args.defaults[k].value >= 0:
            facts["defaultPad"] = f"(some {fn.args.defaults[k].value})"
        # follow the value handed to _get_bbox_nd through the locals: a mask M, and what replaces it when M has no True
        env = {}
        for st in fn.body:
            if isinstance(st, ast.Expr) and isinstance(st.value, ast.Constant):
                continue
            if isinstance(st, ast.Assign) and isinstance(st.targets[0], ast.Name):
                env[st.targets[0].id] = subst(st.value, env)
                continue
            if isinstance(st, ast.If) and len(st.body) == 1 and not st.orelse and isinstance(st.body[0], ast.Assign) and isinstance(st.body[0].targets[0], ast.Name):
                nm = st.body[0].targets[0].id
                old = env.get(nm, ast.Name(id=nm, ctx=ast.Load()))
                env[nm] = ast.IfExp(test=subst(st.test, env), body=subst(st.body[0].value, env), orelse=old)
                continue
            if isinstance(st, ast.Return) and isinstance(st.value, ast.Call) and src(st.value.func) == "_get_bbox_nd" and st.value.args:
                e = subst(st.value.args[0], env)
                kws = {k.arg: src(k.value) for k in st.value.keywords}
                pos = [src(x) for x in st.value.args[1:]]
                facts["padPassed"] = "true" if padname and (kws.get("px_dist") == padname or pos == [padname]) else "false"
                unions = (f"np.logical_or({a0} != 0, {a1} != 0)", f"np.logical_or({a1} != 0, {a0} != 0)", f"({a0} != 0) | ({a1} != 0)", f"({a1} != 0) | ({a0} != 0)",
                          f"{a0} != 0 | {a1} != 0")
                mask, fallback = e, None
                if isinstance(e, ast.IfExp):
                    t = e.test
                    neg = False
                    while isinstance(t, ast.UnaryOp) and isinstance(t.op, ast.Not):
                        neg, t = not neg, t.operand
                    yes, no = (e.orelse, e.body) if neg else (e.body, e.orelse)       # yes: taken when the test (".any()") holds
                    m_any = re.fullmatch(r"(.+)\.any\(\)|np\.any\((.+)\)", src(t))
                    if m_any and src(yes) == (m_any.group(1) or m_any.group(2)):
                        mask, fallback = yes, no
                if src(mask) in unions:
                    facts["union"] = "true"
                if fallback is not None and src(fallback) in (f"np.ones_like({src(mask)})", f"np.ones({src(mask)}.shape, dtype=bool)"):
                    facts["fallbackWhole"] = "true"
    out = ["/- GENERATED by harness/extract/bbox_code.py from /repo's working tree — do not edit. -/",
           "import Panoptica.Model.Codes", "namespace Panoptica.Generated.Bbox", "open Panoptica.Codes", "",
           "/-- start and stop of the slice of one axis, over lo / hi (first / last non-zero index), pad, n (axis length) -/",
           f"def startE : IExpr := {facts['startE']}",
           f"def stopE : IExpr := {facts['stopE']}",
           "/-- `_get_paired_crop`: the box is that of the union of the two foregrounds; two empty maps give the whole array; default padding; the padding is handed on -/",
           f"def unionOfForegrounds : Bool := {facts['union']}",
           f"def emptyGivesWhole : Bool := {facts['fallbackWhole']}",
           f"def defaultPad : Option Nat := {facts['defaultPad']}",
           f"def padPassedOn : Bool := {facts['padPassed']}",
           "", "end Panoptica.Generated.Bbox", ""]
    return "\n".join(out)


def main():
    txt = generate()
    out = os.path.abspath(OUT)
    old = open(out).read() if os.path.exists(out) else None
    if old != txt:
        fd, tmp = tempfile.mkstemp(dir=os.path.dirname(out))
        with os.fdopen(fd, "w") as f:
            f.write(txt)
        os.replace(tmp, out)
    if "--print" in sys.argv:
        print(txt)


if __name__ == "__main__":
    main()
