"""Extractor (Python `ast`): constructor parameters, stored attributes and `_yaml_repr` key -> attribute
maps of every configurable class, and the member names of the enums used in configurations.
Emits Lean *data* (no proofs) into lean/Panoptica/Generated/Config.lean."""
from __future__ import annotations
import ast, os, sys, re, tempfile

REPO = os.environ.get("PANOPTICA_REPO", "/repo")
OUT = os.path.join(os.path.dirname(os.path.abspath(__file__)), "..", "..", "lean", "Panoptica", "Generated", "Config.lean")

CLASSES = [
    ("panoptica/panoptica_evaluator.py", "Panoptica_Evaluator"),
    ("panoptica/instance_matcher.py", "NaiveThresholdMatching"),
    ("panoptica/instance_matcher.py", "MaximizeMergeMatching"),
    ("panoptica/instance_approximator.py", "ConnectedComponentsInstanceApproximator"),
    ("panoptica/utils/edge_case_handling.py", "MetricZeroTPEdgeCaseHandling"),
    ("panoptica/utils/edge_case_handling.py", "EdgeCaseHandler"),
    ("panoptica/utils/label_group.py", "LabelGroup"),
    ("panoptica/utils/label_group.py", "LabelMergeGroup"),
    ("panoptica/utils/label_group.py", "_LabelGroupAny"),
    ("panoptica/utils/segmentation_class.py", "SegmentationClassGroups"),
    ("panoptica/utils/segmentation_class.py", "_NoSegmentationClassGroups"),
]
ENUMS = [("panoptica/metrics/metrics.py", "Metric"), ("panoptica/utils/processing_pair.py", "InputType"),
         ("panoptica/utils/constants.py", "CCABackend"), ("panoptica/utils/edge_case_handling.py", "EdgeCaseResult"),
         ("panoptica/utils/edge_case_handling.py", "EdgeCaseZeroTP")]


def norm_attr(name: str) -> str:
    return name.lstrip("_")


def src(node) -> str:
    return re.sub(r"\s+", " ", ast.unparse(node))


def lean_str(s: str) -> str:
    return '"' + s.replace("\\", "\\\\").replace('"', '\\"') + '"'


def find_class(tree, name):
    for n in ast.walk(tree):
        if isinstance(n, ast.ClassDef) and n.name == name:
            return n
    return None


def find_func(cls, name):
    for n in cls.body:
        if isinstance(n, ast.FunctionDef) and n.name == name:
            return n
    return None


def attr_of(expr, obj_names):
    """self.X / node.X  -> normalised attribute name"""
    if isinstance(expr, ast.Attribute) and isinstance(expr.value, ast.Name) and expr.value.id in obj_names:
        return norm_attr(expr.attr)
    return None


def is_none_test(test, pname):
    """`p is not None` -> ('notnone', p); `p is None` -> ('none', p)"""
    if isinstance(test, ast.Compare) and len(test.ops) == 1 and isinstance(test.left, ast.Name) and \
            isinstance(test.comparators[0], ast.Constant) and test.comparators[0].value is None:
        if isinstance(test.ops[0], ast.IsNot):
            return ("notnone", test.left.id)
        if isinstance(test.ops[0], ast.Is):
            return ("none", test.left.id)
    return None


class _Subst(ast.NodeTransformer):
    def __init__(self, env):
        self.env = env

    def visit_Name(self, n):
        return self.env.get(n.id, n) if isinstance(n.ctx, ast.Load) else n


def _subst(expr, env):
    import copy
    return _Subst(env).visit(copy.deepcopy(expr))


SYM = {}


def store_expr(expr, params, local_norm):
    """classify the expression a constructor stores into an attribute"""
    if isinstance(expr, ast.Name) and (expr.id in params or expr.id in SYM):
        n = local_norm.get(expr.id)
        if expr.id in SYM and not (n or "").startswith("ifNoneNew:"):
            # a normalised parameter: ONE canonical expression over the original parameter, whatever locals were used on the way
            e2 = SYM[expr.id]
            free = {x.id for x in ast.walk(e2) if isinstance(x, ast.Name)} & set(params)
            if len(free) == 1:
                return f'.param {lean_str(next(iter(free)))} (.other {lean_str(src(e2))})'
        if expr.id in params:
            return f'.param {lean_str(expr.id)} {("(.other " + lean_str(n) + ")" if n else ".id")}'
    if isinstance(expr, ast.IfExp):
        t = is_none_test(expr.test, None)
        if t and t[0] == "none":
            # `X if p is None else p` is `p if p is not None else X`
            expr = ast.IfExp(test=ast.Compare(left=expr.test.left, ops=[ast.IsNot()], comparators=expr.test.comparators), body=expr.orelse, orelse=expr.body)
            t = ("notnone", t[1])
        if t and t[0] == "notnone" and isinstance(expr.body, ast.Name) and expr.body.id == t[1] and t[1] in params:
            if isinstance(expr.orelse, ast.Name) and expr.orelse.id in params:
                return f".ifNoneParam {lean_str(t[1])} {lean_str(expr.orelse.id)}"
            if isinstance(expr.orelse, ast.Call) and isinstance(expr.orelse.func, ast.Name) and not expr.orelse.args and not expr.orelse.keywords:
                return f".ifNoneNew {lean_str(t[1])} {lean_str(expr.orelse.func.id)}"
    names = {n.id for n in ast.walk(expr) if isinstance(n, ast.Name)}
    if not (names & set(params)):
        return f".const {lean_str(src(expr))}"
    return f".other {lean_str(src(expr))}"


_CACHE = {}


def describe(path, cname):
    d = describe_raw(path, cname)
    return d


def describe_raw(path, cname):
    tree = ast.parse(open(os.path.join(REPO, path)).read())
    cls = find_class(tree, cname)
    if cls is None:
        return f'{{ name := {lean_str(cname)}, params := [], noneDefault := [], stores := [(".missing", .other "class not found")], repr := [] }}'
    bases = [src(b) for b in cls.bases]
    init = find_func(cls, "__init__")
    params, none_default, stores = [], [], []
    inherited = None
    if init is not None:
        args = init.args
        names = [a.arg for a in args.args][1:]
        defaults = [None] * (len(names) - len(args.defaults)) + list(args.defaults)
        params = names
        for n, d in zip(names, defaults):
            if isinstance(d, ast.Constant) and d.value is None:
                none_default.append(n)
        local_norm = {}
        pending_none = {}
        SYM.clear()

        def visit(stmts):
            nonlocal inherited
            for st in stmts:
                # super().__init__(...) : inherits the parent's stores
                if isinstance(st, ast.Expr) and isinstance(st.value, ast.Call) and "super().__init__" in src(st.value.func):
                    inherited = src(st.value)
                    continue
                if isinstance(st, ast.Assign) and len(st.targets) == 1:
                    tgt, val = st.targets[0], st.value
                    a = attr_of(tgt, {"self"})
                    if a is not None:
                        stores.append((a, store_expr(val, params, local_norm)))
                        continue
                    # self._dict[KEY] = expr
                    if isinstance(tgt, ast.Subscript) and attr_of(tgt.value, {"self"}) is not None:
                        key = src(tgt.slice).split(".")[-1]
                        stores.append((f"{attr_of(tgt.value, {'self'})}[{key}]", store_expr(val, params, local_norm)))
                        continue
                    # local re-assignment of a parameter: p = f(p)
                    if isinstance(tgt, ast.Name) and tgt.id in params:
                        local_norm[tgt.id] = (local_norm.get(tgt.id, "") + ";" if tgt.id in local_norm else "") + src(val)
                        SYM[tgt.id] = _subst(val, SYM)
                        continue
                    # any other local: remembered symbolically
                    if isinstance(tgt, ast.Name):
                        SYM[tgt.id] = _subst(val, SYM)
                        continue
                if isinstance(st, ast.AnnAssign) and st.value is not None:
                    a = attr_of(st.target, {"self"})
                    if a is not None:
                        stores.append((a, store_expr(st.value, params, local_norm)))
                        continue
                    if isinstance(st.target, ast.Subscript):
                        pass
                if isinstance(st, ast.If):
                    t = is_none_test(st.test, None)
                    # `if p is None: p = Cls()`  -> p defaults to a new object
                    if t and t[0] == "none" and len(st.body) == 1 and isinstance(st.body[0], ast.Assign) and \
                            isinstance(st.body[0].targets[0], ast.Name) and st.body[0].targets[0].id == t[1] and \
                            isinstance(st.body[0].value, ast.Call) and not st.orelse:
                        local_norm[t[1]] = "ifNoneNew:" + src(st.body[0].value.func)
                        continue
                    # `if isinstance(p, int): p = [p]` and similar local normalisations
                    if all(isinstance(b, ast.Assign) and isinstance(b.targets[0], ast.Name) and b.targets[0].id in params for b in st.body) and not st.orelse:
                        for b in st.body:
                            p = b.targets[0].id
                            local_norm[p] = (local_norm[p] + ";" if p in local_norm else "") + f"if {src(st.test)}: {src(b.value)}"
                            SYM[p] = ast.IfExp(test=_subst(st.test, SYM), body=_subst(b.value, SYM), orelse=SYM.get(p, ast.Name(id=p, ctx=ast.Load())))
                        continue
                    # any other branching that stores attributes is not in the extractor's subset
                    sub = [s2 for s2 in ast.walk(st) if isinstance(s2, (ast.Assign, ast.AnnAssign))]
                    for s2 in sub:
                        tg = s2.targets[0] if isinstance(s2, ast.Assign) else s2.target
                        a = attr_of(tg, {"self"}) or (attr_of(tg.value, {"self"}) if isinstance(tg, ast.Subscript) else None)
                        if a is not None:
                            ent = (a, f".other {lean_str('assigned inside: if ' + src(st.test))}")
                            if ent not in stores:       # how many statements the branches use is not part of the description
                                stores.append(ent)
                    continue
        visit(init.body)
        # post-process `ifNoneNew:` local normalisations into the store form
        fixed = []
        for a, s in stores:
            m = re.match(r'\.param "(\w+)" \(\.other "ifNoneNew:(\w+)"\)', s)
            fixed.append((a, f'.ifNoneNew "{m.group(1)}" "{m.group(2)}"' if m else s))
        stores = fixed
    rep = []
    yr = find_func(cls, "_yaml_repr")
    if yr is not None:
        ret = [n for n in ast.walk(yr) if isinstance(n, ast.Return) and n.value is not None]
        rv = ret[0].value if len(ret) == 1 else None
        if isinstance(rv, ast.Call) and src(rv.func) == "dict" and not rv.args and all(kw.arg for kw in rv.keywords):
            # `dict(key=value, ...)` is the literal `{"key": value, ...}`
            rv = ast.Dict(keys=[ast.Constant(value=kw.arg) for kw in rv.keywords], values=[kw.value for kw in rv.keywords])
        if isinstance(rv, ast.Dict):
            for k, v in zip(rv.keys, rv.values):
                if not (isinstance(k, ast.Constant) and isinstance(k.value, str)):
                    rep.append((src(k), f".other {lean_str(src(v))}"))
                    continue
                a = attr_of(v, {"node"})
                if a is not None:
                    rep.append((k.value, f".attr {lean_str(a)}"))
                elif isinstance(v, ast.Subscript) and attr_of(v.value, {"node"}) is not None:
                    rep.append((k.value, f".attr {lean_str(attr_of(v.value, {'node'}) + '[' + src(v.slice).split('.')[-1] + ']')}"))
                else:
                    rep.append((k.value, f".other {lean_str(src(v))}"))
        else:
            rep.append(("<return>", f".other {lean_str(' | '.join(src(r.value) for r in ret))}"))
    if inherited and not stores and yr is None and len(cls.bases) == 1:
        m = re.match(r"super\(\).__init__\((.*)\)$", inherited)
        if m and [a.strip() for a in m.group(1).split(",")] == params:
            base = find_class(tree, src(cls.bases[0]))
            if base is not None:
                saved = (cname,)
                parent = describe_parts(path, base.name)
                stores, rep = parent["stores"], parent["rep"]
    _CACHE[(path, cname)] = {"stores": stores, "rep": rep}
    lst = lambda xs: "[" + ", ".join(xs) + "]"
    return ("{ name := " + lean_str(cname) + ", bases := " + lst(lean_str(b) for b in bases) +
            ", inherits := " + (f"some {lean_str(inherited)}" if inherited else "none") +
            ",\n    params := " + lst(lean_str(p) for p in params) +
            ", noneDefault := " + lst(lean_str(p) for p in none_default) +
            ",\n    stores := " + lst(f"({lean_str(a)}, {s})" for a, s in stores) +
            ",\n    repr := " + lst(f"({lean_str(k)}, {v})" for k, v in rep) + " }")


def describe_parts(path, cname):
    describe_raw(path, cname)
    return _CACHE[(path, cname)]


def enum_members(path, ename):
    tree = ast.parse(open(os.path.join(REPO, path)).read())
    cls = find_class(tree, ename)
    out = []
    if cls is not None:
        for st in cls.body:
            if isinstance(st, ast.Assign) and len(st.targets) == 1 and isinstance(st.targets[0], ast.Name) and not st.targets[0].id.startswith("_"):
                out.append(st.targets[0].id)
    return out


def generate() -> str:
    parts = ["/- GENERATED by harness/extract/config_classes.py from /repo's working tree — do not edit. -/",
             "import Panoptica.Model.Config", "namespace Panoptica.Generated", "open Panoptica.Cfg", "",
             "def classes : List ClassDesc := ["]
    parts.append(",\n".join("  " + describe(p, c) for p, c in CLASSES))
    parts.append("]\n")
    parts.append("def enums : List (String × List String) := [")
    parts.append(",\n".join(f'  ({lean_str(e)}, [' + ", ".join(lean_str(m) for m in enum_members(p, e)) + "])" for p, e in ENUMS))
    parts.append("]\n\nend Panoptica.Generated\n")
    return "\n".join(parts)


def main():
    txt = generate()
    out = os.path.abspath(OUT)
    old = open(out).read() if os.path.exists(out) else None
    if old != txt:
        fd, tmp = tempfile.mkstemp(dir=os.path.dirname(out))
        with os.fdopen(fd, "w") as f:
            f.write(txt)
        os.replace(tmp, out)
    if "--print" in sys.argv:
        print(txt)


if __name__ == "__main__":
    main()
