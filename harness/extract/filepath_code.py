"""Extractor (Python `ast`): `config_dir_by_name` (utils/filepath.py) — the file name a configuration name designates, as an
expression over the name (`name`, `name + ".yaml"`, a conditional on `name.endswith(...)`; statement and expression forms), and
what the directory is computed from — into lean/Panoptica/Generated/NameCode.lean."""
from __future__ import annotations
import ast, os, re, sys, tempfile

REPO = os.environ.get("PANOPTICA_REPO", "/repo")
OUT = os.path.join(os.path.dirname(os.path.abspath(__file__)), "..", "..", "lean", "Panoptica", "Generated", "NameCode.lean")


def src(n) -> str:
    return re.sub(r"\s+", " ", ast.unparse(n)).strip()


def lean_str(s: str) -> str:
    return '"' + s.replace("\\", "\\\\").replace('"', '\\"') + '"'


def cond(node, nm) -> str:
    if isinstance(node, ast.UnaryOp) and isinstance(node.op, ast.Not):
        return f"(.not {cond(node.operand, nm)})"
    if (isinstance(node, ast.Call) and isinstance(node.func, ast.Attribute) and node.func.attr == "endswith" and src(node.func.value) == nm
            and len(node.args) == 1 and isinstance(node.args[0], ast.Constant) and isinstance(node.args[0].value, str)):
        return f"(.endsWith {lean_str(node.args[0].value)})"
    return f"(.other {lean_str(src(node))})"


def expr(node, nm, cur) -> str:
    """`cur`: the expression the variable `nm` currently holds"""
    if isinstance(node, ast.Name) and node.id == nm:
        return cur
    if isinstance(node, ast.BinOp) and isinstance(node.op, ast.Add) and isinstance(node.right, ast.Constant) and isinstance(node.right.value, str):
        return f"(.appendLit {expr(node.left, nm, cur)} {lean_str(node.right.value)})"
    if isinstance(node, ast.JoinedStr) and len(node.values) == 2 and isinstance(node.values[0], ast.FormattedValue) and src(node.values[0].value) == nm \
            and not node.values[0].format_spec and node.values[0].conversion == -1 and isinstance(node.values[1], ast.Constant):
        return f"(.appendLit {cur} {lean_str(node.values[1].value)})"
    if isinstance(node, ast.IfExp):
        return f"(.ite {cond(node.test, nm)} {expr(node.body, nm, cur)} {expr(node.orelse, nm, cur)})"
    return f"(.other {lean_str(src(node))})"


def generate() -> str:
    tree = ast.parse(open(os.path.join(REPO, "panoptica/utils/filepath.py")).read())
    fn = next((n for n in tree.body if isinstance(n, ast.FunctionDef) and n.name == "config_dir_by_name"), None)
    code, directory, returns = '(.other "missing")', "missing", "missing"
    if fn is not None and fn.args.args:
        nm = fn.args.args[0].arg
        cur = ".name"
        dirvar = None
        locals_ = {}
        for st in fn.body:
            if isinstance(st, ast.Expr) and isinstance(st.value, ast.Constant):
                continue
            if isinstance(st, ast.Assign) and len(st.targets) == 1 and isinstance(st.targets[0], ast.Name):
                t = st.targets[0].id
                if t == nm:
                    cur = expr(st.value, nm, cur)
                else:
                    v = src(st.value)
                    for ln, lv in locals_.items():          # locals substituted
                        v = re.sub(rf"\b{re.escape(ln)}\b", lv, v)
                    if "__file__" in v and v.endswith(".parent.parent") and v.startswith("Path("):
                        dirvar, directory = t, "two levels above this file (the package directory)"
                    elif "__file__" in v and "Path(" not in v:
                        locals_[t] = "(" + v + ")"               # a string derived from __file__, used further down
                    else:
                        dirvar, directory = t, "other: " + v[:120]
                continue
            if isinstance(st, ast.AugAssign) and isinstance(st.target, ast.Name) and st.target.id == nm and isinstance(st.op, ast.Add) \
                    and isinstance(st.value, ast.Constant) and isinstance(st.value.value, str):
                cur = f"(.appendLit {cur} {lean_str(st.value.value)})"
                continue
            if isinstance(st, ast.If):
                def branch(stmts, c):
                    for s2 in stmts:
                        if isinstance(s2, ast.Pass):
                            continue
                        if isinstance(s2, ast.AugAssign) and isinstance(s2.target, ast.Name) and s2.target.id == nm and isinstance(s2.op, ast.Add) \
                                and isinstance(s2.value, ast.Constant) and isinstance(s2.value.value, str):
                            c = f"(.appendLit {c} {lean_str(s2.value.value)})"
                        elif isinstance(s2, ast.Assign) and len(s2.targets) == 1 and src(s2.targets[0]) == nm:
                            c = expr(s2.value, nm, c)
                        else:
                            return f"(.other {lean_str(src(s2))})"
                    return c
                cur = f"(.ite {cond(st.test, nm)} {branch(st.body, cur)} {branch(st.orelse, cur)})"
                continue
            if isinstance(st, ast.Return):
                r = st.value
                if isinstance(r, ast.Tuple) and len(r.elts) == 2 and src(r.elts[0]) == dirvar:
                    returns = "(directory, name)"
                    if src(r.elts[1]) != nm:
                        cur = expr(r.elts[1], nm, cur)
                else:
                    returns = "other: " + src(r)
                continue
            cur = f"(.other {lean_str(src(st))})"
    out = ["/- GENERATED by harness/extract/filepath_code.py from /repo's working tree — do not edit. -/",
           "import Panoptica.Model.NameCode",
           "namespace Panoptica.Generated.NameCode", "open Panoptica.NameCode", "",
           f"def byNameCode : NExpr := {code if fn is None else cur}",
           f"def directoryIs : String := {lean_str(directory)}",
           f"def returnsPair : String := {lean_str(returns)}",
           "", "end Panoptica.Generated.NameCode", ""]
    return "\n".join(out)


def main():
    txt = generate()
    out = os.path.abspath(OUT)
    old = open(out).read() if os.path.exists(out) else None
    if old != txt:
        fd, tmp = tempfile.mkstemp(dir=os.path.dirname(out))
        with os.fdopen(fd, "w") as f:
            f.write(txt)
        os.replace(tmp, out)
    if "--print" in sys.argv:
        print(txt)


if __name__ == "__main__":
    main()
