"""Extractor (Python `ast`): class-group evaluation —
  * `Panoptica_Evaluator._evaluate_group` (panoptica_evaluator.py): which arrays the group restricts, in which class the
    restricted pair is rebuilt, the condition under which the group is evaluated as one already-matched instance, what
    the pair and the decision threshold become then, and the wiring of the call to `panoptic_evaluate`;
  * `LabelGroup.extract_label` / `LabelGroup.__call__` / `LabelMergeGroup.__call__` (utils/label_group.py): copy first,
    zero what is not in the group, a merge group binarises —
into lean/Panoptica/Generated/GroupCode.lean."""
from __future__ import annotations
import ast, os, re, sys, tempfile

REPO = os.environ.get("PANOPTICA_REPO", "/repo")
OUT = os.path.join(os.path.dirname(os.path.abspath(__file__)), "..", "..", "lean", "Panoptica", "Generated", "GroupCode.lean")


def src(n) -> str:
    return re.sub(r"\s+", " ", ast.unparse(n)).strip()


def lean_str(s: str) -> str:
    return '"' + s.replace("\\", "\\\\").replace('"', '\\"') + '"'


def attr(t: str) -> str:
    """self._Panoptica_Evaluator__x / self.__x -> x"""
    return re.sub(r"^self\._?\w*?__", "self.", t)


def gcond(node, single_names, pair) -> str:
    t = src(node)
    if isinstance(node, ast.UnaryOp) and isinstance(node.op, ast.Not):
        return f"(.not {gcond(node.operand, single_names, pair)})"
    if isinstance(node, ast.BoolOp):
        op = ".and" if isinstance(node.op, ast.And) else ".or"
        out = gcond(node.values[0], single_names, pair)
        for v in node.values[1:]:
            out = f"({op} {out} {gcond(v, single_names, pair)})"
        return out
    if t in single_names:
        return ".single"
    m = re.fullmatch(rf"isinstance\({pair}, (\w+)\)", t)
    if m:
        return {"SemanticPair": ".isSemantic", "UnmatchedInstancePair": ".isUnmatched", "MatchedInstancePair": ".isMatched"}.get(m.group(1), f"(.other {lean_str(t)})")
    m = re.fullmatch(rf"isinstance\({pair}, \((\w+), (\w+)\)\)", t)
    if m:
        a, b = (gcond(ast.parse(f"isinstance({pair}, {x})", mode="eval").body, single_names, pair) for x in m.groups())
        return f"(.or {a} {b})"
    return f"(.other {lean_str(t)})"


def generate() -> str:
    ev = ast.parse(open(os.path.join(REPO, "panoptica/panoptica_evaluator.py")).read())
    lg = ast.parse(open(os.path.join(REPO, "panoptica/utils/label_group.py")).read())
    F = dict(restricted="[]", rebuilt="false", singleCond='(.other "missing")', converted="false", forcedThr=lean_str("missing"), defaultThr=lean_str("missing"),
             wiring="[]", extract="[]", callBinary=lean_str("missing"), mergeBinary=lean_str("missing"))
    cls = next((n for n in ev.body if isinstance(n, ast.ClassDef) and n.name == "Panoptica_Evaluator"), None)
    fn = next((m for m in cls.body if isinstance(m, ast.FunctionDef) and m.name == "_evaluate_group"), None) if cls else None
    if fn is not None:
        pair, group = "processing_pair", "label_group"
        single_names, restricted, grouped_var, thr_var = {f"{group}.single_instance"}, {}, None, None
        for st in fn.body:
            if isinstance(st, ast.Assign) and len(st.targets) == 1 and isinstance(st.targets[0], ast.Name):
                nm, v = st.targets[0].id, st.value
                t = src(v)
                m = re.fullmatch(rf"{group}\({pair}\.(prediction|reference)_arr\)", t)
                if m:
                    restricted[nm] = m.group(1)
                    continue
                if t == f"{group}.single_instance":
                    single_names.add(nm)
                    continue
                if isinstance(v, ast.Call) and src(v.func) in (f"{pair}.__class__", f"type({pair})"):
                    kw = {k.arg: src(k.value) for k in v.keywords}
                    ok = restricted.get(kw.get("prediction_arr")) == "prediction" and restricted.get(kw.get("reference_arr")) == "reference" and not v.args and len(kw) == 2
                    F["rebuilt"] = "true" if ok else "false"
                    grouped_var = nm
                    continue
                if re.fullmatch(r"self\._?\w*?__decision_threshold", t):
                    thr_var = nm
                    F["defaultThr"] = lean_str(attr(t))
                    continue
            if isinstance(st, ast.If) and grouped_var and any(isinstance(n, ast.Assign) and src(n.targets[0]) == grouped_var for n in ast.walk(st)):
                # `if a: if b: body` is `if a and b: body`
                test, body, has_else = st.test, st.body, bool(st.orelse)
                while len(body) == 1 and isinstance(body[0], ast.If) and not has_else:
                    test = ast.BoolOp(op=ast.And(), values=[test, body[0].test])
                    has_else = bool(body[0].orelse)
                    body = body[0].body
                st = ast.If(test=test, body=body, orelse=[ast.Pass()] if has_else else [])
                F["singleCond"] = gcond(st.test, single_names, pair)
                conv, thr = "false", "unchanged"
                for b in st.body:
                    if isinstance(b, ast.Assign) and src(b.targets[0]) == grouped_var and isinstance(b.value, ast.Call) and src(b.value.func) == "MatchedInstancePair":
                        kw = {k.arg: src(k.value) for k in b.value.keywords}
                        conv = "true" if kw == {"prediction_arr": f"{grouped_var}.prediction_arr", "reference_arr": f"{grouped_var}.reference_arr"} and not b.value.args else "false"
                    elif isinstance(b, ast.Assign) and thr_var and src(b.targets[0]) == thr_var:
                        thr = src(b.value)
                    else:
                        conv = "false"
                F["converted"], F["forcedThr"] = conv, lean_str(thr)
                if st.orelse:
                    F["singleCond"] = f"(.other {lean_str('has an else branch')})"
                continue
            call = next((n for n in ast.walk(st) if isinstance(n, ast.Call) and src(n.func) == "panoptic_evaluate"), None)
            if call is not None:
                w = []
                for k in call.keywords:
                    v = attr(src(k.value))
                    if grouped_var and v == grouped_var:
                        v = "GROUPED"
                    if thr_var and v == thr_var:
                        v = "THRESHOLD"
                    w.append((k.arg, v))
                w += [(str(i), src(a)) for i, a in enumerate(call.args)]
                keep = ("input_pair", "edge_case_handler", "instance_approximator", "instance_matcher", "instance_metrics", "global_metrics", "decision_metric", "decision_threshold")
                F["wiring"] = "[" + ", ".join(f"({lean_str(k)}, {lean_str(v)})" for k, v in sorted(w) if k in keep or k.isdigit()) + "]"
        F["restricted"] = "[" + ", ".join(f"({lean_str(k)}, {lean_str(v)})" for k, v in sorted(restricted.items(), key=lambda kv: kv[1])) + "]"
    lcls = {n.name: n for n in lg.body if isinstance(n, ast.ClassDef)}
    base = lcls.get("LabelGroup")
    if base is not None:
        ex = next((m for m in base.body if isinstance(m, ast.FunctionDef) and m.name == "extract_label"), None)
        if ex is not None:
            a = ex.args.args[1].arg
            flag = ex.args.args[2].arg if len(ex.args.args) > 2 else "set_to_binary"
            steps = []
            w = None            # the array being worked on: the copy, under whatever name
            loc = {}            # other locals (a named mask): substituted textually where they are used as an index
            for st in ex.body:
                if isinstance(st, ast.Expr) and isinstance(st.value, ast.Constant):
                    continue
                if w and isinstance(st, ast.Assign) and len(st.targets) == 1 and isinstance(st.targets[0], ast.Name) and st.targets[0].id != w \
                        and not isinstance(st.value, ast.Call) or (w and isinstance(st, ast.Assign) and len(st.targets) == 1 and isinstance(st.targets[0], ast.Name)
                                                                    and st.targets[0].id != w and src(st.value).startswith(("np.isin(", "~np.isin(", "np.logical_not("))):
                    loc[st.targets[0].id] = src(st.value)
                    continue
                t = src(st)
                for k_, v_ in loc.items():
                    t = re.sub(rf"\[{k_}\]", f"[{v_}]", t)
                m = re.fullmatch(rf"(\w+) = (?:{a}\.copy\(\)|np\.copy\({a}\)|np\.array\({a}, copy=True\))", t)
                if m and w is None:
                    w = m.group(1)
                    steps.append("copy")
                elif w and t in (f"{w}[np.isin({w}, self.value_labels, invert=True)] = 0", f"{w}[~np.isin({w}, self.value_labels)] = 0",
                                 f"{w}[np.logical_not(np.isin({w}, self.value_labels))] = 0"):
                    steps.append("zero what is not in the group")
                elif w and isinstance(st, ast.If) and src(st.test) == flag and len(st.body) == 1 and not st.orelse and src(st.body[0]) == f"{w}[{w} != 0] = 1":
                    steps.append("if binary: set non-zero to 1")
                elif w and t == f"return {w}":
                    steps.append("return")
                else:
                    steps.append("other: " + t[:70])
            F["extract"] = "[" + ", ".join(lean_str(s) for s in steps) + "]"

        def call_binary(c):
            m = next((m for m in c.body if isinstance(m, ast.FunctionDef) and m.name == "__call__"), None) if c else None
            if m is None:
                return "inherited"
            body = [s for s in m.body if not (isinstance(s, ast.Expr) and isinstance(s.value, ast.Constant))]
            if len(body) == 1 and isinstance(body[0], ast.Return):
                mm = re.fullmatch(rf"self\.extract_label\({m.args.args[1].arg}, (?:set_to_binary=)?(True|False)\)", src(body[0].value))
                if mm:
                    return mm.group(1)
            return "other: " + "; ".join(src(s) for s in body)[:70]
        F["callBinary"], F["mergeBinary"] = lean_str(call_binary(base)), lean_str(call_binary(lcls.get("LabelMergeGroup")))
    out = ["/- GENERATED by harness/extract/group_code.py from /repo's working tree — do not edit. -/",
           "import Panoptica.Model.GroupCode", "namespace Panoptica.Generated.GroupCode", "open Panoptica.GroupCode", "",
           "/-- (local, which array of the pair the group is applied to) -/",
           f"def restricted : List (String × String) := {F['restricted']}",
           f"def rebuiltInSameClass : Bool := {F['rebuilt']}",
           f"def singleCond : GCond := {F['singleCond']}",
           f"def convertedToMatchedPair : Bool := {F['converted']}",
           f"def thresholdDefault : String := {F['defaultThr']}",
           f"def thresholdWhenSingle : String := {F['forcedThr']}",
           f"def wiring : List (String × String) := {F['wiring']}",
           f"def extractSteps : List String := {F['extract']}",
           f"def plainGroupBinary : String := {F['callBinary']}",
           f"def mergeGroupBinary : String := {F['mergeBinary']}",
           "", "end Panoptica.Generated.GroupCode", ""]
    return "\n".join(out)


def main():
    txt = generate()
    out = os.path.abspath(OUT)
    old = open(out).read() if os.path.exists(out) else None
    if old != txt:
        fd, tmp = tempfile.mkstemp(dir=os.path.dirname(out))
        with os.fdopen(fd, "w") as f:
            f.write(txt)
        os.replace(tmp, out)
    if "--print" in sys.argv:
        print(txt)


if __name__ == "__main__":
    main()
