"""Extractor (Python `ast`): the per-instance evaluation (instance_evaluator.py) —
  * `_evaluate_instance`: the two masks (same label on both sides), the guard that returns an empty dictionary (as a
    condition over "reference mask empty" / "prediction mask empty"), the crop (what it is computed from, that both masks are
    cut with it, no padding override) and the argument order of every metric call;
  * `evaluate_matched_instance`: what the instance tuples are built from and that their order is `_evaluate_instance`'s
    parameter order, what is appended for an accepted instance, and the wiring of the returned `EvaluateInstancePair` —
into lean/Panoptica/Generated/InstanceCode.lean."""
from __future__ import annotations
import ast, os, re, sys, tempfile

REPO = os.environ.get("PANOPTICA_REPO", "/repo")
OUT = os.path.join(os.path.dirname(os.path.abspath(__file__)), "..", "..", "lean", "Panoptica", "Generated", "InstanceCode.lean")


def src(n) -> str:
    return re.sub(r"\s+", " ", ast.unparse(n)).strip()


def lean_str(s: str) -> str:
    return '"' + s.replace("\\", "\\\\").replace('"', '\\"') + '"'


def econd(node, rname, pname) -> str:
    """condition over the emptiness of the two masks"""
    t = src(node)
    if isinstance(node, ast.UnaryOp) and isinstance(node.op, ast.Not):
        inner = node.operand
        if src(inner) in (f"{rname}.any()", f"np.any({rname})"):
            return ".refEmpty"
        if src(inner) in (f"{pname}.any()", f"np.any({pname})"):
            return ".predEmpty"
        return f"(.not {econd(inner, rname, pname)})"
    if isinstance(node, ast.BoolOp):
        op = ".and" if isinstance(node.op, ast.And) else ".or"
        out = econd(node.values[0], rname, pname)
        for v in node.values[1:]:
            out = f"({op} {out} {econd(v, rname, pname)})"
        return out
    for nm, k in ((rname, ".refEmpty"), (pname, ".predEmpty")):
        if t in (f"{nm}.sum() == 0", f"np.sum({nm}) == 0", f"np.count_nonzero({nm}) == 0", f"0 == {nm}.sum()"):
            return k
    return f"(.other {lean_str(t)})"


def generate() -> str:
    tree = ast.parse(open(os.path.join(REPO, "panoptica/instance_evaluator.py")).read())
    fns = {n.name: n for n in tree.body if isinstance(n, ast.FunctionDef)}
    F = dict(masks=lean_str("missing"), guard='(.other "missing")', guardReturnsEmpty="false", crop=lean_str("missing"), cutBoth="false", metricCall=lean_str("missing"),
             tuples=lean_str("missing"), tupleOrder="false", accepted=lean_str("missing"), result="[]", dictInit=lean_str("missing"))
    fi = fns.get("_evaluate_instance")
    params = [a.arg for a in fi.args.args] if fi else []
    if fi is not None and len(params) >= 4:
        R, P, IDX, MET = params[:4]
        rname = pname = cropname = None
        for st in fi.body:
            if isinstance(st, ast.Assign) and isinstance(st.targets[0], ast.Name):
                nm, t = st.targets[0].id, src(st.value)
                if t == f"{R} == {IDX}":
                    rname = nm
                elif t == f"{P} == {IDX}":
                    pname = nm
                elif isinstance(st.value, ast.Call) and src(st.value.func) == "_get_paired_crop" and rname and pname:
                    a = [src(x) for x in st.value.args] + [f"{k.arg}={src(k.value)}" for k in st.value.keywords]
                    F["crop"] = lean_str("box of the two masks, default padding" if sorted(a) == sorted([pname, rname]) and a == [pname, rname] else
                                         ("box of the two masks (reference first), default padding" if a == [rname, pname] else "other: " + ", ".join(a)))
                    cropname = nm
            if isinstance(st, ast.If) and rname and pname and len(st.body) == 1 and isinstance(st.body[0], ast.Return) and not st.orelse:
                F["guard"] = econd(st.test, rname, pname)
                F["guardReturnsEmpty"] = "true" if src(st.body[0].value) in ("{}", "dict()") else "false"
            loopish = None
            if isinstance(st, ast.For) and src(st.iter) == MET:
                loopish = (src(st.target), st)
            else:
                dc = next((n for n in ast.walk(st) if isinstance(n, ast.DictComp) and len(n.generators) == 1 and src(n.generators[0].iter) == MET
                           and src(n.key) == src(n.generators[0].target)), None) if isinstance(st, (ast.Assign, ast.AnnAssign, ast.Return)) else None
                if dc is not None:
                    loopish = (src(dc.generators[0].target), dc)
            if loopish and rname and pname:
                m, st = loopish
                calls = [n for n in ast.walk(st) if isinstance(n, ast.Call) and src(n.func) == m]
                if len(calls) == 1:
                    a = [src(x) for x in calls[0].args] + [f"{k.arg}={src(k.value)}" for k in calls[0].keywords]
                    F["metricCall"] = lean_str("metric(reference mask, prediction mask)" if a == [rname, pname] else "other: " + ", ".join(a))
        if rname and pname:
            F["masks"] = lean_str("reference == idx, prediction == idx (the same label)")
        if cropname:
            cuts = [src(s) for s in fi.body if isinstance(s, ast.Assign)]
            F["cutBoth"] = "true" if f"{rname} = {rname}[{cropname}]" in cuts and f"{pname} = {pname}[{cropname}]" in cuts else "false"
    fe = fns.get("evaluate_matched_instance")
    if fe is not None:
        pair = fe.args.args[0].arg
        env = {}
        for st in fe.body:
            if isinstance(st, ast.Assign):
                tg = st.targets[0]
                if isinstance(tg, ast.Tuple) and isinstance(st.value, ast.Tuple) and len(tg.elts) == len(st.value.elts):
                    for a, b in zip(tg.elts, st.value.elts):
                        env[src(a)] = src(b)
                elif isinstance(tg, ast.Name):
                    env[tg.id] = src(st.value)
            if isinstance(st, ast.AnnAssign) and isinstance(st.target, ast.Name) and st.value is not None:
                env[st.target.id] = src(st.value)
        # the tuples
        for st in ast.walk(fe):
            if isinstance(st, ast.ListComp) and isinstance(st.elt, ast.Tuple) and len(st.elt.elts) == 4 and len(st.generators) == 1:
                it = env.get(src(st.generators[0].iter), src(st.generators[0].iter))
                elts = [env.get(src(e), src(e)) for e in st.elt.elts]
                tgt = src(st.generators[0].target)
                F["tuples"] = lean_str("one per label of the pair's matched_instances" if it == f"{pair}.matched_instances" else "other: " + it)
                F["tupleOrder"] = "true" if elts == [f"{pair}.reference_arr", f"{pair}.prediction_arr", tgt, "eval_metrics"] and params[:4] == ["reference_arr", "prediction_arr", "ref_idx", "eval_metrics"] else "false"
        m = re.fullmatch(r"\{(\w+): \[\] for \1 in eval_metrics\}", env.get("score_dict", ""))
        F["dictInit"] = lean_str("an empty list per evaluated metric" if m else "other: " + env.get("score_dict", "?"))
        ret = next((n for n in fe.body if isinstance(n, ast.Return) and isinstance(n.value, ast.Call) and src(n.value.func) == "EvaluateInstancePair"), None)
        if ret is not None:
            kw = sorted((k.arg, src(k.value).replace(pair, "PAIR")) for k in ret.value.keywords)
            F["result"] = "[" + ", ".join(f"({lean_str(a)}, {lean_str(b)})" for a, b in kw) + "]"
    out = ["/- GENERATED by harness/extract/instance_code.py from /repo's working tree — do not edit. -/",
           "namespace Panoptica.Generated.InstanceCode", "",
           "inductive ECond where | refEmpty | predEmpty | not (c : ECond) | and (a b : ECond) | or (a b : ECond) | other (src : String) deriving Repr",
           "def ECond.eval (rE pE : Bool) : ECond → Option Bool",
           "  | .refEmpty => some rE | .predEmpty => some pE",
           "  | .not c => (c.eval rE pE).map (!·)",
           "  | .and a b => match a.eval rE pE, b.eval rE pE with | some x, some y => some (x && y) | _, _ => none",
           "  | .or a b => match a.eval rE pE, b.eval rE pE with | some x, some y => some (x || y) | _, _ => none",
           "  | .other _ => none", "",
           f"def masks : String := {F['masks']}",
           f"def emptyGuard : ECond := {F['guard']}",
           f"def guardReturnsEmptyDict : Bool := {F['guardReturnsEmpty']}",
           f"def crop : String := {F['crop']}",
           f"def bothMasksCut : Bool := {F['cutBoth']}",
           f"def metricCall : String := {F['metricCall']}",
           f"def instanceTuples : String := {F['tuples']}",
           f"def tupleOrderIsParameterOrder : Bool := {F['tupleOrder']}",
           f"def listsInit : String := {F['dictInit']}",
           f"def resultWiring : List (String × String) := {F['result']}",
           "", "end Panoptica.Generated.InstanceCode", ""]
    return "\n".join(out)


def main():
    txt = generate()
    out = os.path.abspath(OUT)
    old = open(out).read() if os.path.exists(out) else None
    if old != txt:
        fd, tmp = tempfile.mkstemp(dir=os.path.dirname(out))
        with os.fdopen(fd, "w") as f:
            f.write(txt)
        os.replace(tmp, out)
    if "--print" in sys.argv:
        print(txt)


if __name__ == "__main__":
    main()
