"""Extractor (Python `ast`): the decision expressions and formulas the properties hinge on, located by function
and pattern (not by line number), normalised with `ast.unparse`.  Emits Lean data into
lean/Panoptica/Generated/Sites.lean: a list of (properties, site name, normalised source); plus two items with a
semantic reading (deep-embedded): the `score_beats_threshold` expression and the scenario `if/elif` chain."""
from __future__ import annotations
import ast, os, re, sys, tempfile

REPO = os.environ.get("PANOPTICA_REPO", "/repo")
OUT = os.path.join(os.path.dirname(os.path.abspath(__file__)), "..", "..", "lean", "Panoptica", "Generated", "Sites.lean")


def src(n) -> str:
    return re.sub(r"\s+", " ", ast.unparse(n)).strip()


def lean_str(s: str) -> str:
    return '"' + s.replace("\\", "\\\\").replace('"', '\\"') + '"'


class Mod:
    def __init__(self, rel):
        self.rel = rel
        self.tree = ast.parse(open(os.path.join(REPO, rel)).read())

    def func(self, name, cls=None):
        scope = self.tree
        if cls:
            scope = next((n for n in ast.walk(self.tree) if isinstance(n, ast.ClassDef) and n.name == cls), None)
            if scope is None:
                return None
        for n in ast.walk(scope):
            if isinstance(n, ast.FunctionDef) and n.name == name:
                return n
        return None


def first(nodes):
    nodes = list(nodes)
    return nodes[0] if nodes else None


def returns(fn):
    return [n for n in ast.walk(fn) if isinstance(n, ast.Return) and n.value is not None] if fn else []


def ifs(fn):
    return [n for n in ast.walk(fn) if isinstance(n, ast.If)] if fn else []


def assigns(fn, target_pred):
    out = []
    for n in ast.walk(fn) if fn else []:
        if isinstance(n, (ast.Assign, ast.AugAssign, ast.AnnAssign)):
            t = n.targets[0] if isinstance(n, ast.Assign) else n.target
            if target_pred(src(t)):
                out.append(n)
    return out


def site(props, name, node_or_nodes):
    if node_or_nodes is None or node_or_nodes == []:
        return (props, name, "MISSING")
    if isinstance(node_or_nodes, list):
        return (props, name, " ;; ".join(src(n) for n in node_or_nodes))
    return (props, name, src(node_or_nodes))


def collect():
    S = []
    M = Mod("panoptica/metrics/metrics.py")
    for cls in ("_Metric", "Metric"):
        S.append(site("C03,C02,C01,C14", f"metrics.{cls}.score_beats_threshold", first(returns(M.func("score_beats_threshold", cls)))))
    f = M.func("__call__", "_Metric")
    S.append(site("C06,C14", "metrics._Metric.__call__.selection", [n for n in ast.walk(f) if isinstance(n, ast.Assign)] if f else None))
    f = M.func("__init__", "Evaluation_List_Metric")
    S.append(site("C02,C08", "metrics.Evaluation_List_Metric.__init__", [n for n in f.body if isinstance(n, (ast.If, ast.Assign))] if f else None))

    E = Mod("panoptica/utils/edge_case_handling.py")
    f = E.func("__call__", "MetricZeroTPEdgeCaseHandling")
    chain = []
    if f:
        top = first(n for n in f.body if isinstance(n, ast.If))
        while top is not None:
            chain.append((top.test, first(returns(ast.Module(body=top.body, type_ignores=[])))))
            top = top.orelse[0] if len(top.orelse) == 1 and isinstance(top.orelse[0], ast.If) else None
    S.append(("C08,C13", "edge.MetricZeroTPEdgeCaseHandling.__call__.chain",
              " ;; ".join(f"{src(t)} => {src(r) if r is not None else '?'}" for t, r in chain) or "MISSING"))
    S.append(site("C08,C13", "edge.EdgeCaseHandler.handle_zero_tp", E.func("handle_zero_tp", "EdgeCaseHandler").body[1:] if E.func("handle_zero_tp", "EdgeCaseHandler") else None))

    I = Mod("panoptica/instance_matcher.py")
    f = I.func("_match_instances", "NaiveThresholdMatching")
    S.append(site("C03,C01,C11", "matcher.naive.loop_tests", [n.test for n in ifs(f)]))
    f = I.func("_match_instances", "MaximizeMergeMatching")
    S.append(site("C14", "matcher.merge.loop_tests", [n.test for n in ifs(f)]))
    S.append(site("C14", "matcher.merge.loop_assignments", assigns(f, lambda t: t.startswith("score_ref["))))
    f = I.func("new_combination_score", "MaximizeMergeMatching")
    S.append(site("C14", "matcher.merge.new_combination_score", f.body if f else None))
    f = I.func("map_instance_labels")
    S.append(site("C04,C09", "matcher.map_instance_labels", [n for n in f.body if not isinstance(n, ast.Expr)] if f else None))

    L = Mod("panoptica/utils/instancelabelmap.py")
    f = L.func("add_labelmap_entry", "InstanceLabelMap")
    S.append(site("C03,C14", "labelmap.add_labelmap_entry.loop", first(n for n in ast.walk(f) if isinstance(n, ast.For)) if f else None))

    F = Mod("panoptica/_functionals.py")
    f = F.func("_calc_overlapping_labels")
    S.append(site("C03,C09,C11,C01", "functionals._calc_overlapping_labels", [n for n in f.body if not isinstance(n, ast.Expr)] if f else None))
    f = F.func("_calc_matching_metric_of_overlapping_labels")
    S.append(site("C03,C09,C10,C01", "functionals.candidates.sort", [n for n in ast.walk(f) if isinstance(n, ast.Call) and src(n.func) == "sorted"] if f else None))
    f = F.func("_map_labels")
    S.append(site("C04,C09", "functionals._map_labels", [n for n in f.body if not isinstance(n, ast.Expr)] if f else None))
    f = F.func("_get_paired_crop")
    S.append(site("C09,C10,C07,C13", "functionals._get_paired_crop", [n for n in f.body if not isinstance(n, (ast.Expr, ast.Assert))] if f else None))
    f = F.func("_connected_components")
    S.append(site("C05", "functionals._connected_components.calls", [n for n in ast.walk(f) if isinstance(n, ast.Call) and src(n.func) in ("cc3d.connected_components", "label")] if f else None))

    N = Mod("panoptica/utils/numpy_utils.py")
    f = N.func("_get_bbox_nd")
    S.append(site("C10,C07", "numpy_utils._get_bbox_nd", [n for n in f.body if not isinstance(n, (ast.Expr, ast.Assert))] if f else None))
    f = N.func("_get_smallest_fitting_uint")
    S.append(site("C04,C05", "numpy_utils._get_smallest_fitting_uint", [n.test for n in ifs(f)]))

    V = Mod("panoptica/instance_evaluator.py")
    f = V.func("evaluate_matched_instance")
    S.append(site("C02,C01", "evaluator.evaluate_matched_instance.decision_loop", first(n for n in f.body if isinstance(n, ast.For)) if f else None))
    S.append(site("C02,C01", "evaluator.evaluate_matched_instance.tp", assigns(f, lambda t: t == "tp")))
    f = V.func("_evaluate_instance")
    S.append(site("C02,C07,C01", "evaluator._evaluate_instance", [n for n in f.body if not isinstance(n, ast.Expr)] if f else None))

    R = Mod("panoptica/panoptica_result.py")
    for fn in ("fp", "fn", "prec", "rec", "rq", "sq", "sq_std", "pq", "sq_dsc", "sq_dsc_std", "pq_dsc", "sq_assd", "sq_assd_std", "sq_rvd", "sq_rvd_std"):
        g = R.func(fn)
        S.append(site("C02", f"result.{fn}", [n for n in g.body if not isinstance(n, ast.Expr)] if g else None))
    f = R.func("_calc_global_bin_metric", "PanopticaResult")
    S.append(site("C13", "result._calc_global_bin_metric", [n for n in f.body if not isinstance(n, ast.Expr)] if f else None))
    f = R.func("__init__", "PanopticaResult")
    S.append(site("C13,C08", "result.__init__.list_metric_loop", first(n for n in f.body if isinstance(n, ast.For)) if f else None))
    S.append(site("C13", "result.__init__.binarisation", first(n for n in f.body if isinstance(n, ast.If) and "prediction_arr is not None" in src(n.test)) if f else None))

    P = Mod("panoptica/panoptica_evaluator.py")
    f = P.func("_evaluate_group", "Panoptica_Evaluator")
    S.append(site("C12,C15,C02,C08", "evaluator._evaluate_group", [n for n in f.body if not isinstance(n, (ast.Expr, ast.Assert))] if f else None))
    f = P.func("resulting_metric_keys", "Panoptica_Evaluator")
    S.append(site("C15,C18", "evaluator.resulting_metric_keys.return", first(returns(f))))
    f = P.func("evaluate", "Panoptica_Evaluator")
    S.append(site("C12", "evaluator.evaluate.label_checks", [n for n in ast.walk(f) if isinstance(n, ast.Call) and src(n.func).endswith("has_defined_labels_for")] if f else None))
    f = P.func("_handle_zero_instances_cases")
    S.append(site("C08,C01", "evaluator._handle_zero_instances_cases.tests", [n.test for n in ifs(f)]))

    A = Mod("panoptica/instance_approximator.py")
    f = A.func("_approximate_instances", "ConnectedComponentsInstanceApproximator")
    S.append(site("C05,C01,C15", "approximator._approximate_instances", [n for n in f.body if not isinstance(n, (ast.Expr, ast.Assert))] if f else None))
    f = A.func("approximate_instances", "InstanceApproximator")
    S.append(site("C05", "approximator.approximate_instances", [n for n in f.body if not isinstance(n, ast.Expr)] if f else None))

    G = Mod("panoptica/utils/label_group.py")
    S.append(site("C12,C15", "label_group.extract_label", G.func("extract_label", "LabelGroup").body[1:] if G.func("extract_label", "LabelGroup") else None))
    C = Mod("panoptica/utils/segmentation_class.py")
    f = C.func("has_defined_labels_for", "SegmentationClassGroups")
    S.append(site("C12", "segmentation_class.has_defined_labels_for", [n for n in f.body if not isinstance(n, ast.Expr)] if f else None))

    X = Mod("panoptica/metrics/assd.py")
    for fn in ("_average_symmetric_surface_distance", "_average_surface_distance", "__surface_distances", "_distance_transform_edt"):
        g = X.func(fn)
        S.append(site("C07", f"assd.{fn}", [n for n in g.body if not isinstance(n, ast.Expr)] if g else None))
    for rel, fn in (("panoptica/metrics/dice.py", "_compute_dice_coefficient"), ("panoptica/metrics/iou.py", "_compute_iou"),
                    ("panoptica/metrics/relative_volume_difference.py", "_compute_relative_volume_difference"),
                    ("panoptica/metrics/cldice.py", "_compute_centerline_dice_coefficient"), ("panoptica/metrics/cldice.py", "cl_score")):
        g = Mod(rel).func(fn)
        S.append(site("C06", f"metrics.{fn}", [n for n in g.body if not isinstance(n, ast.Expr)] if g else None))

    Ag = Mod("panoptica/panoptica_aggregator.py")
    f = Ag.func("__init__", "Panoptica_Aggregator")
    S.append(site("C17,C18,C15", "aggregator.__init__", [n for n in f.body if not isinstance(n, (ast.Expr, ast.Assert)) or (isinstance(n, ast.Expr) and "open(" in src(n))] if f else None))
    f = Ag.func("evaluate", "Panoptica_Aggregator")
    S.append(site("C16,C17,C18", "aggregator.evaluate", [n for n in f.body if not (isinstance(n, ast.Expr) and isinstance(n.value, ast.Constant))] if f else None))
    f = Ag.func("_save_one_subject", "Panoptica_Aggregator")
    S.append(site("C16,C18", "aggregator._save_one_subject", [n for n in f.body if not (isinstance(n, ast.Expr) and isinstance(n.value, ast.Constant))] if f else None))
    f = Ag.func("make_statistic", "Panoptica_Aggregator")
    S.append(site("C16", "aggregator.make_statistic", [n for n in f.body if not (isinstance(n, ast.Expr) and isinstance(n.value, ast.Constant))] if f else None))
    for fn in ("_read_first_row", "_load_first_column_entries", "_write_content"):
        g = Ag.func(fn)
        S.append(site("C16,C17,C18", f"aggregator.{fn}", [n for n in g.body if not (isinstance(n, ast.Expr) and isinstance(n.value, ast.Constant))] if g else None))
    S.append(site("C16", "aggregator.module_locks", [n for n in Ag.tree.body if isinstance(n, (ast.Assign, ast.ImportFrom)) and ("Lock" in src(n))]))

    St = Mod("panoptica/panoptica_statistics.py")
    f = St.func("from_file", "Panoptica_Statistic")
    S.append(site("C18,C20", "statistics.from_file", [n for n in f.body if not (isinstance(n, ast.Expr))] if f else None))
    f = St.func("__init__", "ValueSummary")
    S.append(site("C20", "statistics.ValueSummary.__init__", f.body if f else None))
    for fn in ("get", "get_one_subject", "get_across_groups", "get_summary_across_groups", "get_summary"):
        g = St.func(fn, "Panoptica_Statistic")
        S.append(site("C20", f"statistics.{fn}", [n for n in g.body if not (isinstance(n, ast.Expr) and isinstance(n.value, ast.Constant))] if g else None))

    Cf = Mod("panoptica/utils/config.py")
    for fn in ("_load_yaml", "_save_yaml", "_load_from_config", "_load_from_config_name", "_save_to_config"):
        g = Cf.func(fn)
        S.append(site("C19", f"config.{fn}", [n for n in g.body if not (isinstance(n, ast.Expr) and isinstance(n.value, ast.Constant))] if g else None))
    for fn in ("to_yaml", "from_yaml"):
        g = Cf.func(fn, "SupportsConfig")
        S.append(site("C19", f"config.SupportsConfig.{fn}", [n for n in g.body if not (isinstance(n, ast.Expr) and isinstance(n.value, ast.Constant))] if g else None))
        S.append(site("C19", f"config.{fn}.decorators", [d for d in g.decorator_list] if g else None))
    return S


def bexpr(e0, left="matching_score", right="matching_threshold", pre="self."):
    """deep embedding of boolean expressions over `<pre>increasing`, `<pre>decreasing` and `left <op> right`"""
    def conv(e):
        if isinstance(e, ast.UnaryOp) and isinstance(e.op, ast.Not):
            return f"(.not {conv(e.operand)})"
        if isinstance(e, ast.BoolOp):
            op = ".or" if isinstance(e.op, ast.Or) else ".and"
            out = conv(e.values[0])
            for v in e.values[1:]:
                out = f"({op} {out} {conv(v)})"
            return out
        if isinstance(e, ast.Attribute) and src(e) in (pre + "increasing", pre + "decreasing"):
            return ".increasing" if e.attr == "increasing" else ".decreasing"
        if isinstance(e, ast.IfExp):
            return f"(.ite {conv(e.test)} {conv(e.body)} {conv(e.orelse)})"
        if isinstance(e, ast.Compare) and len(e.ops) == 1 and src(e.left) == left and src(e.comparators[0]) == right:
            o = {ast.GtE: ".ge", ast.LtE: ".le", ast.Gt: ".gt", ast.Lt: ".lt", ast.Eq: ".eq"}.get(type(e.ops[0]))
            if o:
                return f"(.cmp {o})"
        if isinstance(e, ast.Compare) and len(e.ops) == 1 and src(e.left) == right and src(e.comparators[0]) == left:
            o = {ast.GtE: ".le", ast.LtE: ".ge", ast.Gt: ".lt", ast.Lt: ".gt", ast.Eq: ".eq"}.get(type(e.ops[0]))      # operands exchanged
            if o:
                return f"(.cmp {o})"
        return f"(.other {lean_str(src(e))})"
    return conv(e0)


class _Subst(ast.NodeTransformer):
    def __init__(self, env):
        self.env = env

    def visit_Name(self, n):
        return self.env.get(n.id, n) if isinstance(n.ctx, ast.Load) else n


def body_expr(stmts, env=None):
    """the value a straight-line function body returns, as ONE expression: locals that are assigned once are substituted,
    `if c: return a` followed by the rest becomes `a if c else <rest>`; None when the body is outside this subset"""
    import copy
    env = dict(env or {})
    stmts = [s_ for s_ in stmts if not (isinstance(s_, ast.Expr) and isinstance(s_.value, ast.Constant))]
    for k, st in enumerate(stmts):
        if isinstance(st, ast.Assign) and len(st.targets) == 1 and isinstance(st.targets[0], ast.Name):
            env[st.targets[0].id] = _Subst(env).visit(copy.deepcopy(st.value))
        elif isinstance(st, ast.Return) and st.value is not None:
            return _Subst(env).visit(copy.deepcopy(st.value))
        elif isinstance(st, ast.If):
            t = _Subst(env).visit(copy.deepcopy(st.test))
            a_ = body_expr(st.body, env)
            b_ = body_expr(st.orelse, env) if st.orelse else body_expr(stmts[k + 1:], env)
            if a_ is None or b_ is None:
                return None
            return ast.IfExp(test=t, body=a_, orelse=b_)
        else:
            return None
    return None


def beats_tree(fn):
    if fn is None:
        return ".other \"MISSING\""
    e = body_expr(fn.body)
    if e is None:
        return f"(.other {lean_str('body outside the subset: ' + src(fn)[:80])})"
    return bexpr(e)


NEUTRAL = {"pred_labels_ = labelmap.get_pred_labels_matched_to_ref(ref_label)",
           "new_score = self.new_combination_score(pred_labels_, pred_label, ref_label, unmatched_instance_pair)"}


def lcond(e):
    t = src(e)
    if isinstance(e, ast.UnaryOp) and isinstance(e.op, ast.Not):
        return f"(.not {lcond(e.operand)})"
    if isinstance(e, ast.BoolOp):
        atoms_inside = any(k in t for k in ("contains_pred", "contains_ref", "_allow_many_to_one", "score_beats_threshold"))
        if atoms_inside:
            op = ".or" if isinstance(e.op, ast.Or) else ".and"
            out = lcond(e.values[0])
            for v in e.values[1:]:
                out = f"({op} {out} {lcond(v)})"
            return out
    if t in ("labelmap.contains_pred(pred_label)", "labelmap.contains_pred(pred_label=pred_label)"):
        return ".containsPred"
    if t in ("labelmap.contains_ref(ref_label)", "labelmap.contains_ref(ref_label=ref_label)"):
        return ".containsRef"
    if t == "self._allow_many_to_one":
        return ".allowManyToOne"
    if t == "self._matching_metric.score_beats_threshold(matching_score, self._matching_threshold)":
        return ".beats"
    if "new_score" in t and "score_ref[ref_label]" in t:
        return f"(.improves {bexpr(e, 'new_score', 'score_ref[ref_label]', 'self._matching_metric.')})"
    return f"(.other {lean_str(t)})"


def lprog(stmts):
    if not stmts:
        return "LProg.nil"
    s, rest = stmts[0], stmts[1:]
    t = src(s)
    if isinstance(s, ast.Continue):
        return ".cont"
    if isinstance(s, ast.If):
        return f"(.ite {lcond(s.test)} {lprog(s.body)} {lprog(s.orelse)} {lprog(rest)})"
    if isinstance(s, ast.Expr) and isinstance(s.value, ast.Constant):
        return lprog(rest)
    if t in ("labelmap.add_labelmap_entry(pred_label, ref_label)", "labelmap.add_labelmap_entry(pred_labels=pred_label, ref_label=ref_label)"):
        return f"(.act .add {lprog(rest)})"
    if t == "score_ref[ref_label] = new_score":
        return f"(.act .setNew {lprog(rest)})"
    if t == "score_ref[ref_label] = matching_score":
        return f"(.act .setMatch {lprog(rest)})"
    if t in NEUTRAL:
        return lprog(rest)
    m1 = re.fullmatch(r"(\w+) = labelmap\.get_pred_labels_matched_to_ref\((ref_label=)?ref_label\)", t)
    if m1 and rest:
        # the list of already assigned predictions under any local name, handed on unchanged to new_combination_score
        t2 = src(rest[0])
        if re.fullmatch(rf"new_score = self\.new_combination_score\({m1.group(1)}, pred_label, ref_label, unmatched_instance_pair\)", t2):
            return lprog(rest[1:])
    return f"(.other {lean_str(t[:120])})"


def loop_body(cls):
    I = Mod("panoptica/instance_matcher.py")
    f = I.func("_match_instances", cls)
    loop = first(n for n in ast.walk(f) if isinstance(n, ast.For)) if f else None
    if loop is None:
        return '(.other "MISSING loop")'
    if src(loop.target) != "(matching_score, (ref_label, pred_label))" or src(loop.iter) != "mm_pairs":
        return f"(.other {lean_str('for ' + src(loop.target) + ' in ' + src(loop.iter))})"
    return lprog(loop.body)


def chain_cond(e):
    """conditions of the scenario chain over tp, num_pred_instances, num_ref_instances"""
    t = src(e)
    if isinstance(e, ast.UnaryOp) and isinstance(e.op, ast.Not):
        return f"(.not {chain_cond(e.operand)})"
    if isinstance(e, ast.BoolOp):
        op = ".or" if isinstance(e.op, ast.Or) else ".and"
        out = chain_cond(e.values[0])
        for v in e.values[1:]:
            out = f"({op} {out} {chain_cond(v)})"
        return out
    if isinstance(e, ast.Compare) and len(e.ops) == 1:
        l, r, op = src(e.left), src(e.comparators[0]), type(e.ops[0])
        if l in ("0", "1") and r not in ("0", "1"):
            l, r = r, l
            op = {ast.Gt: ast.Lt, ast.Lt: ast.Gt, ast.GtE: ast.LtE, ast.LtE: ast.GtE}.get(op, op)
        zero = {"tp": ".tpNonzero", "num_pred_instances": ".predZero", "num_ref_instances": ".refZero",
                "num_pred_instances + num_ref_instances": ".sumZero", "num_ref_instances + num_pred_instances": ".sumZero"}.get(l)
        if zero is not None:
            is_zero = (r == "0" and op in (ast.Eq, ast.LtE)) or (r == "1" and op is ast.Lt)
            non_zero = (r == "0" and op in (ast.NotEq, ast.Gt)) or (r == "1" and op is ast.GtE)
            if zero == ".tpNonzero":
                if non_zero:
                    return ".tpNonzero"
                if is_zero:
                    return "(.not .tpNonzero)"
            elif is_zero:
                return zero
            elif non_zero:
                return f"(.not {zero})"
    return f"(.other {lean_str(t)})"


def chain_embedding():
    E = Mod("panoptica/utils/edge_case_handling.py")
    f = E.func("__call__", "MetricZeroTPEdgeCaseHandling")
    items = []

    def result(stmts):
        r = first(returns(ast.Module(body=stmts, type_ignores=[])))
        rs = src(r.value) if r is not None else "?"
        m = re.match(r"\(True, self\._edgecase_dict\[EdgeCaseZeroTP\.(\w+)\]\.value\)$", rs)
        if m:
            return f"(.scenario {lean_str(m.group(1))})"
        if rs == "(False, EdgeCaseResult.NONE.value)":
            return ".noEdge"
        return f"(.other {lean_str(rs)})"

    def walk(stmts):
        stmts = [s_ for s_ in stmts if not (isinstance(s_, ast.Expr) and isinstance(s_.value, ast.Constant))]
        for k, st in enumerate(stmts):
            if isinstance(st, ast.If):
                if any(isinstance(n, ast.Return) for n in st.body) and all(isinstance(n, (ast.Return, ast.Expr)) for n in st.body):
                    items.append(f"({chain_cond(st.test)}, {result(st.body)})")
                else:
                    items.append(f"((.other {lean_str('if ' + src(st.test))}), (.other \"nested\"))")
                if st.orelse:
                    walk(st.orelse)          # elif / else
                    return
            elif isinstance(st, ast.Return):
                items.append(f"(.tt, {result([st])})")
                return
            elif isinstance(st, (ast.Assign, ast.AnnAssign)) and not any(isinstance(n, ast.Call) for n in ast.walk(st)):
                items.append(f"((.other {lean_str(src(st)[:60])}), (.other \"assignment\"))")
            else:
                continue
    if f:
        body = [s_ for s_ in f.body if not (isinstance(s_, ast.Expr) and isinstance(s_.value, ast.Constant))]
        # the chain may select a local (`scenario = EdgeCaseZeroTP.X` in every branch) and return once at the end: each selecting
        # branch is the return with the local substituted
        last = body[-1] if body else None
        if isinstance(last, ast.Return) and last.value is not None:
            m = re.fullmatch(r"\(True, self\._edgecase_dict\[(\w+)\]\.value\)", src(last.value))
            if m:
                var = m.group(1)

                def subst(stmts):
                    out = []
                    for st in stmts:
                        if (isinstance(st, ast.Assign) and len(st.targets) == 1 and isinstance(st.targets[0], ast.Name) and st.targets[0].id == var
                                and re.fullmatch(r"EdgeCaseZeroTP\.\w+", src(st.value))):
                            out.append(ast.parse(f"return (True, self._edgecase_dict[{src(st.value)}].value)").body[0])
                        elif isinstance(st, ast.If):
                            out.append(ast.If(test=st.test, body=subst(st.body), orelse=subst(st.orelse)))
                        else:
                            out.append(st)
                    return out
                body = subst(body[:-1])
        walk(body)
    return "[" + ", ".join(items) + "]"


def gexpr(e):
    t = src(e)
    if t == "prediction_empty":
        return ".predEmpty"
    if t == "reference_empty":
        return ".refEmpty"
    if isinstance(e, ast.Constant) and isinstance(e.value, int) and not isinstance(e.value, bool) and e.value >= 0:
        return f"(.lit {e.value})"
    if isinstance(e, ast.UnaryOp) and isinstance(e.op, ast.Not):
        return f"(.not {gexpr(e.operand)})"
    if isinstance(e, ast.BoolOp):
        op = ".or" if isinstance(e.op, ast.Or) else ".and"
        out = gexpr(e.values[0])
        for v in e.values[1:]:
            out = f"({op} {out} {gexpr(v)})"
        return out
    if isinstance(e, ast.Call) and src(e.func) == "int" and len(e.args) == 1 and not e.keywords:
        return f"(.intOf {gexpr(e.args[0])})"
    return f"(.other {lean_str(t)})"


def global_bin_call():
    R = Mod("panoptica/panoptica_result.py")
    f = R.func("_calc_global_bin_metric", "PanopticaResult")
    bad = '{ guard := .other "MISSING", tp := .other "", nPred := .other "", nRef := .other "", metricArgOk := false, returnsResultIfEdge := false }'
    if f is None:
        return bad
    for n in f.body:
        if isinstance(n, ast.If):
            calls = [c for c in ast.walk(n) if isinstance(c, ast.Call) and src(c.func).endswith("handle_zero_tp")]
            if len(calls) != 1:
                continue
            c = calls[0]
            args = list(c.args)
            kw = {k.arg: k.value for k in c.keywords}
            names = ["metric", "tp", "num_pred_instances", "num_ref_instances"]
            vals = [args[i] if i < len(args) else kw.get(names[i]) for i in range(4)]
            if any(v is None for v in vals):
                return bad
            # `is_edgecase, result = <call>` followed by `if is_edgecase: return result`
            body = n.body
            ok = (len(body) == 2 and isinstance(body[0], ast.Assign) and src(body[0].targets[0]) == "(is_edgecase, result)"
                  and isinstance(body[1], ast.If) and src(body[1].test) == "is_edgecase" and len(body[1].body) == 1
                  and src(body[1].body[0]) == "return result" and not body[1].orelse and not n.orelse)
            return ("{ guard := " + gexpr(n.test) + ", tp := " + gexpr(vals[1]) + ", nPred := " + gexpr(vals[2]) + ", nRef := " + gexpr(vals[3])
                    + ", metricArgOk := " + ("true" if src(vals[0]) == "metric" else "false") + ", returnsResultIfEdge := " + ("true" if ok else "false") + " }")
    return bad


def ncond(e):
    t = src(e)
    if isinstance(e, ast.UnaryOp) and isinstance(e.op, ast.Not):
        return f"(.not {ncond(e.operand)})"
    if isinstance(e, ast.BoolOp):
        op = ".or" if isinstance(e.op, ast.Or) else ".and"
        out = ncond(e.values[0])
        for v in e.values[1:]:
            out = f"({op} {out} {ncond(v)})"
        return out
    table = {"decision_metric is None": '(.atom "decisionNone")', "decision_metric is not None": '(.not (.atom "decisionNone"))',
             "decision_threshold is not None": '(.atom "thresholdSet")', "decision_threshold is None": '(.not (.atom "thresholdSet"))',
             "decision_metric.score_beats_threshold(metric_dict[decision_metric], decision_threshold)": '(.atom "decisionBeats")'}
    return table.get(t, f"(.other {lean_str(t)})")


class _SubstNames(ast.NodeTransformer):
    def __init__(self, env):
        self.env = env

    def visit_Name(self, n):
        import copy
        return copy.deepcopy(self.env[n.id]) if isinstance(n.ctx, ast.Load) and n.id in self.env else n


def nprog(stmts, env=None):
    """env: local names bound to a condition earlier in the loop body (substituted where they are tested)"""
    import copy
    env = env or {}
    if not stmts:
        return "NProg.nil"
    s, rest = stmts[0], stmts[1:]
    t = src(s)
    if isinstance(s, ast.Continue):
        return ".cont"
    if isinstance(s, ast.If):
        test = _SubstNames(env).visit(copy.deepcopy(s.test))
        return f"(.ite {ncond(test)} {nprog(s.body, env)} {nprog(s.orelse, env)} {nprog(rest, env)})"
    if isinstance(s, ast.Expr) and isinstance(s.value, ast.Constant):
        return nprog(rest, env)
    if isinstance(s, ast.Assign) and len(s.targets) == 1 and isinstance(s.targets[0], ast.Name) and s.targets[0].id not in ("tp",):
        val = _SubstNames(env).visit(copy.deepcopy(s.value))
        if "(.other" not in ncond(val):
            return nprog(rest, dict(env, **{s.targets[0].id: val}))
    if t in ("tp += 1", "tp = tp + 1"):
        return f'(.act "incTp" {nprog(rest, env)})'
    if t in ("for (k, v) in metric_dict.items(): score_dict[k].append(v)", "for k, v in metric_dict.items(): score_dict[k].append(v)"):
        return f'(.act "appendAll" {nprog(rest, env)})'
    return f"(.other {lean_str(t[:120])})"


def decision_loop():
    V = Mod("panoptica/instance_evaluator.py")
    f = V.func("evaluate_matched_instance")
    loop = first(n for n in (f.body if f else []) if isinstance(n, ast.For))
    if loop is None or src(loop.target) != "metric_dict" or src(loop.iter) != "metric_dicts":
        return '(.other "MISSING decision loop")'
    return nprog(loop.body)


def generate() -> str:
    S = collect()
    M = Mod("panoptica/metrics/metrics.py")
    out = ["/- GENERATED by harness/extract/key_exprs.py from /repo's working tree — do not edit. -/",
           "import Panoptica.Model.Sites", "namespace Panoptica.Generated", "open Panoptica.Sites", "",
           "def sites : List (String × String × String) := ["]
    out.append(",\n".join(f"  ({lean_str(p)}, {lean_str(n)}, {lean_str(s)})" for p, n, s in S))
    out.append("]\n")
    out.append(f"def beatsMetric : BExpr := {beats_tree(M.func('score_beats_threshold', 'Metric'))}")
    out.append(f"def beatsMetricImpl : BExpr := {beats_tree(M.func('score_beats_threshold', '_Metric'))}")
    out.append(f"def scenarioChain : List (Cond × Res) := {chain_embedding()}")
    out.append(f"def decisionLoopBody : NProg := {decision_loop()}")
    out.append(f"def globalBinCall : GCall := {global_bin_call()}")
    out.append(f"def naiveLoopBody : LProg := {loop_body('NaiveThresholdMatching')}")
    out.append(f"def mergeLoopBody : LProg := {loop_body('MaximizeMergeMatching')}")
    out.append("\nend Panoptica.Generated\n")
    return "\n".join(out)


def main():
    txt = generate()
    out = os.path.abspath(OUT)
    old = open(out).read() if os.path.exists(out) else None
    if old != txt:
        fd, tmp = tempfile.mkstemp(dir=os.path.dirname(out))
        with os.fdopen(fd, "w") as f:
            f.write(txt)
        os.replace(tmp, out)
    if "--print" in sys.argv:
        print(txt)


if __name__ == "__main__":
    main()
