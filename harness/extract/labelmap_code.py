"""Extractor (Python `ast`): the queries of `InstanceLabelMap` (utils/instancelabelmap.py) —
  * `contains_pred`, `contains_ref`, `contains_and`, `contains_or`: each as a boolean expression over the atoms
    "argument i is a key of the dictionary", "argument i is a value of the dictionary", "argument i is None";
  * `get_pred_labels_matched_to_ref`: the comprehension as (what is collected, what is compared with the argument);
  * `get_one_to_one_dictionary`: what is returned;
  * `add_labelmap_entry`: the guard that raises (as an expression over "p is a key" and "p's value differs from the reference")
    and the assignment that follows —
into lean/Panoptica/Generated/LabelMapCode.lean. Arguments are numbered by position (after `self`), so parameter names do
not matter; straight-line bodies are reduced to one expression (locals substituted, conditional expressions kept)."""
from __future__ import annotations
import ast, os, re, sys, tempfile

REPO = os.environ.get("PANOPTICA_REPO", "/repo")
OUT = os.path.join(os.path.dirname(os.path.abspath(__file__)), "..", "..", "lean", "Panoptica", "Generated", "LabelMapCode.lean")


def src(n) -> str:
    return re.sub(r"\s+", " ", ast.unparse(n)).strip()


def lean_str(s: str) -> str:
    return '"' + s.replace("\\", "\\\\").replace('"', '\\"') + '"'


DICT = ("self.labelmap",)


def q(node, params, env) -> str:
    """boolean expression over key / value membership of the positional arguments"""
    if isinstance(node, ast.Name) and node.id in env:
        return q(env[node.id], params, env)
    if isinstance(node, ast.Constant) and node.value is True:
        return ".tt"
    if isinstance(node, ast.Constant) and node.value is False:
        return ".ff"
    if isinstance(node, ast.UnaryOp) and isinstance(node.op, ast.Not):
        return f"(.not {q(node.operand, params, env)})"
    if isinstance(node, ast.BoolOp):
        op = ".and" if isinstance(node.op, ast.And) else ".or"
        out = q(node.values[0], params, env)
        for v in node.values[1:]:
            out = f"({op} {out} {q(v, params, env)})"
        return out
    if isinstance(node, ast.IfExp):
        return f"(.ite {q(node.test, params, env)} {q(node.body, params, env)} {q(node.orelse, params, env)})"
    if isinstance(node, ast.Call) and src(node.func) == "bool" and len(node.args) == 1:
        return q(node.args[0], params, env)
    if isinstance(node, ast.Compare) and len(node.ops) == 1:
        l, op, r = node.left, node.ops[0], node.comparators[0]
        if isinstance(l, ast.Name) and l.id in params:
            i = params.index(l.id)
            if isinstance(op, (ast.In, ast.NotIn)):
                t = src(r)
                atom = None
                if t in DICT or t in tuple(d + ".keys()" for d in DICT) or t in tuple(f"list({d})" for d in DICT) or t in tuple(f"set({d})" for d in DICT):
                    atom = f"(.inKeys {i})"
                elif t in tuple(d + ".values()" for d in DICT) or t in tuple(f"list({d}.values())" for d in DICT) or t in tuple(f"set({d}.values())" for d in DICT):
                    atom = f"(.inVals {i})"
                if atom:
                    return atom if isinstance(op, ast.In) else f"(.not {atom})"
            if isinstance(r, ast.Constant) and r.value is None and isinstance(op, (ast.Is, ast.IsNot, ast.Eq, ast.NotEq)):
                atom = f"(.isNone {i})"
                return atom if isinstance(op, (ast.Is, ast.Eq)) else f"(.not {atom})"
    if isinstance(node, ast.Call) and src(node.func) in ("any", "np.any") and len(node.args) == 1 and isinstance(node.args[0], (ast.GeneratorExp, ast.ListComp)):
        g = node.args[0]
        if len(g.generators) == 1 and not g.generators[0].ifs and isinstance(g.elt, ast.Compare) and len(g.elt.ops) == 1 and isinstance(g.elt.ops[0], ast.Eq):
            it, tgt = src(g.generators[0].iter), src(g.generators[0].target)
            sides = {src(g.elt.left), src(g.elt.comparators[0])}
            for nm in params:
                if sides == {tgt, nm}:
                    if it in tuple(d + ".values()" for d in DICT):
                        return f"(.inVals {params.index(nm)})"
                    if it in DICT or it in tuple(d + ".keys()" for d in DICT):
                        return f"(.inKeys {params.index(nm)})"
    return f"(.other {lean_str(src(node))})"


def body_expr(fn):
    """(env, returned expression) of a straight-line function: assignments to names, then one return; an `if c: return a` followed
    by `return b` becomes a conditional expression"""
    env = {}
    stmts = [s for s in fn.body if not (isinstance(s, ast.Expr) and isinstance(s.value, ast.Constant))]
    for k, st in enumerate(stmts):
        if isinstance(st, (ast.Assign, ast.AnnAssign)):
            tgt = st.targets[0] if isinstance(st, ast.Assign) else st.target
            if isinstance(tgt, ast.Name) and st.value is not None:
                env[tgt.id] = st.value
                continue
            return env, None
        if isinstance(st, ast.Return):
            return env, st.value
        if isinstance(st, ast.If) and len(st.body) == 1 and isinstance(st.body[0], ast.Return):
            rest_env, rest = body_expr(ast.FunctionDef(name="_", args=fn.args, body=(st.orelse or stmts[k + 1:]), decorator_list=[]))
            if rest is None:
                return env, None
            env.update(rest_env)
            return env, ast.IfExp(test=st.test, body=st.body[0].value, orelse=rest)
        return env, None
    return env, None


def generate() -> str:
    tree = ast.parse(open(os.path.join(REPO, "panoptica/utils/instancelabelmap.py")).read())
    cls = next((n for n in tree.body if isinstance(n, ast.ClassDef) and n.name == "InstanceLabelMap"), None)
    fns = {n.name: n for n in (cls.body if cls else []) if isinstance(n, ast.FunctionDef)}
    Q = {}
    for name in ("contains_pred", "contains_ref", "contains_and", "contains_or"):
        f = fns.get(name)
        if f is None:
            Q[name] = '(.other "missing")'
            continue
        params = [a.arg for a in f.args.args][1:]
        env, e = body_expr(f)
        Q[name] = q(e, params, env) if e is not None else f"(.other {lean_str('not a straight-line body')})"
    # get_pred_labels_matched_to_ref
    coll, comp_with, over = "missing", "missing", "missing"
    f = fns.get("get_pred_labels_matched_to_ref")
    if f is not None:
        params = [a.arg for a in f.args.args][1:]
        env, e = body_expr(f)
        if e is None:
            # the explicit loop: `out = []; for T in IT: if C: out.append(E); return out` is `[E for T in IT if C]`
            st = [x for x in f.body if not (isinstance(x, ast.Expr) and isinstance(x.value, ast.Constant))]
            if (len(st) == 3 and isinstance(st[0], ast.Assign) and isinstance(st[0].targets[0], ast.Name) and src(st[0].value) in ("[]", "list()")
                    and isinstance(st[1], ast.For) and not st[1].orelse and len(st[1].body) == 1 and isinstance(st[1].body[0], ast.If) and not st[1].body[0].orelse
                    and len(st[1].body[0].body) == 1 and isinstance(st[2], ast.Return) and src(st[2].value) == st[0].targets[0].id):
                ap = st[1].body[0].body[0]
                if (isinstance(ap, ast.Expr) and isinstance(ap.value, ast.Call) and src(ap.value.func) == st[0].targets[0].id + ".append" and len(ap.value.args) == 1):
                    e = ast.ListComp(elt=ap.value.args[0], generators=[ast.comprehension(target=st[1].target, iter=st[1].iter, ifs=[st[1].body[0].test], is_async=0)])
        if isinstance(e, ast.Name) and e.id in env:
            e = env[e.id]
        if isinstance(e, ast.Call) and src(e.func) == "list" and len(e.args) == 1:
            e = e.args[0]
        if isinstance(e, (ast.ListComp, ast.GeneratorExp)) and len(e.generators) == 1 and len(e.generators[0].ifs) == 1 and params:
            g = e.generators[0]
            it = src(g.iter)
            tg = g.target
            if it in tuple(d + ".items()" for d in DICT) and isinstance(tg, ast.Tuple) and len(tg.elts) == 2:
                kn, vn = src(tg.elts[0]), src(tg.elts[1])
                over = "the entries in insertion order"
                coll = "key" if src(e.elt) == kn else ("value" if src(e.elt) == vn else "other: " + src(e.elt))
                c = g.ifs[0]
                if isinstance(c, ast.Compare) and len(c.ops) == 1 and isinstance(c.ops[0], ast.Eq):
                    sides = {src(c.left), src(c.comparators[0])}
                    comp_with = "value == argument 0" if sides == {vn, params[0]} else ("key == argument 0" if sides == {kn, params[0]} else "other: " + src(c))
                else:
                    comp_with = "other: " + src(c)
            elif it in DICT and isinstance(tg, ast.Name):
                kn = tg.id
                over = "the entries in insertion order"
                coll = "key" if src(e.elt) == kn else "other: " + src(e.elt)
                c = src(g.ifs[0])
                comp_with = "value == argument 0" if c in (f"self.labelmap[{kn}] == {params[0]}", f"{params[0]} == self.labelmap[{kn}]") else "other: " + c
            else:
                over = "other: " + it
    # get_one_to_one_dictionary
    one = "missing"
    f = fns.get("get_one_to_one_dictionary")
    if f is not None:
        env, e = body_expr(f)
        t = src(e) if e is not None else "?"
        one = "the dictionary" if t in DICT + tuple(f"dict({d})" for d in DICT) + tuple(f"{d}.copy()" for d in DICT) else "other: " + t
    # add_labelmap_entry: the loop
    raise_guard, then_set, loop_over = '(.other "missing")', "missing", "missing"
    f = fns.get("add_labelmap_entry")
    if f is not None:
        params = [a.arg for a in f.args.args][1:]
        loop = next((n for n in f.body if isinstance(n, ast.For)), None)
        if loop is not None and len(params) >= 2:
            p = src(loop.target)
            # the wrapping of a single label, as a statement (`if not isinstance(x, list): x = [x]`) or as a conditional expression
            wraps = any((f"isinstance({params[0]}, list)" in src(s) or f"isinstance({params[0]}, (list" in src(s)) and f"[{params[0]}]" in src(s)
                        for s in f.body if isinstance(s, (ast.If, ast.Assign)))
            loop_over = "the prediction labels (a single label is wrapped into a list)" if src(loop.iter) == params[0] and wraps else "other: " + src(loop.iter)
            body = [s for s in loop.body]
            # `if a: if b: raise` is `if a and b: raise`
            while (len(body) == 2 and isinstance(body[0], ast.If) and not body[0].orelse and len(body[0].body) == 1 and isinstance(body[0].body[0], ast.If)
                   and not body[0].body[0].orelse):
                inner = body[0].body[0]
                body = [ast.If(test=ast.BoolOp(op=ast.And(), values=[body[0].test, inner.test]), body=inner.body, orelse=[]), body[1]]
            if len(body) == 2 and isinstance(body[0], ast.If) and len(body[0].body) == 1 and isinstance(body[0].body[0], ast.Raise) and not body[0].orelse:
                def g(node):
                    if isinstance(node, ast.BoolOp):
                        op = ".and" if isinstance(node.op, ast.And) else ".or"
                        out = g(node.values[0])
                        for v in node.values[1:]:
                            out = f"({op} {out} {g(v)})"
                        return out
                    if isinstance(node, ast.UnaryOp) and isinstance(node.op, ast.Not):
                        return f"(.not {g(node.operand)})"
                    t = src(node)
                    if t in (f"{p} in self.labelmap", f"{p} in self.labelmap.keys()"):
                        return ".isKey"
                    if t in (f"{p} not in self.labelmap", f"{p} not in self.labelmap.keys()"):
                        return "(.not .isKey)"
                    if t in (f"self.labelmap[{p}] != {params[1]}", f"{params[1]} != self.labelmap[{p}]"):
                        return ".valueDiffers"
                    if t in (f"self.labelmap[{p}] == {params[1]}", f"{params[1]} == self.labelmap[{p}]"):
                        return "(.not .valueDiffers)"
                    return f"(.other {lean_str(t)})"
                raise_guard = g(body[0].test)
                then_set = "labelmap[p] = reference label" if src(body[1]) == f"self.labelmap[{p}] = {params[1]}" else "other: " + src(body[1])
            else:
                then_set = "other: " + "; ".join(src(s) for s in body)[:200]
    out = ["/- GENERATED by harness/extract/labelmap_code.py from /repo's working tree — do not edit. -/",
           "import Panoptica.Model.LabelMapCode",
           "namespace Panoptica.Generated.LabelMapCode", "open Panoptica.LMCode", ""]
    for name in ("contains_pred", "contains_ref", "contains_and", "contains_or"):
        out.append(f"def {name} : Q := {Q[name]}")
    out += [f"def matchedToRef_over : String := {lean_str(over)}",
            f"def matchedToRef_collects : String := {lean_str(coll)}",
            f"def matchedToRef_condition : String := {lean_str(comp_with)}",
            f"def oneToOne_returns : String := {lean_str(one)}",
            f"def add_loopOver : String := {lean_str(loop_over)}",
            f"def add_raiseGuard : G := {raise_guard}",
            f"def add_thenSets : String := {lean_str(then_set)}",
            "", "end Panoptica.Generated.LabelMapCode", ""]
    return "\n".join(out)


def main():
    txt = generate()
    out = os.path.abspath(OUT)
    old = open(out).read() if os.path.exists(out) else None
    if old != txt:
        fd, tmp = tempfile.mkstemp(dir=os.path.dirname(out))
        with os.fdopen(fd, "w") as f:
            f.write(txt)
        os.replace(tmp, out)
    if "--print" in sys.argv:
        print(txt)


if __name__ == "__main__":
    main()
