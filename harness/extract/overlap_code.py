"""Extractor (Python `ast`): the integer arithmetic of `_calc_overlapping_labels` (_functionals.py) — in which unsigned
width the pair code is accumulated, the code expression, `max_ref`, which array's background is masked, the keep filter
and the two decoded components — as `Codes.IExpr` / `Codes.Cmp` terms in lean/Panoptica/Generated/Overlap.lean.
Locals are followed symbolically (a value is an expression over p = prediction voxel, r = reference voxel, M = max_ref,
mx = max(ref_labels), i = a code, together with the width it is held in: a number of bits after `.astype(np.uintN)`,
`in` for the dtype of the input arrays); the comprehension may be written as a loop.  Anything outside the subset
becomes `.other "<source>"`, on which the interpreter returns `none` and the obligation fails."""
from __future__ import annotations
import ast, os, re, sys, tempfile

REPO = os.environ.get("PANOPTICA_REPO", "/repo")
OUT = os.path.join(os.path.dirname(os.path.abspath(__file__)), "..", "..", "lean", "Panoptica", "Generated", "Overlap.lean")


def src(n) -> str:
    return re.sub(r"\s+", " ", ast.unparse(n)).strip()


def lean_str(s: str) -> str:
    return '"' + s.replace("\\", "\\\\").replace('"', '\\"') + '"'


class Val:
    """symbolic value: Lean IExpr text + width ('in' = dtype of the inputs, 'py' = Python int, or a bit count)"""
    def __init__(self, e, w):
        self.e, self.w = e, w


def join_width(a, b):
    ws = [w for w in (a, b) if w != "py"]
    if not ws:
        return "py"
    nums = [w for w in ws if isinstance(w, int)]
    return max(nums) if nums else "in"


def ev(node, env) -> Val:
    t = src(node)
    if isinstance(node, ast.Name) and node.id in env:
        return env[node.id]
    if isinstance(node, ast.Constant) and isinstance(node.value, int) and not isinstance(node.value, bool) and node.value >= 0:
        return Val(f"(.lit {node.value})", "py")
    if isinstance(node, ast.Call) and src(node.func) == "int" and len(node.args) == 1:
        v = ev(node.args[0], env)
        return Val(v.e, "py")
    if isinstance(node, ast.Call) and src(node.func) in ("max", "np.max") and len(node.args) == 1 and src(node.args[0]) == "ref_labels":
        return Val('(.var "mx")', "py")
    if isinstance(node, ast.Call) and isinstance(node.func, ast.Attribute) and node.func.attr == "astype" and len(node.args) == 1:
        v = ev(node.func.value, env)
        m = re.fullmatch(r"np\.uint(8|16|32|64)", src(node.args[0]))
        if m and not node.keywords:
            return Val(v.e, int(m.group(1)))
        return Val(f"(.other {lean_str(t)})", "in")
    if isinstance(node, ast.BinOp) and type(node.op) in (ast.Add, ast.Mult, ast.Mod, ast.FloorDiv):
        a, b = ev(node.left, env), ev(node.right, env)
        op = {ast.Add: ".add", ast.Mult: ".mul", ast.Mod: ".mod", ast.FloorDiv: ".div"}[type(node.op)]
        return Val(f"({op} {a.e} {b.e})", join_width(a.w, b.w))
    return Val(f"(.other {lean_str(t)})", "in")


def cmp(node, env) -> str:
    if isinstance(node, ast.UnaryOp) and isinstance(node.op, ast.Not):
        return f"(.not {cmp(node.operand, env)})"
    if isinstance(node, ast.Compare) and len(node.ops) == 1:
        k = {ast.Gt: ".gt", ast.GtE: ".ge", ast.Lt: ".lt", ast.LtE: ".le"}.get(type(node.ops[0]))
        if k:
            return f"({k} {ev(node.left, env).e} {ev(node.comparators[0], env).e})"
    return f"(.other {lean_str(src(node))})"


def generate() -> str:
    tree = ast.parse(open(os.path.join(REPO, "panoptica/_functionals.py")).read())
    fn = next((n for n in tree.body if isinstance(n, ast.FunctionDef) and n.name == "_calc_overlapping_labels"), None)
    facts = {"accBits": "none", "codeE": '(.other "missing")', "maxRefE": '(.other "missing")', "masked": '(.other "none")',
             "keepC": '(.other "missing")', "decFst": '(.other "missing")', "decSnd": '(.other "missing")', "uniqueOf": "false"}
    if fn is not None:
        env = {"prediction_arr": Val('(.var "p")', "in"), "reference_arr": Val('(.var "r")', "in")}
        code_var = None
        masks = []

        def elements(elt, cond_nodes, e2, negate=False):
            if isinstance(elt, ast.Tuple) and len(elt.elts) == 2:
                facts["decFst"], facts["decSnd"] = ev(elt.elts[0], e2).e, ev(elt.elts[1], e2).e
            if len(cond_nodes) == 1:
                c = cmp(cond_nodes[0], e2)
                facts["keepC"] = f"(.not {c})" if negate else c
            elif not cond_nodes:
                facts["keepC"] = '(.other "no filter")'

        def unique_source(it):
            """(array name, how the loop variable is obtained from a distinct value i) or None: `np.unique(A)` itself, or a
            generator / list / map over it that converts every value"""
            if isinstance(it, ast.Call) and src(it.func) == "np.unique" and len(it.args) == 1 and isinstance(it.args[0], ast.Name):
                return it.args[0].id, (lambda: Val('(.var "i")', "py"))
            if isinstance(it, (ast.GeneratorExp, ast.ListComp)) and len(it.generators) == 1 and not it.generators[0].ifs \
                    and isinstance(it.generators[0].target, ast.Name):
                inner = unique_source(it.generators[0].iter)
                if inner is not None:
                    nm, elt = it.generators[0].target.id, it.elt
                    return inner[0], (lambda: ev(elt, {nm: inner[1]()}))
            if isinstance(it, ast.Call) and src(it.func) == "map" and len(it.args) == 2 and src(it.args[0]) == "int":
                return unique_source(it.args[1])
            return None

        for st in fn.body:
            if isinstance(st, ast.Expr) and isinstance(st.value, ast.Constant):
                continue
            if isinstance(st, ast.Assign) and len(st.targets) == 1 and isinstance(st.targets[0], ast.Name):
                env[st.targets[0].id] = ev(st.value, env)
                continue
            # arr[side == 0] = 0
            if isinstance(st, ast.Assign) and len(st.targets) == 1 and isinstance(st.targets[0], ast.Subscript) and src(st.value) == "0":
                tg = st.targets[0]
                m = re.fullmatch(r"(\w+) == 0", src(tg.slice))
                side = {"reference_arr": ".ref", "prediction_arr": ".pred"}.get(m.group(1)) if m else None
                masks.append((src(tg.value), side or f"(.other {lean_str(src(tg.slice))})"))
                continue
            comp = None
            if isinstance(st, ast.Return) and isinstance(st.value, ast.ListComp) and len(st.value.generators) == 1:
                comp = st.value
            if comp is not None:
                g = comp.generators[0]
                us = unique_source(g.iter)
                if us and isinstance(g.target, ast.Name):
                    code_var = us[0]
                    facts["uniqueOf"] = "true"
                    e2 = dict(env)
                    e2[g.target.id] = us[1]()
                    e2_m = {k: (Val('(.var "M")', "py") if k == max_ref_name(env) else v) for k, v in e2.items()}
                    elements(comp.elt, list(g.ifs), e2_m)
                continue
            if isinstance(st, ast.For) and unique_source(st.iter) and isinstance(st.target, ast.Name):
                # the same as a loop: [x = int(i)] ; if <drop>: continue ; out.append((a, b))   or   if <keep>: out.append((a, b))
                us = unique_source(st.iter)
                code_var = us[0]
                facts["uniqueOf"] = "true"
                e2 = dict(env)
                e2[st.target.id] = us[1]()
                e2 = {k: (Val('(.var "M")', "py") if k == max_ref_name(env) else v) for k, v in e2.items()}
                conds, neg, elt = [], False, None
                for b in st.body:
                    if isinstance(b, ast.Assign) and len(b.targets) == 1 and isinstance(b.targets[0], ast.Name):
                        e2[b.targets[0].id] = ev(b.value, e2)
                    elif isinstance(b, ast.If) and len(b.body) == 1 and isinstance(b.body[0], ast.Continue) and not b.orelse:
                        conds.append(b.test)
                        neg = True
                    elif isinstance(b, ast.If) and len(b.body) == 1 and not b.orelse and "append" in src(b.body[0]):
                        conds.append(b.test)
                        elt = b.body[0].value.args[0] if isinstance(b.body[0], ast.Expr) and isinstance(b.body[0].value, ast.Call) and b.body[0].value.args else None
                    elif isinstance(b, ast.Expr) and isinstance(b.value, ast.Call) and "append" in src(b.value.func) and b.value.args:
                        elt = b.value.args[0]
                if elt is not None:
                    elements(elt, conds, e2, negate=neg)
                continue
        if code_var and code_var in env:
            v = env[code_var]
            facts["accBits"] = f"(some {v.w})" if isinstance(v.w, int) else "none"
            # the code over p, r, M: replace the max_ref sub-expression by the variable M
            mr = max_ref_name(env)
            facts["codeE"] = v.e.replace(env[mr].e, '(.var "M")') if mr else v.e
            if mr:
                facts["maxRefE"] = env[mr].e
            ms = [s for a, s in masks if a == code_var]
            facts["masked"] = ms[0] if len(ms) == 1 else f'(.other {lean_str(str(masks))})'
    out = ["/- GENERATED by harness/extract/overlap_code.py from /repo's working tree — do not edit. -/",
           "import Panoptica.Model.Codes", "namespace Panoptica.Generated.Overlap", "open Panoptica.Codes", "",
           "/-- width in which the pair code is accumulated (`none`: the dtype of the input arrays) -/",
           f"def accBits : Option Nat := {facts['accBits']}",
           f"def codeE : IExpr := {facts['codeE']}",
           f"def maxRefE : IExpr := {facts['maxRefE']}",
           f"def masked : Side := {facts['masked']}",
           f"def codesAreUnique : Bool := {facts['uniqueOf']}",
           f"def keepC : Cmp := {facts['keepC']}",
           f"def decFst : IExpr := {facts['decFst']}",
           f"def decSnd : IExpr := {facts['decSnd']}",
           "", "end Panoptica.Generated.Overlap", ""]
    return "\n".join(out)


def max_ref_name(env):
    """the local that holds max(ref_labels) + 1 (any name)"""
    for k, v in env.items():
        if '(.var "mx")' in v.e and '(.var "p")' not in v.e and '(.var "r")' not in v.e:
            return k
    return None


def main():
    txt = generate()
    out = os.path.abspath(OUT)
    old = open(out).read() if os.path.exists(out) else None
    if old != txt:
        fd, tmp = tempfile.mkstemp(dir=os.path.dirname(out))
        with os.fdopen(fd, "w") as f:
            f.write(txt)
        os.replace(tmp, out)
    if "--print" in sys.argv:
        print(txt)


if __name__ == "__main__":
    main()
