"""Extractor (Python `ast`): the phase program of `panoptic_evaluate` (panoptica_evaluator.py) — every top-level
`if isinstance(processing_pair, T):` whose body re-assigns `processing_pair`, with the action (by callee) and the wiring
of its arguments — and what happens before the first phase (crop, work on a copy), as `Phases.Phase` terms in
lean/Panoptica/Generated/Phases.lean."""
from __future__ import annotations
import ast, os, re, sys, tempfile

REPO = os.environ.get("PANOPTICA_REPO", "/repo")
OUT = os.path.join(os.path.dirname(os.path.abspath(__file__)), "..", "..", "lean", "Panoptica", "Generated", "Phases.lean")
TY = {"SemanticPair": ".semantic", "UnmatchedInstancePair": ".unmatched", "MatchedInstancePair": ".matched", "EvaluateInstancePair": ".evaluated",
      "PanopticaResult": ".result"}


def src(n) -> str:
    return re.sub(r"\s+", " ", ast.unparse(n)).strip()


def lean_str(s: str) -> str:
    return '"' + s.replace("\\", "\\\\").replace('"', '\\"') + '"'


def act_of(call: ast.Call) -> str:
    f = src(call.func)
    if f.endswith(".approximate_instances"):
        return ".approximate" if f == "instance_approximator.approximate_instances" else f"(.other {lean_str(f)})"
    if f == "_handle_zero_instances_cases":
        return ".zeroCases"
    if f.endswith(".match_instances"):
        return ".matchInstances" if f == "instance_matcher.match_instances" else f"(.other {lean_str(f)})"
    if f == "evaluate_matched_instance":
        return ".evaluate"
    if f == "PanopticaResult":
        return ".mkResult"
    return f"(.other {lean_str(f)})"


def generate() -> str:
    tree = ast.parse(open(os.path.join(REPO, "panoptica/panoptica_evaluator.py")).read())
    fn = next((n for n in tree.body if isinstance(n, ast.FunctionDef) and n.name == "panoptic_evaluate"), None)
    phases, crops_first, works_on_copy = [], "false", "false"
    if fn is not None:
        var = None
        seen_crop = False
        for st in fn.body:
            if isinstance(st, ast.Expr) and src(st.value) == "input_pair.crop_data()" and var is None:
                seen_crop = True
            if isinstance(st, (ast.Assign, ast.AnnAssign)) and var is None:
                tg = st.targets[0] if isinstance(st, ast.Assign) else st.target
                if st.value is not None and src(st.value) == "input_pair.copy()" and isinstance(tg, ast.Name):
                    var = tg.id
                    works_on_copy = "true"
                    crops_first = "true" if seen_crop else "false"
            if var and isinstance(st, ast.If):
                def phase_of(node, outer_ty=None):
                    """phases contributed by `if isinstance(var, T): ...` — its own call, then any nested phase with the SAME guard type
                    placed after it (which can only be entered through the outer one, so it is the same as a following phase)"""
                    m = re.fullmatch(rf"isinstance\({var}, (\w+)\)", src(node.test))
                    direct = [n for n in node.body if isinstance(n, ast.Assign) and len(n.targets) == 1 and src(n.targets[0]) == var]
                    nested = [n for n in node.body if isinstance(n, ast.If) and any(isinstance(x, ast.Assign) and len(x.targets) == 1 and src(x.targets[0]) == var for x in ast.walk(n))]
                    deep = [n for n in ast.walk(node) if isinstance(n, ast.Assign) and len(n.targets) == 1 and src(n.targets[0]) == var]
                    if not deep:
                        return []
                    g = TY.get(m.group(1), f"(.other {lean_str(m.group(1))})") if m else f"(.other {lean_str(src(node.test))})"
                    bad = f"{{ guard := {g}, act := (.other {lean_str('not a single top-level call')}), wiring := [] }}"
                    if outer_ty is not None and (not m or m.group(1) != outer_ty):
                        return [bad]
                    if len(direct) != 1 or not isinstance(direct[0].value, ast.Call) or node.orelse:
                        return [bad]
                    if len(deep) != 1 + sum(len([x for x in ast.walk(n) if isinstance(x, ast.Assign) and len(x.targets) == 1 and src(x.targets[0]) == var]) for n in nested):
                        return [bad]
                    if any(node.body.index(n) < node.body.index(direct[0]) for n in nested):
                        return [bad]
                    call = direct[0].value
                    wiring = [(str(i), src(a)) for i, a in enumerate(call.args)] + [(k.arg or "**", src(k.value)) for k in call.keywords]
                    wiring = [(k, v.replace(var, "PAIR")) for k, v in wiring]
                    out = [f"{{ guard := {g}, act := {act_of(call)}, wiring := [" + ", ".join(f"({lean_str(k)}, {lean_str(v)})" for k, v in sorted(wiring)) + "] }"]
                    for n in nested:
                        out += phase_of(n, m.group(1) if m else "?")
                    return out
                phases += phase_of(st)
            elif var and any(isinstance(n, ast.Assign) and len(n.targets) == 1 and src(n.targets[0]) == var for n in ast.walk(st)):
                phases.append(f"{{ guard := (.other {lean_str('unguarded')}), act := (.other {lean_str(src(st)[:60])}), wiring := [] }}")
    out = ["/- GENERATED by harness/extract/phases_code.py from /repo's working tree — do not edit. -/",
           "import Panoptica.Model.Phases", "namespace Panoptica.Generated.Phases", "open Panoptica.Phases", "",
           "/-- the phases of `panoptic_evaluate`, in source order (PAIR = the object being processed; wiring sorted by key) -/",
           "def phases : List Phase := [", "  " + ",\n  ".join(phases), "]",
           f"def cropsBeforeCopy : Bool := {crops_first}",
           f"def worksOnCopy : Bool := {works_on_copy}",
           "", "end Panoptica.Generated.Phases", ""]
    return "\n".join(out)


def main():
    txt = generate()
    out = os.path.abspath(OUT)
    old = open(out).read() if os.path.exists(out) else None
    if old != txt:
        fd, tmp = tempfile.mkstemp(dir=os.path.dirname(out))
        with os.fdopen(fd, "w") as f:
            f.write(txt)
        os.replace(tmp, out)
    if "--print" in sys.argv:
        print(txt)


if __name__ == "__main__":
    main()
