"""Extractor (Python `ast`): the integer decisions of the relabelling after matching —
  * `_get_smallest_fitting_uint` (utils/numpy_utils.py) as a chain of (condition over v, bits) with a final else,
  * in `map_instance_labels` (instance_matcher.py): the first fresh label, what an unmatched prediction is given and how the
    counter advances, and by which test a prediction counts as unmatched,
  * in `_map_labels` (_functionals.py): the length of the look-up table and the width it is built in —
as `Codes` terms in lean/Panoptica/Generated/Relabel.lean.  Locals are substituted; the chain may be written with early
returns.  Anything outside the subset becomes `.other "<source>"` (the interpreter returns `none`, the obligation fails)."""
from __future__ import annotations
import ast, os, re, sys, tempfile

REPO = os.environ.get("PANOPTICA_REPO", "/repo")
OUT = os.path.join(os.path.dirname(os.path.abspath(__file__)), "..", "..", "lean", "Panoptica", "Generated", "Relabel.lean")


def src(n) -> str:
    return re.sub(r"\s+", " ", ast.unparse(n)).strip()


def lean_str(s: str) -> str:
    return '"' + s.replace("\\", "\\\\").replace('"', '\\"') + '"'


def other(n) -> str:
    return f"(.other {lean_str(n if isinstance(n, str) else src(n))})"


def iexpr(node, atoms: dict, env: dict) -> str:
    """atoms: source text -> variable name; env: local name -> already translated expression"""
    t = src(node)
    if t in atoms:
        return f'(.var "{atoms[t]}")'
    if isinstance(node, ast.Name) and node.id in env:
        return env[node.id]
    if isinstance(node, ast.Constant) and isinstance(node.value, int) and not isinstance(node.value, bool) and node.value >= 0:
        return f"(.lit {node.value})"
    if isinstance(node, ast.Call) and src(node.func) == "int" and len(node.args) == 1:
        return iexpr(node.args[0], atoms, env)
    if isinstance(node, ast.Call) and src(node.func) in ("max", "np.max") and len(node.args) >= 2 and not node.keywords:
        out = iexpr(node.args[0], atoms, env)
        for a in node.args[1:]:
            out = f"(.max {out} {iexpr(a, atoms, env)})"
        return out
    if isinstance(node, ast.BinOp) and type(node.op) in (ast.Add, ast.Sub, ast.Mult):
        op = {ast.Add: ".add", ast.Sub: ".sub", ast.Mult: ".mul"}[type(node.op)]
        return f"({op} {iexpr(node.left, atoms, env)} {iexpr(node.right, atoms, env)})"
    if isinstance(node, ast.BinOp) and isinstance(node.op, ast.Pow) and src(node.left) == "2" and isinstance(node.right, ast.Constant):
        return f"(.lit {2 ** node.right.value})"
    return other(node)


def cmp(node, atoms, env) -> str:
    if isinstance(node, ast.UnaryOp) and isinstance(node.op, ast.Not):
        return f"(.not {cmp(node.operand, atoms, env)})"
    if isinstance(node, ast.Compare) and len(node.ops) == 1:
        k = {ast.Gt: ".gt", ast.GtE: ".ge", ast.Lt: ".lt", ast.LtE: ".le"}.get(type(node.ops[0]))
        if k:
            return f"({k} {iexpr(node.left, atoms, env)} {iexpr(node.comparators[0], atoms, env)})"
    return other(node)


def uint_bits(node):
    m = re.fullmatch(r"np\.uint(8|16|32|64)", src(node))
    return int(m.group(1)) if m else None


def fit_chain(fn):
    """[(cond, bits)], else_bits — from any arrangement of if / elif / else, assignments of np.uintN to a local and returns"""
    if fn is None:
        return None
    atoms = {fn.args.args[0].arg: "v"} if fn.args.args else {}

    def tree(stmts, env):
        """decision tree: an int leaf, ("ite", cond, then, else) or None (outside the subset)"""
        if not stmts:
            return None
        s, rest = stmts[0], stmts[1:]
        if isinstance(s, ast.Expr) and isinstance(s.value, ast.Constant):
            return tree(rest, env)
        if isinstance(s, ast.Assign) and len(s.targets) == 1 and isinstance(s.targets[0], ast.Name):
            b = uint_bits(s.value)
            if b is None and isinstance(s.value, ast.Name) and s.value.id in env:
                b = env[s.value.id]
            if b is None:
                return None
            return tree(rest, dict(env, **{s.targets[0].id: b}))
        if isinstance(s, ast.Return) and s.value is not None:
            b = uint_bits(s.value)
            if b is None and isinstance(s.value, ast.Name):
                b = env.get(s.value.id)
            return b
        if isinstance(s, ast.If):
            t, e = tree(list(s.body) + rest, env), tree(list(s.orelse) + rest, env)
            if t is None or e is None:
                return None
            return ("ite", cmp(s.test, atoms, {}), t, e)
        return None
    t = tree(list(fn.body), {})
    chain = []
    while isinstance(t, tuple):
        if not isinstance(t[2], int):
            return None           # a nested decision in a then-branch: not a chain
        chain.append((t[1], t[2]))
        t = t[3]
    return (chain, t) if isinstance(t, int) else None


def find_fn(tree, name):
    return next((n for n in ast.walk(tree) if isinstance(n, ast.FunctionDef) and n.name == name), None)


def generate() -> str:
    rd = lambda p: ast.parse(open(os.path.join(REPO, p)).read())
    nu, im, fu = rd("panoptica/utils/numpy_utils.py"), rd("panoptica/instance_matcher.py"), rd("panoptica/_functionals.py")
    facts = {}
    fc = fit_chain(find_fn(nu, "_get_smallest_fitting_uint"))
    if fc is None:
        facts["fitChain"], facts["fitElse"] = f"[({other('outside the subset')}, 0)]", "0"
    else:
        facts["fitChain"] = "[" + ", ".join(f"({c}, {b})" for c, b in fc[0]) + "]"
        facts["fitElse"] = str(fc[1])
    # ---- map_instance_labels
    facts.update(freshBase=other("missing"), freshKth=other("missing"), missedTest="(.other \"missing\")")
    fn = find_fn(im, "map_instance_labels")
    if fn is not None:
        atoms = {"max(ref_labels)": "mx", "len(ref_labels)": "nref", "len(pred_labels)": "npred", "max(pred_labels)": "pmx",
                 "processing_pair.n_reference_instance": "nref", "processing_pair.n_prediction_instance": "npred"}
        env, dict_name, counter, missed_name = {}, None, None, None
        for st in fn.body:
            if isinstance(st, ast.Assign) and len(st.targets) == 1 and isinstance(st.targets[0], ast.Name):
                nm, v = st.targets[0].id, st.value
                if src(v).endswith("get_one_to_one_dictionary()"):
                    dict_name = nm
                    continue
                # missed = [p for p in pred_labels if p not in D]   (optionally wrapped in list())
                lc = v.args[0] if isinstance(v, ast.Call) and src(v.func) == "list" and len(v.args) == 1 else v
                if isinstance(lc, ast.ListComp) and len(lc.generators) == 1 and src(lc.generators[0].iter) == "pred_labels":
                    g = lc.generators[0]
                    if len(g.ifs) == 1 and src(lc.elt) == src(g.target):
                        t = src(g.ifs[0])
                        x = src(g.target)
                        if dict_name and t in (f"{x} not in {dict_name}", f"{x} not in {dict_name}.keys()", f"not {x} in {dict_name}"):
                            facts["missedTest"] = ".notInKeys"
                        elif dict_name and t == f"{x} not in {dict_name}.values()":
                            facts["missedTest"] = ".notInValues"
                        else:
                            facts["missedTest"] = other(t)
                        missed_name = nm
                    continue
                e = iexpr(v, atoms, env)
                if "(.other" not in e:
                    env[nm] = e
                continue
            # the k-th unmatched prediction (k = 0, 1, ...) is given ... as an expression over b = the counter before the loop and k
            B, K = '(.var "b")', '(.var "k")'
            if isinstance(st, ast.For) and missed_name and src(st.iter) == missed_name and isinstance(st.target, ast.Name):
                # for p in missed:  D[p] = <given(counter)> ; counter += s      (either order)
                given_node, step, counter, assign_first = None, None, None, None
                for b_ in st.body:
                    if isinstance(b_, ast.Assign) and isinstance(b_.targets[0], ast.Subscript) and src(b_.targets[0].value) == dict_name \
                            and src(b_.targets[0].slice) == st.target.id:
                        given_node = b_.value
                        if assign_first is None:
                            assign_first = True
                    elif isinstance(b_, ast.AugAssign) and isinstance(b_.target, ast.Name) and isinstance(b_.op, ast.Add) and b_.target.id in env \
                            and isinstance(b_.value, ast.Constant) and isinstance(b_.value.value, int):
                        counter, step = b_.target.id, b_.value.value
                        if assign_first is None:
                            assign_first = False
                    elif isinstance(b_, ast.Assign) and isinstance(b_.targets[0], ast.Name) and b_.targets[0].id in env \
                            and re.fullmatch(rf"{b_.targets[0].id} \+ (\d+)|(\d+) \+ {b_.targets[0].id}", src(b_.value)):
                        counter = b_.targets[0].id
                        step = int(re.findall(r"\d+", src(b_.value).replace(counter, ""))[0])
                        if assign_first is None:
                            assign_first = False
                    else:
                        given_node = None
                        break
                if counter and given_node is not None and step is not None:
                    facts["freshBase"] = env[counter]
                    ck = f"(.add {B} (.mul {K} (.lit {step})))" if assign_first else f"(.add (.add {B} (.mul {K} (.lit {step}))) (.lit {step}))"
                    facts["freshKth"] = iexpr(given_node, atoms, dict(env, **{counter: ck}))
            elif isinstance(st, ast.For) and missed_name and isinstance(st.iter, ast.Call) and src(st.iter.func) == "enumerate" and st.iter.args \
                    and src(st.iter.args[0]) == missed_name and isinstance(st.target, ast.Tuple) and len(st.target.elts) == 2:
                # for off, p in enumerate(missed[, start]):  D[p] = <given(counter, off)>      (counter unchanged)
                off, pv = src(st.target.elts[0]), src(st.target.elts[1])
                start = 0
                if len(st.iter.args) == 2 and isinstance(st.iter.args[1], ast.Constant):
                    start = st.iter.args[1].value
                for kw in st.iter.keywords:
                    if kw.arg == "start" and isinstance(kw.value, ast.Constant):
                        start = kw.value.value
                if len(st.body) == 1 and isinstance(st.body[0], ast.Assign) and isinstance(st.body[0].targets[0], ast.Subscript) \
                        and src(st.body[0].targets[0].value) == dict_name and src(st.body[0].targets[0].slice) == pv:
                    used = [n.id for n in ast.walk(st.body[0].value) if isinstance(n, ast.Name) and n.id in env]
                    if len(set(used)) == 1:
                        counter = used[0]
                        facts["freshBase"] = env[counter]
                        kk = K if start == 0 else f"(.add {K} (.lit {start}))"
                        facts["freshKth"] = iexpr(st.body[0].value, atoms, dict(env, **{counter: B, off: kk}))
    # ---- _map_labels
    facts.update(tableLen=other("missing"), tableFitArg=other("missing"), tablePromotesInput="false", tableIndexMax=other("missing"))
    fn = find_fn(fu, "_map_labels")
    if fn is not None:
        a0 = fn.args.args[0].arg if fn.args.args else "arr"
        d0 = fn.args.args[1].arg if len(fn.args.args) > 1 else "label_map"
        atoms = {f"{a0}.max()": "amax", f"np.max({a0})": "amax", f"max({d0}.keys())": "kmax", f"max({d0})": "kmax", f"max({d0}.values())": "vmax"}
        env = {}
        dtype_name = None
        for st in fn.body:
            if isinstance(st, ast.Assign) and len(st.targets) == 1 and isinstance(st.targets[0], ast.Name):
                nm, v = st.targets[0].id, st.value
                if isinstance(v, ast.Call) and src(v.func) == "np.promote_types" and len(v.args) == 2:
                    sides = [src(x) for x in v.args]
                    other_side = [x for x in v.args if src(x) != f"{a0}.dtype"]
                    facts["tablePromotesInput"] = "true" if f"{a0}.dtype" in sides and len(other_side) == 1 else "false"
                    if len(other_side) == 1 and isinstance(other_side[0], ast.Call) and src(other_side[0].func) == "_get_smallest_fitting_uint" and len(other_side[0].args) == 1:
                        facts["tableFitArg"] = iexpr(other_side[0].args[0], atoms, env)
                    dtype_name = nm
                    continue
                if isinstance(v, ast.Call) and src(v.func) == "np.arange" and len(v.args) == 1:
                    kw = {k.arg: src(k.value) for k in v.keywords}
                    if dtype_name and kw.get("dtype") == dtype_name:
                        facts["tableLen"] = iexpr(v.args[0], atoms, env)
                    else:
                        facts["tableLen"] = other(v)
                    continue
                e = iexpr(v, atoms, env)
                if "(.other" not in e:
                    env[nm] = e
    out = ["/- GENERATED by harness/extract/relabel_code.py from /repo's working tree — do not edit. -/",
           "import Panoptica.Model.Codes", "namespace Panoptica.Generated.Relabel", "open Panoptica.Codes", "",
           "/-- how `map_instance_labels` decides that a prediction is unmatched -/",
           "inductive MissedTest where | notInKeys | notInValues | other (src : String) deriving Repr, DecidableEq", "",
           "/-- `_get_smallest_fitting_uint(v)`: (condition, bits) in order, then the else branch -/",
           f"def fitChain : List (Cmp × Nat) := {facts['fitChain']}",
           f"def fitElse : Nat := {facts['fitElse']}",
           "/-- first fresh label (over mx = max(ref_labels), nref, npred, pmx) -/",
           f"def freshBase : IExpr := {facts['freshBase']}",
           "/-- label given to the k-th unmatched prediction (k = 0, 1, …), over b = the first fresh label and k -/",
           f"def freshKth : IExpr := {facts['freshKth']}",
           f"def missedTest : MissedTest := {facts['missedTest']}",
           "/-- `_map_labels`: table length, argument of the fitting-dtype call (over amax, kmax, vmax), and whether the table dtype is promoted with the array's -/",
           f"def tableLen : IExpr := {facts['tableLen']}",
           f"def tableFitArg : IExpr := {facts['tableFitArg']}",
           f"def tablePromotesInput : Bool := {facts['tablePromotesInput']}",
           "", "end Panoptica.Generated.Relabel", ""]
    return "\n".join(out)


def main():
    txt = generate()
    out = os.path.abspath(OUT)
    old = open(out).read() if os.path.exists(out) else None
    if old != txt:
        fd, tmp = tempfile.mkstemp(dir=os.path.dirname(out))
        with os.fdopen(fd, "w") as f:
            f.write(txt)
        os.replace(tmp, out)
    if "--print" in sys.argv:
        print(txt)


if __name__ == "__main__":
    main()
