"""Extractor (Python `ast`): the decisions of panoptica_statistics.py —
  * the classification of one cell in `Panoptica_Statistic.from_file` (innermost loop) as a decision tree over what the
    cell holds, with leaves keep / missing,
  * the four fields of `ValueSummary` (function applied, to what, with which further arguments),
  * the filter of `get(..., remove_nones=True)`, what `get_summary` summarises and what `get_summary_across_groups`
    collects per group —
into lean/Panoptica/Generated/StatsCode.lean."""
from __future__ import annotations
import ast, copy, os, re, sys, tempfile

REPO = os.environ.get("PANOPTICA_REPO", "/repo")
OUT = os.path.join(os.path.dirname(os.path.abspath(__file__)), "..", "..", "lean", "Panoptica", "Generated", "StatsCode.lean")


def src(n) -> str:
    return re.sub(r"\s+", " ", ast.unparse(n)).strip()


def lean_str(s: str) -> str:
    return '"' + s.replace("\\", "\\\\").replace('"', '\\"') + '"'


def fcond(node, cell, fl) -> str:
    """cell: name of the raw cell text; fl: names holding float(cell)"""
    t = src(node)
    if isinstance(node, ast.UnaryOp) and isinstance(node.op, ast.Not):
        return f"(.not {fcond(node.operand, cell, fl)})"
    if isinstance(node, ast.BoolOp):
        op = ".and" if isinstance(node.op, ast.And) else ".or"
        out = fcond(node.values[-1], cell, fl)
        for v in reversed(node.values[:-1]):
            out = f"({op} {fcond(v, cell, fl)} {out})"
        return out
    if t in (f"len({cell}) > 0", f"len({cell}) != 0", f"{cell} != ''", f'{cell} != ""', cell) and cell not in fl:
        return ".nonEmpty"
    for v in fl:
        if t in (f"np.isnan({v})", f"math.isnan({v})"):
            return ".isNan"
        if t in (f"np.isinf({v})", f"math.isinf({v})"):
            return ".isInf"
        if t in (f"np.isfinite({v})", f"math.isfinite({v})"):
            return ".isFinite"
        if t in (f"{v} < np.inf", f"{v} < math.inf", f"{v} < float('inf')", f"np.inf > {v}"):
            return ".ltInf"
        if t in (f"{v} > -np.inf", f"{v} > -math.inf", f"{v} > float('-inf')", f"-np.inf < {v}"):
            return ".gtNegInf"
        if t == f"{v} is None":
            return ".isNone"
        if t == f"{v} is not None":
            return "(.not .isNone)"
    return f"(.other {lean_str(t)})"


def cell_tree(stmts, cell, fl, sink, held=None) -> str:
    """statements of the innermost loop body that decide what is appended for this cell.  `held`: locals that hold what will be
    appended later (name -> leaf), so `entry = None ... entry = float(v) ... append(entry)` reads like appending in the branches"""
    stmts = list(stmts)
    held = dict(held or {})
    if not stmts:
        return f'(.leaf (.other "nothing appended"))'
    s, rest = stmts[0], stmts[1:]

    def leaf_of(a):
        if src(a) == "None":
            return "(.leaf .missing)"
        if isinstance(a, ast.Name) and a.id in held:
            return held[a.id]
        inner = a.args[0] if isinstance(a, ast.Call) and src(a.func) == "float" and len(a.args) == 1 else a
        if src(inner) in fl or (isinstance(inner, ast.Call) and src(inner.func) == "float" and src(inner.args[0]) == cell):
            return "(.leaf .keep)"
        return None
    appended_names = {src(n.args[0]) for st in [s] + rest for n in ast.walk(st)
                      if isinstance(n, ast.Call) and src(n.func).endswith(".append") and len(n.args) == 1 and isinstance(n.args[0], ast.Name)}
    if isinstance(s, ast.Assign) and len(s.targets) == 1 and isinstance(s.targets[0], ast.Name):
        v, nm = s.value, s.targets[0].id
        if isinstance(v, ast.Call) and src(v.func) == "float" and len(v.args) == 1 and src(v.args[0]) in ({cell} | set(fl)) and nm not in appended_names - {cell} - set(fl):
            return cell_tree(rest, cell, fl | {nm}, sink, held)
        if nm in appended_names:
            lf = leaf_of(v)
            if lf is not None:
                return cell_tree(rest, cell, fl, sink, dict(held, **{nm: lf}))
            return f"(.leaf (.other {lean_str(src(s))}))"
        if not any(isinstance(n, ast.Name) and n.id in ({cell} | set(fl)) for n in ast.walk(v)):
            return cell_tree(rest, cell, fl, sink, held)           # bookkeeping that does not look at the cell
        return f"(.leaf (.other {lean_str(src(s))}))"
    if isinstance(s, ast.If):
        touches = any(isinstance(n, ast.Call) and src(n.func).endswith(".append") for n in ast.walk(s)) or \
            any(isinstance(n, ast.Assign) and isinstance(n.targets[0], ast.Name) and n.targets[0].id in appended_names for n in ast.walk(s))
        if not touches:
            return cell_tree(rest, cell, fl, sink, held)           # e.g. creating the group's dictionary
        return f"(.ite {fcond(s.test, cell, fl)} {cell_tree(list(s.body) + rest, cell, fl, sink, held)} {cell_tree(list(s.orelse) + rest, cell, fl, sink, held)})"
    if isinstance(s, ast.Expr) and isinstance(s.value, ast.Call) and src(s.value.func).endswith(".append") and len(s.value.args) == 1:
        lf = leaf_of(s.value.args[0])
        return lf if lf is not None else f"(.leaf (.other {lean_str(src(s.value.args[0]))}))"
    return cell_tree(rest, cell, fl, sink, held)


def generate() -> str:
    tree = ast.parse(open(os.path.join(REPO, "panoptica/panoptica_statistics.py")).read())
    cls = {n.name: n for n in tree.body if isinstance(n, ast.ClassDef)}
    F = dict(cellTree='(.leaf (.other "missing"))', fields="[]", getFilter=lean_str("missing"), summaryOf=lean_str("missing"), across=lean_str("missing"))
    st = cls.get("Panoptica_Statistic")
    meth = {m.name: m for m in st.body if isinstance(m, ast.FunctionDef)} if st else {}
    ff = meth.get("from_file")
    if ff is not None:
        # innermost `for idx, value in enumerate(r[1:])`
        loops = [n for n in ast.walk(ff) if isinstance(n, ast.For) and isinstance(n.iter, ast.Call) and src(n.iter.func) == "enumerate"
                 and isinstance(n.target, ast.Tuple) and len(n.target.elts) == 2]
        if loops:
            lp = loops[-1]
            F["cellTree"] = cell_tree(lp.body, src(lp.target.elts[1]), frozenset(), None)
    vs = cls.get("ValueSummary")
    if vs is not None:
        init = next((m for m in vs.body if isinstance(m, ast.FunctionDef) and m.name == "__init__"), None)
        if init is not None and len(init.args.args) >= 2:
            lst = init.args.args[1].arg
            fields = []
            local_vals = {}
            for s in init.body:
                if isinstance(s, ast.Assign) and len(s.targets) == 1 and isinstance(s.targets[0], ast.Name) and s.targets[0].id != lst:
                    local_vals[s.targets[0].id] = s.value          # a local that holds a field's value until it is stored
                    continue
                if isinstance(s, ast.Assign) and len(s.targets) == 1 and src(s.targets[0]).startswith("self."):
                    name = re.sub(r"^self\._?\w*?__", "", src(s.targets[0]))
                    v = s.value
                    if isinstance(v, ast.Name) and v.id in local_vals:
                        v = local_vals[v.id]
                        s = ast.Assign(targets=s.targets, value=v)
                    if isinstance(v, ast.Call) and src(v.func) == "float" and len(v.args) == 1:
                        v = v.args[0]
                    if isinstance(v, ast.Call) and v.args and src(v.args[0]) == lst:
                        extra = [src(a) for a in v.args[1:]] + [f"{k.arg}={src(k.value)}" for k in v.keywords]
                        fields.append(f"({lean_str(name)}, {lean_str(src(v.func))}, [{', '.join(lean_str(x) for x in extra)}])")
                    elif src(v) == lst:
                        fields.append(f"({lean_str(name)}, \"identity\", [])")
                    else:
                        fields.append(f"({lean_str(name)}, {lean_str('other: ' + src(s.value))}, [])")
            F["fields"] = "[" + ", ".join(fields) + "]"
    g = meth.get("get")
    if g is not None:
        rets = [n for n in ast.walk(g) if isinstance(n, ast.Return) and n.value is not None]
        filt = [r for r in rets if isinstance(r.value, ast.ListComp)]
        if len(filt) == 1 and len(filt[0].value.generators) == 1:
            c = filt[0].value
            x = src(c.generators[0].target)
            ok = src(c.elt) == x and [src(i) for i in c.generators[0].ifs] in ([f"{x} is not None"], [f"not {x} is None"])
            F["getFilter"] = lean_str("not None" if ok else "other: " + src(c))
    gs = meth.get("get_summary")
    if gs is not None:
        body = [s for s in gs.body if not (isinstance(s, ast.Expr) and isinstance(s.value, ast.Constant))]
        t = "; ".join(src(s) for s in body)
        m1 = re.fullmatch(r"(\w+) = self\.get\((\w+), (\w+), remove_nones=True\); return ValueSummary\(\1\)", t)
        m2 = re.fullmatch(r"return ValueSummary\(self\.get\((\w+), (\w+), remove_nones=True\)\)", t)
        a = [x.arg for x in gs.args.args[1:3]]
        if (m1 and [m1.group(2), m1.group(3)] == a) or (m2 and [m2.group(1), m2.group(2)] == a):
            F["summaryOf"] = lean_str("the recorded values without None")
        else:
            F["summaryOf"] = lean_str("other: " + t)
    ag = meth.get("get_summary_across_groups")
    if ag is not None:
        comps = [n for n in ast.walk(ag) if isinstance(n, ast.ListComp)]
        calls = [n for n in ast.walk(ag) if isinstance(n, ast.Call) and src(n.func) == "ValueSummary"]
        ok = False
        if len(comps) == 1 and len(comps[0].generators) == 1 and len(calls) == 1:
            c = comps[0]
            gname = src(c.generators[0].target)
            loops = [n for n in ast.walk(ag) if isinstance(n, ast.For)]
            mname = src(loops[0].target) if loops else "?"
            ok = src(c.elt) == f"self.get_summary({gname}, {mname}).avg" and re.fullmatch(r"self\._?\w*?__groupnames", src(c.generators[0].iter)) is not None \
                and not c.generators[0].ifs and re.fullmatch(r"self\._?\w*?__metricnames", src(loops[0].iter)) is not None
        F["across"] = lean_str("per metric: the averages of get_summary over all groups" if ok else "other: " + "; ".join(src(c) for c in comps))
    out = ["/- GENERATED by harness/extract/stats_code.py from /repo's working tree — do not edit. -/",
           "import Panoptica.Model.StatsCode", "namespace Panoptica.Generated.StatsCode", "open Panoptica.StatsCode", "",
           f"def cellTree : CellTree := {F['cellTree']}",
           "/-- ValueSummary: (field, function applied to the value list, further arguments) -/",
           f"def summaryFields : List (String × String × List String) := {F['fields']}",
           f"def getFilter : String := {F['getFilter']}",
           f"def summaryOf : String := {F['summaryOf']}",
           f"def acrossGroups : String := {F['across']}",
           "", "end Panoptica.Generated.StatsCode", ""]
    return "\n".join(out)


def main():
    txt = generate()
    out = os.path.abspath(OUT)
    old = open(out).read() if os.path.exists(out) else None
    if old != txt:
        fd, tmp = tempfile.mkstemp(dir=os.path.dirname(out))
        with os.fdopen(fd, "w") as f:
            f.write(txt)
        os.replace(tmp, out)
    if "--print" in sys.argv:
        print(txt)


if __name__ == "__main__":
    main()
