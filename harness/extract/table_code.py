"""Extractor (Python `ast`): the layout of the results table on both sides —
  * `Panoptica_Aggregator.__init__` (panoptica_aggregator.py): the header (first cell, nesting order of the two
    comprehension loops, how a column name is composed),
  * `_save_one_subject`: the row (first cell, nesting order of the two loops and what they run over, that the metric
    dictionary is taken afresh from each group's own result, what a cell is when the metric is absent),
  * `Panoptica_Statistic.from_file` (panoptica_statistics.py): how a column name is split, that column `idx` of a row is
    filed under the idx-th column name, and what the first column is —
into lean/Panoptica/Generated/TableCode.lean."""
from __future__ import annotations
import ast, os, re, sys, tempfile

REPO = os.environ.get("PANOPTICA_REPO", "/repo")
OUT = os.path.join(os.path.dirname(os.path.abspath(__file__)), "..", "..", "lean", "Panoptica", "Generated", "TableCode.lean")


def src(n) -> str:
    return re.sub(r"\s+", " ", ast.unparse(n)).strip()


def lean_str(s: str) -> str:
    return '"' + s.replace("\\", "\\\\").replace('"', '\\"') + '"'


def attr(t: str) -> str:
    return re.sub(r"^self\._?\w*?__", "self.", t)


def generate() -> str:
    ag = ast.parse(open(os.path.join(REPO, "panoptica/panoptica_aggregator.py")).read())
    stt = ast.parse(open(os.path.join(REPO, "panoptica/panoptica_statistics.py")).read())
    F = dict(hdrFirst=lean_str("missing"), hdrOuter=lean_str("missing"), hdrInner=lean_str("missing"), hdrCell="[]",
             rowFirst=lean_str("missing"), rowOuter=lean_str("missing"), rowInner=lean_str("missing"), rowDict=lean_str("missing"), rowCell=lean_str("missing"),
             rowWritten=lean_str("missing"), split=lean_str("missing"), filedUnder=lean_str("missing"), subjectFrom=lean_str("missing"), firstCol=lean_str("missing"))
    cls = next((n for n in ag.body if isinstance(n, ast.ClassDef) and n.name == "Panoptica_Aggregator"), None)
    meth = {m.name: m for m in cls.body if isinstance(m, ast.FunctionDef)} if cls else {}
    init = meth.get("__init__")
    if init is not None:
        for st in ast.walk(init):
            if isinstance(st, ast.Assign) and src(st.targets[0]) == "header" and isinstance(st.value, ast.BinOp) and isinstance(st.value.op, ast.Add):
                l, r = st.value.left, st.value.right
                if isinstance(l, ast.List) and len(l.elts) == 1 and isinstance(l.elts[0], ast.Constant):
                    F["hdrFirst"] = lean_str(str(l.elts[0].value))
                if isinstance(r, ast.ListComp) and len(r.generators) == 2 and not r.generators[0].ifs and not r.generators[1].ifs:
                    g0, g1 = r.generators
                    F["hdrOuter"], F["hdrInner"] = lean_str(attr(src(g0.iter))), lean_str(attr(src(g1.iter)))
                    if isinstance(r.elt, ast.JoinedStr):
                        parts = []
                        for v in r.elt.values:
                            if isinstance(v, ast.Constant):
                                parts.append("lit:" + str(v.value))
                            elif isinstance(v, ast.FormattedValue) and v.conversion == -1 and v.format_spec is None:
                                nm = src(v.value)
                                parts.append("outer" if nm == src(g0.target) else "inner" if nm == src(g1.target) else "other:" + nm)
                            else:
                                parts.append("other:" + src(v))
                        F["hdrCell"] = "[" + ", ".join(lean_str(p) for p in parts) + "]"
    if init is not None and F["hdrOuter"] == lean_str("missing"):
        # the same header built with nested loops:  header = [first] ; for g in A: for m in B: header.append(f"{g}-{m}")
        body = list(init.body)
        for idx, st in enumerate(body):
            if isinstance(st, ast.Assign) and src(st.targets[0]) == "header" and isinstance(st.value, ast.List) and len(st.value.elts) == 1 \
                    and isinstance(st.value.elts[0], ast.Constant) and idx + 1 < len(body) and isinstance(body[idx + 1], ast.For):
                o = body[idx + 1]
                if len(o.body) == 1 and isinstance(o.body[0], ast.For) and not o.orelse:
                    i_ = o.body[0]
                    if len(i_.body) == 1 and isinstance(i_.body[0], ast.Expr) and isinstance(i_.body[0].value, ast.Call) \
                            and src(i_.body[0].value.func) == "header.append" and len(i_.body[0].value.args) == 1:
                        elt = i_.body[0].value.args[0]
                        F["hdrFirst"] = lean_str(str(st.value.elts[0].value))
                        F["hdrOuter"], F["hdrInner"] = lean_str(attr(src(o.iter))), lean_str(attr(src(i_.iter)))
                        if isinstance(elt, ast.JoinedStr):
                            parts = []
                            for v in elt.values:
                                if isinstance(v, ast.Constant):
                                    parts.append("lit:" + str(v.value))
                                elif isinstance(v, ast.FormattedValue) and v.conversion == -1 and v.format_spec is None:
                                    nm = src(v.value)
                                    parts.append("outer" if nm == src(o.target) else "inner" if nm == src(i_.target) else "other:" + nm)
                                else:
                                    parts.append("other:" + src(v))
                            F["hdrCell"] = "[" + ", ".join(lean_str(p_) for p_ in parts) + "]"
    sv = meth.get("_save_one_subject")
    if sv is not None:
        subj = sv.args.args[1].arg
        resg = sv.args.args[2].arg if len(sv.args.args) > 2 else "result_grouped"
        body = sv.body
        while len([s for s in body if not (isinstance(s, ast.Expr) and isinstance(s.value, ast.Constant))]) == 1 and isinstance(body[-1], ast.With):
            body = body[-1].body
        content = None
        for st in body:
            if isinstance(st, ast.Assign) and isinstance(st.value, ast.List) and len(st.value.elts) == 1 and isinstance(st.targets[0], ast.Name):
                content = st.targets[0].id
                F["rowFirst"] = lean_str("the subject name" if src(st.value.elts[0]) == subj else "other: " + src(st.value.elts[0]))
            if isinstance(st, ast.For) and content:
                gname = src(st.target)
                F["rowOuter"] = lean_str(attr(src(st.iter)))
                env, dict_var, dict_src = {}, None, None
                for b in st.body:
                    if isinstance(b, (ast.Assign, ast.AnnAssign)):
                        tg = b.targets[0] if isinstance(b, ast.Assign) else b.target
                        if isinstance(tg, ast.Name) and b.value is not None:
                            env[tg.id] = src(b.value)
                            if src(b.value).endswith(".to_dict()"):
                                dict_var = tg.id
                                owner = src(b.value)[:-len(".to_dict()")]
                                dict_src = env.get(owner, owner)
                    if isinstance(b, ast.For) and dict_var:
                        F["rowInner"] = lean_str(attr(src(b.iter)))
                        e = src(b.target)
                        cell = None
                        loc = {}
                        for c in b.body:
                            if isinstance(c, ast.Assign) and isinstance(c.targets[0], ast.Name):
                                loc[c.targets[0].id] = src(c.value)
                            if isinstance(c, ast.Expr) and isinstance(c.value, ast.Call) and src(c.value.func) == f"{content}.append" and len(c.value.args) == 1:
                                cell = loc.get(src(c.value.args[0]), src(c.value.args[0]))
                            if isinstance(c, ast.If) and len(c.body) == 1 and len(c.orelse) == 1:
                                # if <test>: content.append(A) else: content.append(B)   ==   content.append(A if <test> else B)
                                ab = [x.value.args[0] for x in (c.body[0], c.orelse[0]) if isinstance(x, ast.Expr) and isinstance(x.value, ast.Call)
                                      and src(x.value.func) == f"{content}.append" and len(x.value.args) == 1]
                                if len(ab) == 2:
                                    cell = f"{src(ab[0])} if {src(c.test)} else {src(ab[1])}"
                        ok = cell in (f"{dict_var}[{e}] if {e} in {dict_var} else ''", f"{dict_var}.get({e}, '')", f"'' if {e} not in {dict_var} else {dict_var}[{e}]")
                        F["rowCell"] = lean_str("the group's value of the metric, or the empty string" if ok else "other: " + str(cell))
                if dict_var:
                    ok = dict_src == f"{resg}[{gname}][0]"
                    F["rowDict"] = lean_str("a fresh to_dict() of this group's own result, taken inside the group loop" if ok else "other: " + str(dict_src))
                else:
                    F["rowDict"] = lean_str("other: no dictionary is taken inside the group loop")
            if isinstance(st, ast.Expr) and isinstance(st.value, ast.Call) and src(st.value.func) == "_write_content" and content:
                a = [src(x) for x in st.value.args]
                F["rowWritten"] = lean_str("one row to the output file" if len(a) == 2 and attr(a[0]) == "self.output_file" and a[1] == f"[{content}]" else "other: " + ", ".join(a))
    scl = next((n for n in stt.body if isinstance(n, ast.ClassDef) and n.name == "Panoptica_Statistic"), None)
    ff = next((m for m in scl.body if isinstance(m, ast.FunctionDef) and m.name == "from_file"), None) if scl else None
    if ff is not None:
        keys = None
        for st in ast.walk(ff):
            if isinstance(st, ast.Assign) and isinstance(st.targets[0], ast.Name):
                t = src(st.value)
                m = re.fullmatch(r"(?:list\()?\[tuple\((\w+)\.rsplit\('-', 1\)\) for \1 in header\[1:\]\]\)?", t)
                if m:
                    keys = st.targets[0].id
                    F["split"] = lean_str("at the last '-' of every column name after the first")
            if isinstance(st, ast.Assert) and src(st.test) == "header[0] == 'subject_name'":
                F["firstCol"] = lean_str("subject_name")
        for lp in [n for n in ast.walk(ff) if isinstance(n, ast.For)]:
            if isinstance(lp.iter, ast.Call) and src(lp.iter.func) == "enumerate" and isinstance(lp.target, ast.Tuple):
                idx = src(lp.target.elts[0])
                row = re.fullmatch(r"enumerate\((\w+)\[1:\]\)", src(lp.iter))
                first = lp.body[0] if lp.body else None
                if keys and row and isinstance(first, ast.Assign) and src(first.value) == f"{keys}[{idx}]" and isinstance(first.targets[0], ast.Tuple):
                    F["filedUnder"] = lean_str("column idx of the row (after the first) under the idx-th column name: (group, metric)")
                    # subject from the same row's first cell
                    outer = next((o for o in ast.walk(ff) if isinstance(o, ast.For) and lp in o.body), None)
                    if outer is not None and src(outer.target) == row.group(1):
                        sn = next((s for s in outer.body if isinstance(s, ast.Assign) and src(s.value) == f"{row.group(1)}[0]"), None)
                        F["subjectFrom"] = lean_str("first cell of the row" if sn is not None else "other")
    out = ["/- GENERATED by harness/extract/table_code.py from /repo's working tree — do not edit. -/",
           "namespace Panoptica.Generated.TableCode", "",
           f"def headerFirst : String := {F['hdrFirst']}",
           f"def headerOuter : String := {F['hdrOuter']}",
           f"def headerInner : String := {F['hdrInner']}",
           f"def headerCell : List String := {F['hdrCell']}",
           f"def rowFirst : String := {F['rowFirst']}",
           f"def rowOuter : String := {F['rowOuter']}",
           f"def rowInner : String := {F['rowInner']}",
           f"def rowDict : String := {F['rowDict']}",
           f"def rowCell : String := {F['rowCell']}",
           f"def rowWritten : String := {F['rowWritten']}",
           f"def loaderSplit : String := {F['split']}",
           f"def loaderFirstColumn : String := {F['firstCol']}",
           f"def loaderFiledUnder : String := {F['filedUnder']}",
           f"def loaderSubject : String := {F['subjectFrom']}",
           "", "end Panoptica.Generated.TableCode", ""]
    return "\n".join(out)


def main():
    txt = generate()
    out = os.path.abspath(OUT)
    old = open(out).read() if os.path.exists(out) else None
    if old != txt:
        fd, tmp = tempfile.mkstemp(dir=os.path.dirname(out))
        with os.fdopen(fd, "w") as f:
            f.write(txt)
        os.replace(tmp, out)
    if "--print" in sys.argv:
        print(txt)


if __name__ == "__main__":
    main()
