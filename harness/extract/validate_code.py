"""Extractor (Python `ast`): input validation of the processing pairs (utils/processing_pair.py) —
  * `_check_array_integrity`: the asserted conditions, each as a boolean expression over the atoms "prediction is an ndarray",
    "reference is an ndarray", "shapes equal", "dtypes equal", "prediction dtype is a sub-dtype of the expected one", the same for
    the reference, "an expected dtype was given" (asserts and `if not c: raise` forms; an `if dtype is not None:` block guards
    its asserts);
  * which expected dtype each pair class hands on (`SemanticPair`: signed or unsigned integers; the instance pairs: unsigned
    integers), resolved through the module-level aliases;
  * that `_ProcessingPair.__init__` validates before it stores anything —
into lean/Panoptica/Generated/ValidateCode.lean."""
from __future__ import annotations
import ast, os, re, sys, tempfile

REPO = os.environ.get("PANOPTICA_REPO", "/repo")
OUT = os.path.join(os.path.dirname(os.path.abspath(__file__)), "..", "..", "lean", "Panoptica", "Generated", "ValidateCode.lean")


def src(n) -> str:
    return re.sub(r"\s+", " ", ast.unparse(n)).strip()


def lean_str(s: str) -> str:
    return '"' + s.replace("\\", "\\\\").replace('"', '\\"') + '"'


def vexpr(node, P, R, D) -> str:
    if isinstance(node, ast.BoolOp):
        op = ".and" if isinstance(node.op, ast.And) else ".or"
        out = vexpr(node.values[0], P, R, D)
        for v in node.values[1:]:
            out = f"({op} {out} {vexpr(v, P, R, D)})"
        return out
    if isinstance(node, ast.UnaryOp) and isinstance(node.op, ast.Not):
        return f"(.not {vexpr(node.operand, P, R, D)})"
    t = src(node)
    table = {f"isinstance({P}, np.ndarray)": ".predIsArray", f"isinstance({R}, np.ndarray)": ".refIsArray",
             f"{P}.shape == {R}.shape": ".shapesEqual", f"{R}.shape == {P}.shape": ".shapesEqual",
             f"{P}.dtype == {R}.dtype": ".dtypesEqual", f"{R}.dtype == {P}.dtype": ".dtypesEqual",
             f"np.issubdtype({P}.dtype, {D})": ".predSub", f"np.issubdtype({R}.dtype, {D})": ".refSub",
             f"{D} is not None": ".dtypeGiven", f"{D} is None": "(.not .dtypeGiven)",
             f"{P}.shape != {R}.shape": "(.not .shapesEqual)", f"{P}.dtype != {R}.dtype": "(.not .dtypesEqual)"}
    if t in table:
        return table[t]
    return f"(.other {lean_str(t)})"


def requirements(stmts, P, R, D, guard=None):
    """list of conditions that must hold for the function to return normally"""
    out = []
    for k, st in enumerate(stmts):
        if isinstance(st, ast.Expr) and isinstance(st.value, ast.Constant):
            continue
        if isinstance(st, ast.If) and not st.orelse and len(st.body) == 1 and isinstance(st.body[0], ast.Return) and st.body[0].value is None:
            # `if c: return` — what follows is required only when c does not hold
            g = f"(.not {vexpr(st.test, P, R, D)})"
            out += requirements(stmts[k + 1:], P, R, D, guard=g if guard is None else f"(.and {guard} {g})")
            return out
        if isinstance(st, ast.Assert):
            c = vexpr(st.test, P, R, D)
        elif isinstance(st, ast.If) and len(st.body) == 1 and isinstance(st.body[0], ast.Raise) and not st.orelse:
            c = f"(.not {vexpr(st.test, P, R, D)})"
        elif isinstance(st, ast.If) and not st.orelse:
            out += requirements(st.body, P, R, D, guard=vexpr(st.test, P, R, D) if guard is None else f"(.and {guard} {vexpr(st.test, P, R, D)})")
            continue
        else:
            c = f"(.other {lean_str(src(st)[:120])})"
        out.append(c if guard is None else f"(.or (.not {guard}) {c})")
    return out


def generate() -> str:
    tree = ast.parse(open(os.path.join(REPO, "panoptica/utils/processing_pair.py")).read())
    aliases = {}
    for n in tree.body:
        tgt = n.targets[0] if isinstance(n, ast.Assign) else (n.target if isinstance(n, ast.AnnAssign) else None)
        if isinstance(tgt, ast.Name) and getattr(n, "value", None) is not None:
            aliases[tgt.id] = src(n.value)
    fn = next((n for n in tree.body if isinstance(n, ast.FunctionDef) and n.name == "_check_array_integrity"), None)
    reqs = ['(.other "missing")']
    if fn is not None and len(fn.args.args) >= 3:
        P, R, D = (a.arg for a in fn.args.args[:3])
        reqs = requirements(fn.body, P, R, D)
    classes = {n.name: n for n in tree.body if isinstance(n, ast.ClassDef)}

    def kind(t):
        t = aliases.get(t, t)
        return {"np.integer": ".anyInteger", "np.unsignedinteger": ".unsignedInteger", "np.signedinteger": ".signedInteger", "None": ".noCheck"}.get(t, f"(.other {lean_str(t)})")

    def handed_on(cname, seen=()):
        """the expected dtype the class's constructor passes up to `_ProcessingPair.__init__` (positionally third or as `dtype=`)"""
        c = classes.get(cname)
        if c is None or cname in seen:
            return '(.other "missing")'
        init = next((n for n in c.body if isinstance(n, ast.FunctionDef) and n.name == "__init__"), None)
        base = src(c.bases[0]) if c.bases else None
        if init is None:
            return handed_on(base, seen + (cname,)) if base else '(.other "no constructor")'
        params = [a.arg for a in init.args.args][1:]
        call = next((n for n in ast.walk(init) if isinstance(n, ast.Call) and src(n.func) == "super().__init__"), None)
        if call is None:
            return '(.other "no super().__init__")'
        kw = {k.arg: k.value for k in call.keywords}
        arg = kw.get("dtype") or (call.args[2] if len(call.args) > 2 else None)
        if arg is None:
            return '(.other "dtype not handed on")'
        if isinstance(arg, ast.Name) and arg.id in params:
            # the class merely forwards its own parameter: look at what its subclasses / itself are given
            return f"(.param {params.index(arg.id)})"
        return kind(src(arg))
    dts = {}
    for cname in ("SemanticPair", "UnmatchedInstancePair", "MatchedInstancePair"):
        v = handed_on(cname)
        if v.startswith("(.param") and cname in classes:
            # resolved one level up: the value this class gives its base at that position
            c = classes[cname]
            init = next((n for n in c.body if isinstance(n, ast.FunctionDef) and n.name == "__init__"), None)
            v = '(.other "forwarded parameter")'
        dts[cname] = v
    # instance pairs: their base `_ProcessingPairInstanced` forwards `dtype`; the value comes from the subclass call
    for cname in ("UnmatchedInstancePair", "MatchedInstancePair"):
        c = classes.get(cname)
        init = next((n for n in c.body if isinstance(n, ast.FunctionDef) and n.name == "__init__"), None) if c else None
        call = next((n for n in ast.walk(init) if isinstance(n, ast.Call) and src(n.func) == "super().__init__"), None) if init else None
        base = classes.get(src(c.bases[0])) if c and c.bases else None
        binit = next((n for n in base.body if isinstance(n, ast.FunctionDef) and n.name == "__init__"), None) if base else None
        if call is not None and binit is not None:
            bparams = [a.arg for a in binit.args.args][1:]
            fwd = handed_on(src(c.bases[0]))
            m = re.fullmatch(r"\(\.param (\d+)\)", fwd)
            if m:
                k = int(m.group(1))
                kw = {kk.arg: kk.value for kk in call.keywords}
                arg = kw.get(bparams[k]) or (call.args[k] if len(call.args) > k else None)
                dts[cname] = kind(src(arg)) if arg is not None else '(.other "dtype not given to the base class")'
            else:
                dts[cname] = fwd
    # validation before any attribute is stored
    base = classes.get("_ProcessingPair")
    init = next((n for n in base.body if isinstance(n, ast.FunctionDef) and n.name == "__init__"), None) if base else None
    first = "missing"
    if init is not None:
        body = [s for s in init.body if not (isinstance(s, ast.Expr) and isinstance(s.value, ast.Constant))]
        params = [a.arg for a in init.args.args][1:]
        if body and isinstance(body[0], ast.Expr) and isinstance(body[0].value, ast.Call) and src(body[0].value.func) == "_check_array_integrity":
            call = body[0].value
            a = [src(x) for x in call.args] + [f"{k.arg}={src(k.value)}" for k in call.keywords]
            first = "validates (prediction, reference, expected dtype) first" if a in ([params[0], params[1], f"dtype={params[2]}"], params[:3]) else "other: " + ", ".join(a)
        else:
            first = "other: " + (src(body[0])[:100] if body else "empty")
    out = ["/- GENERATED by harness/extract/validate_code.py from /repo's working tree — do not edit. -/",
           "import Panoptica.Model.ValidateCode",
           "namespace Panoptica.Generated.ValidateCode", "open Panoptica.VCode", "",
           "def requirements : List V := [" + ", ".join(reqs) + "]",
           f"def semanticExpects : D := {dts['SemanticPair']}",
           f"def unmatchedExpects : D := {dts['UnmatchedInstancePair']}",
           f"def matchedExpects : D := {dts['MatchedInstancePair']}",
           f"def constructorStartsWith : String := {lean_str(first)}",
           "", "end Panoptica.Generated.ValidateCode", ""]
    return "\n".join(out)


def main():
    txt = generate()
    out = os.path.abspath(OUT)
    old = open(out).read() if os.path.exists(out) else None
    if old != txt:
        fd, tmp = tempfile.mkstemp(dir=os.path.dirname(out))
        with os.fdopen(fd, "w") as f:
            f.write(txt)
        os.replace(tmp, out)
    if "--print" in sys.argv:
        print(txt)


if __name__ == "__main__":
    main()
