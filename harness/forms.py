"""Other *forms* of the same logical input: aliasing, views of one buffer, read-only arrays, ndarray subclasses,
singleton axes; and other *process states* in which the library may be called (strict numpy error state, warnings as
errors, a child interpreter with assertions disabled).  A result must not depend on any of these."""
from __future__ import annotations
import contextlib, json, os, subprocess, sys, warnings
import numpy as np


class _Sub(np.ndarray):
    """a plain ndarray subclass (what a user's thin wrapper type looks like to the library)"""
    pass


def pair_forms(pred: np.ndarray, ref: np.ndarray, rng=None, which=None):
    """yields (name, pred', ref') with the same logical content as (pred, ref)"""
    forms = which or ["channels_last", "even_odd", "readonly", "subclass", "window"]
    for f in forms:
        if f == "channels_last" and pred.dtype == ref.dtype:
            buf = np.zeros(pred.shape + (2,), pred.dtype)
            buf[..., 0], buf[..., 1] = pred, ref
            yield f, buf[..., 0], buf[..., 1]
        elif f == "even_odd" and pred.dtype == ref.dtype:
            buf = np.zeros((2 * pred.shape[0],) + pred.shape[1:], pred.dtype)
            buf[0::2], buf[1::2] = pred, ref
            yield f, buf[0::2], buf[1::2]
        elif f == "window" and pred.dtype == ref.dtype and pred.ndim >= 1:
            # two overlapping memory ranges of one allocation holding different content: pred first, ref directly behind it
            n = pred.shape[0]
            buf = np.zeros((2 * n,) + pred.shape[1:], pred.dtype)
            buf[:n], buf[n:] = pred, ref
            yield f, buf[:n], buf[n:]
        elif f == "readonly":
            p, r = pred.copy(), ref.copy()
            p.flags.writeable = False
            r.flags.writeable = False
            yield f, p, r
        elif f == "subclass":
            yield f, pred.copy().view(_Sub), ref.copy().view(_Sub)


def same_object(a: np.ndarray):
    """the same array object passed for both roles"""
    return a, a


@contextlib.contextmanager
def strict_state():
    """numpy raises on every floating-point anomaly and every warning is an error"""
    with warnings.catch_warnings():
        warnings.simplefilter("error")
        with np.errstate(all="raise"):
            yield


C_LOCALE = {"LC_ALL": "C", "LANG": "C", "PYTHONUTF8": "0", "PYTHONCOERCECLOCALE": "0"}


def run_child(tasks: list, optimize: bool = True, timeout: int = 600, extra_env: dict | None = None):
    """run harness/child.py in a fresh interpreter (with -O when `optimize`); returns the list of results"""
    here = os.path.dirname(os.path.abspath(__file__))
    env = dict(os.environ)
    env["PYTHONPATH"] = os.environ.get("PANOPTICA_REPO", "/repo") + os.pathsep + here
    env["PANOPTICA_CITATION_REMINDER"] = "false"
    env.pop("PYTHONOPTIMIZE", None)
    env.pop("PYTHONIOENCODING", None)
    env.update(extra_env or {})
    cmd = [sys.executable] + (["-O"] if optimize else []) + [os.path.join(here, "child.py")]
    try:
        p = subprocess.run(cmd, input=json.dumps(tasks), capture_output=True, text=True, env=env, timeout=timeout, encoding="utf-8")
    except subprocess.TimeoutExpired:
        return {"error": "timeout"}
    if p.returncode != 0:
        return {"error": p.stderr[-800:]}
    return json.loads(p.stdout.strip().splitlines()[-1])
