"""Seeded, structure-directed generators of label maps (objects, not i.i.d. noise)."""
from __future__ import annotations
import itertools, random
import numpy as np


def rand_shape(rng: random.Random, ndim=None, lo=2, hi=8):
    ndim = ndim or rng.choice([1, 2, 2, 3])
    if ndim == 1:
        return (rng.randint(max(lo, 4), hi * 2),)
    if ndim == 2:
        return (rng.randint(lo, hi), rng.randint(lo, hi))
    return (rng.randint(lo, max(lo, hi - 2)), rng.randint(lo, max(lo, hi - 2)), rng.randint(lo, max(lo, hi - 2)))


def box_slices(rng, shape, max_len=4):
    sl = []
    for n in shape:
        ln = rng.randint(1, min(max_len, n))
        st = rng.randint(0, n - ln)
        sl.append(slice(st, st + ln))
    return tuple(sl)


def put_object(rng, arr, label, kind=None):
    """draw one object with `label` into arr (may overwrite)"""
    shape = arr.shape
    kind = kind or rng.choice(["box", "box", "voxel", "line", "diag", "L", "border", "ring"])
    if kind == "voxel":
        idx = tuple(rng.randrange(n) for n in shape)
        arr[idx] = label
    elif kind == "box":
        arr[box_slices(rng, shape)] = label
    elif kind == "line":
        ax = rng.randrange(len(shape))
        idx = [rng.randrange(n) for n in shape]
        ln = rng.randint(1, shape[ax])
        st = rng.randint(0, shape[ax] - ln)
        idx[ax] = slice(st, st + ln)
        arr[tuple(idx)] = label
    elif kind == "diag":
        n = min(shape)
        ln = rng.randint(1, n)
        st = [rng.randint(0, s - ln) for s in shape]
        for k in range(ln):
            arr[tuple(s + k for s in st)] = label
    elif kind == "L":
        arr[box_slices(rng, shape, 3)] = label
        arr[box_slices(rng, shape, 3)] = label
    elif kind == "ring":
        sl = box_slices(rng, shape, 6)
        arr[sl] = label
        inner = tuple(slice(s.start + 1, s.stop - 1) for s in sl)
        if all(i.stop > i.start for i in inner):
            arr[inner] = 0
    elif kind == "border":
        ax = rng.randrange(len(shape))
        idx = [slice(None)] * len(shape)
        sl = list(box_slices(rng, shape))
        sl[ax] = slice(0, 1) if rng.random() < 0.5 else slice(shape[ax] - 1, shape[ax])
        arr[tuple(sl)] = label


def instance_map(rng, shape, n_obj, labels=None, dtype=np.uint8):
    arr = np.zeros(shape, dtype=dtype)
    labels = labels or list(range(1, n_obj + 1))
    for l in labels[:n_obj]:
        put_object(rng, arr, l)
    return arr


def perturb(rng, ref, dtype=None, relabel=True):
    """prediction derived from a reference: shifted / split / merged / dropped / extra instances"""
    pred = np.zeros_like(ref)
    labs = [int(l) for l in np.unique(ref) if l != 0]
    nxt = 1
    for l in labs:
        mask = ref == l
        mode = rng.choice(["same", "shift", "shift", "split", "drop", "shrink", "grow"])
        if mode == "drop":
            continue
        if mode in ("shift", "grow"):
            ax = rng.randrange(ref.ndim)
            sh = rng.choice([-2, -1, 1, 2])
            m2 = np.roll(mask, sh, axis=ax)
            # no wrap-around
            idx = [slice(None)] * ref.ndim
            idx[ax] = slice(0, sh) if sh > 0 else slice(sh, None)
            m2[tuple(idx)] = False
            mask = (mask | m2) if mode == "grow" else m2
        if mode == "shrink":
            ax = rng.randrange(ref.ndim)
            coords = np.argwhere(mask)
            if len(coords) > 1:
                cut = coords[:, ax].max()
                m2 = mask.copy()
                idx = [slice(None)] * ref.ndim
                idx[ax] = cut
                m2[tuple(idx)] = False
                if m2.any():
                    mask = m2
        if mode == "split":
            ax = rng.randrange(ref.ndim)
            coords = np.argwhere(mask)
            lo, hi = coords[:, ax].min(), coords[:, ax].max()
            if hi > lo:
                cut = rng.randint(lo + 1, hi)
                idx = [slice(None)] * ref.ndim
                idx[ax] = slice(cut, None)
                m2 = np.zeros_like(mask)
                m2[tuple(idx)] = mask[tuple(idx)]
                pred[mask & ~m2 & (pred == 0)] = nxt
                nxt += 1
                pred[m2 & (pred == 0)] = nxt
                nxt += 1
                continue
        pred[mask & (pred == 0)] = nxt
        nxt += 1
    if rng.random() < 0.4:
        tmp = np.zeros_like(ref)
        put_object(rng, tmp, 1)
        pred[(tmp == 1) & (pred == 0)] = nxt
        nxt += 1
    if rng.random() < 0.25 and nxt > 2:
        # merge two predictions into one label
        a, b = rng.sample(range(1, nxt), 2)
        pred[pred == b] = a
    if relabel:
        labs = [int(l) for l in np.unique(pred) if l != 0]
        perm = labs[:]
        rng.shuffle(perm)
        lut = dict(zip(labs, perm))
        out = np.zeros_like(pred)
        for a, b in lut.items():
            out[pred == a] = b
        pred = out
    return pred


def pair(rng, ndim=None, hi=8, max_obj=4, dtype=np.uint8, allow_empty=True):
    shape = rand_shape(rng, ndim, hi=hi)
    n = rng.randint(0 if allow_empty else 1, max_obj)
    ref = instance_map(rng, shape, n, dtype=dtype)
    r = rng.random()
    if r < 0.7:
        pred = perturb(rng, ref)
    elif r < 0.9:
        pred = instance_map(rng, shape, rng.randint(0 if allow_empty else 1, max_obj), dtype=dtype)
    else:
        pred = ref.copy()
    return pred.astype(dtype), ref.astype(dtype)


def matched_pair(rng, **kw):
    """a pair whose equal labels denote matched instances, plus unmatched extras on both sides"""
    pred, ref = pair(rng, **kw)
    return pred, ref


def all_small_arrays(shape, values=(0, 1, 2)):
    n = int(np.prod(shape))
    for t in itertools.product(values, repeat=n):
        yield np.array(t, dtype=np.uint8).reshape(shape)


def arr_json(a: np.ndarray):
    return [int(x) for x in np.ascontiguousarray(a).ravel()]


def set_order_labels(rng, k=None, hi=48, deceptive=None):
    """k distinct labels whose order after `list(set(...))` is NOT ascending (CPython iterates small-int sets in
    hash-table order); `deceptive`: first and last element of that order are exactly k-1 apart although the set is
    not a contiguous range (code that takes element 0 / -1 for min / max sees a fake contiguous block)"""
    for _ in range(4000):
        kk = k or rng.randint(3, 4)
        S = rng.sample(range(1, hi), kk)
        ls = list(set(S))
        if ls == sorted(ls):
            continue
        dec = abs(ls[-1] - ls[0]) + 1 == len(ls) and sorted(ls) != list(range(min(ls), max(ls) + 1))
        if deceptive is None or dec == deceptive:
            return S, ls
    return None


def complementary_scene(rng, bits, ndim=2):
    """a scene in a narrow unsigned dtype with a block pair and an *outlying* overlap voxel (further than the crop
    padding from everything else) whose prediction and reference labels add up to 2^bits (sometimes 2^bits +- 1)"""
    dt = {8: np.uint8, 16: np.uint16}[bits]
    top = 2 ** bits
    shape = tuple(rng.randint(14, 22) for _ in range(ndim))
    pred, ref = np.zeros(shape, dt), np.zeros(shape, dt)
    blk = tuple(slice(2, 7) for _ in range(ndim))
    blk2 = (slice(3, 8),) + tuple(slice(2, 7) for _ in range(ndim - 1))
    a = rng.randint(1, top - 1)
    delta = rng.choice([0, 0, 0, 1, -1])
    pa, ra = a, top - a + delta
    if not (0 < ra < top) or ra == 3 or pa in (5, 6):
        return None
    ref[blk] = 3
    pred[blk2] = 5
    pos = tuple(n - 2 - rng.randint(0, 1) for n in shape)
    pred[pos], ref[pos] = pa, ra
    if rng.random() < 0.5:
        pos2 = (pos[0] - 1,) + pos[1:]
        pred[pos2], ref[pos2] = pa, ra
    return pred, ref


def shared_value_scene(rng, dtype=np.uint16):
    """unmatched-instance scene in which prediction label values also occur as reference label values, crosswise: two
    references, three predictions — one prediction clearly matches each reference, the third overlaps weakly or not
    at all and stays unmatched, and it carries the label value of a reference (so an unmatched prediction that kept
    its own label would merge with a matched one); one prediction reaches far beyond its reference's bounding box"""
    H, W = rng.randint(8, 11), rng.randint(16, 22)
    ref = np.zeros((H, W), dtype)
    pred = np.zeros((H, W), dtype)
    vals = rng.sample([1, 2, 3, 7], 3)
    rA, rB = vals[0], vals[1]
    if rng.random() < 0.5:
        pA, pB, pC = rB, vals[2], rA        # the unmatched prediction carries the label of the reference that pA is matched to
    else:
        pA, pB, pC = vals[2], rA, rB        # ... or of the reference that pB is matched to; pB carries the other reference's value
    ref[1:5, 1:5] = rA
    pred[1:5, 1:4] = pA                      # IoU 12/16
    ref[1:4, 8:11] = rB
    pred[1:4, 8:10] = pB                     # IoU 6/9
    pred[1:4, 10:10 + rng.choice([1, 1, 8])] = pB     # sometimes reaching far beyond the reference's box: IoU drops below 1/2
    y = rng.randint(6, H - 2)
    pred[y:y + 2, 2:5] = pC                  # overlaps nothing: unmatched
    if len({pA, pB, pC}) < 3:
        return None
    return pred, ref


def missed_large_reference_scenes():
    """unmatched instance maps in which every prediction is matched (so no fresh label is needed) and a *missed* reference carries the
    largest label anywhere, at or beyond 2^8 / 2^16: whatever width the relabelled prediction gets, the reference must come out unchanged"""
    out = []
    for dt, big in ((np.uint16, 256), (np.uint16, 300), (np.uint32, 65536), (np.uint32, 70000), (np.uint64, 2 ** 24)):
        ref = np.zeros((2, 14), dt)
        pred = np.zeros((2, 14), dt)
        ref[0, 0:4] = 2
        pred[0, 0:4] = 7               # matched exactly
        ref[1, 6:10] = 44
        pred[1, 6:9] = 9               # matched (IoU 3/4)
        ref[0, 10:13] = big            # missed, the largest label anywhere
        out.append((pred, ref))
    return out
