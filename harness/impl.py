"""In-process access to the real panoptica code in /repo (serial stand-in for multiprocessing.Pool,
prints silenced)."""
from __future__ import annotations
import os, sys, io, contextlib, warnings
os.environ["PANOPTICA_CITATION_REMINDER"] = "false"
os.environ.setdefault("BRAINLESION_PANOPTICA_VERIF", "1")
REPO = os.environ.get("PANOPTICA_REPO", "/repo")
if REPO not in sys.path:
    sys.path.insert(0, REPO)
warnings.filterwarnings("ignore")
import numpy as np

_devnull = open(os.devnull, "w")


@contextlib.contextmanager
def quiet():
    with contextlib.redirect_stdout(_devnull):
        yield


with quiet():
    import panoptica
    from panoptica import (Panoptica_Evaluator, Panoptica_Aggregator, Panoptica_Statistic, InputType,
                           NaiveThresholdMatching, ConnectedComponentsInstanceApproximator, CCABackend)
    from panoptica.instance_matcher import MaximizeMergeMatching, map_instance_labels
    from panoptica.metrics import Metric, MetricMode
    from panoptica.utils.edge_case_handling import (EdgeCaseHandler, EdgeCaseResult, EdgeCaseZeroTP,
                                                    MetricZeroTPEdgeCaseHandling)
    from panoptica.utils.processing_pair import (MatchedInstancePair, UnmatchedInstancePair, SemanticPair)
    from panoptica.utils.segmentation_class import SegmentationClassGroups
    from panoptica.utils.label_group import LabelGroup, LabelMergeGroup
    from panoptica.panoptica_result import PanopticaResult
    import panoptica._functionals as F
    import panoptica.instance_evaluator as IE
    import panoptica.instance_matcher as IM

assert os.path.realpath(panoptica.__file__).startswith(os.path.realpath(REPO)), panoptica.__file__


class SerialPool:
    """`Pool()` stand-in: `starmap f xs = [f(*x) for x in xs]` (the modelled semantics)."""

    def __init__(self, processes=None, *a, **k):
        # multiprocessing.Pool refuses a pool without workers
        if processes is not None and processes < 1:
            raise ValueError("Number of processes must be at least 1")

    def __enter__(self):
        return self

    def __exit__(self, *a):
        return False

    def starmap(self, f, args, chunksize=None):
        return [f(*a) for a in args]

    # the rest of multiprocessing.Pool's interface, with the semantics its documentation gives: ordered variants deliver in
    # submission order; `imap_unordered` promises no order, and the stand-in takes the schedule in which the last task
    # finishes first (a legal one: code whose result depends on it depends on worker timing)
    def map(self, f, args, chunksize=None):
        return [f(a) for a in args]

    def imap(self, f, args, chunksize=1):
        return iter([f(a) for a in args])

    def imap_unordered(self, f, args, chunksize=1):
        return iter([f(a) for a in args][::-1])

    def apply(self, f, args=(), kwds=None):
        return f(*args, **(kwds or {}))

    class _Res:
        def __init__(self, v):
            self.v = v

        def get(self, timeout=None):
            return self.v

        def wait(self, timeout=None):
            pass

        def ready(self):
            return True

        def successful(self):
            return True

    def apply_async(self, f, args=(), kwds=None, callback=None, error_callback=None):
        r = f(*args, **(kwds or {}))
        if callback:
            callback(r)
        return SerialPool._Res(r)

    def map_async(self, f, args, chunksize=None, callback=None, error_callback=None):
        r = [f(a) for a in args]
        if callback:
            callback(r)
        return SerialPool._Res(r)

    def starmap_async(self, f, args, chunksize=None, callback=None, error_callback=None):
        r = [f(*a) for a in args]
        if callback:
            callback(r)
        return SerialPool._Res(r)

    def close(self):
        pass

    def join(self):
        pass

    def terminate(self):
        pass


_REAL_POOL = (F.Pool, IE.Pool)


def serial_pool(on: bool = True):
    if on:
        F.Pool = SerialPool
        IE.Pool = SerialPool
    else:
        F.Pool, IE.Pool = _REAL_POOL


serial_pool(True)

METRICS = {"DSC": Metric.DSC, "IOU": Metric.IOU, "ASSD": Metric.ASSD, "clDSC": Metric.clDSC, "RVD": Metric.RVD}
EDGE = {"INF": EdgeCaseResult.INF, "NAN": EdgeCaseResult.NAN, "ZERO": EdgeCaseResult.ZERO,
        "ONE": EdgeCaseResult.ONE, "NONE": EdgeCaseResult.NONE}
DTYPES = {8: np.uint8, 16: np.uint16, 32: np.uint32, 64: np.uint64}


def mk_handler(h: dict) -> EdgeCaseHandler:
    """handler JSON (the format sent to the driver) -> real EdgeCaseHandler"""
    tbl = {}
    sparse = h.get("form") == "sparse" or (h.get("form") is None and sum(map(ord, repr(h["table"]))) % 3 == 0)
    for m, z in h["table"]:
        if sparse:
            # the same handling written the short way: a default result plus only the scenarios that differ from it
            vals = [z["NO_INSTANCES"], z["EMPTY_PRED"], z["EMPTY_REF"], z["NORMAL"]]
            dflt = max(sorted(set(vals)), key=vals.count)
            kw = {k: EDGE[v] for k, v in zip(("no_instances_result", "empty_prediction_result", "empty_reference_result", "normal"), vals) if v != dflt}
            tbl[METRICS[m]] = MetricZeroTPEdgeCaseHandling(default_result=EDGE[dflt], **kw)
            continue
        tbl[METRICS[m]] = MetricZeroTPEdgeCaseHandling(
            no_instances_result=EDGE[z["NO_INSTANCES"]], empty_prediction_result=EDGE[z["EMPTY_PRED"]],
            empty_reference_result=EDGE[z["EMPTY_REF"]], normal=EDGE[z["NORMAL"]])
    return EdgeCaseHandler(listmetric_zeroTP_handling=tbl, empty_list_std=EDGE[h["empty_list_std"]])


def thr_float(t) -> float:
    """threshold given as [num, den] -> the float handed to the implementation"""
    return t[0] / t[1]


def mk_matcher(mc: dict):
    thr = thr_float(mc["thr"]["q"])
    if mc["kind"] == "naive":
        return NaiveThresholdMatching(matching_metric=METRICS[mc["metric"]], matching_threshold=thr,
                                      allow_many_to_one=mc["m2o"])
    return MaximizeMergeMatching(matching_metric=METRICS[mc["metric"]], matching_threshold=thr)


INPUT = {"SEMANTIC": InputType.SEMANTIC, "UNMATCHED": InputType.UNMATCHED_INSTANCE, "MATCHED": InputType.MATCHED_INSTANCE}
BACKEND = {"cc3d": CCABackend.cc3d, "scipy": CCABackend.scipy, None: None}


def mk_groups(groups):
    if groups is None:
        return None
    d, mine = {}, []
    for g in groups:
        cls = LabelMergeGroup if g["merge"] else LabelGroup
        lst = list(g["labels"])
        mine.append(lst)
        # "int_keys": the caller names its groups by integer ids (the library turns every name into a lower-case string)
        d[int(g["name"]) if groups[0].get("int_keys") else g["name"]] = cls(lst, single_instance=g["single"])
    if groups and groups[0].get("as_list"):
        # groups given as a list: the library names them group_0, group_1, ... (the spec carries exactly these names)
        assert [g["name"] for g in groups] == [f"group_{k}" for k in range(len(groups))]
        out = SegmentationClassGroups(list(d.values()))
    else:
        out = SegmentationClassGroups(d)
    if groups and groups[0].get("mutate_after"):
        # the caller goes on using its own lists (a running bookkeeping list, a reused buffer): the groups are what was
        # defined, not what those lists hold later
        snap = [list(l) for l in mine]
        for k, lst in enumerate(mine):
            lst.extend(snap[(k + 1) % len(snap)])
            lst.append(max([0] + [x for l2 in snap for x in l2]) + 1)
    return out


def mk_evaluator(cfg: dict, groups=None, global_metrics=(), **kw) -> Panoptica_Evaluator:
    dec = cfg.get("decision")
    return Panoptica_Evaluator(
        expected_input=INPUT[cfg["input"]],
        instance_approximator=ConnectedComponentsInstanceApproximator(cca_backend=BACKEND[cfg.get("backend")]),
        instance_matcher=mk_matcher(cfg["matcher"]) if cfg.get("matcher") else None,
        edge_case_handler=mk_handler(cfg["handler"]) if cfg.get("handler") else None,
        segmentation_class_groups=mk_groups(groups),
        instance_metrics=[METRICS[m] for m in cfg["eval_metrics"]],
        global_metrics=[METRICS[m] for m in global_metrics],
        decision_metric=METRICS[dec[0]] if dec else None,
        decision_threshold=thr_float(dec[1]["q"]) if dec else None,
        **kw)


def err_class(e: BaseException) -> str:
    return type(e).__name__


DICT_KEYS = False      # C15 switches this on: the key set of to_dict() must not depend on history or options (it does depend on the metrics requested)


def result_summary(res: PanopticaResult, metrics) -> dict:
    """the observables of one PanopticaResult (never raises)"""
    out = {}
    for k in ("num_ref_instances", "num_pred_instances", "tp", "fp", "fn", "prec", "rec", "rq"):
        try:
            out[k] = getattr(res, k)
        except Exception as e:
            out[k] = "ERR:" + err_class(e)
    names = {"IOU": ("sq", "sq_std", "pq"), "DSC": ("sq_dsc", "sq_dsc_std", "pq_dsc"),
             "ASSD": ("sq_assd", "sq_assd_std", None), "RVD": ("sq_rvd", "sq_rvd_std", None),
             "clDSC": ("sq_cldsc", "sq_cldsc_std", "pq_cldsc")}
    for m in metrics:
        for n in names[m]:
            if n is None:
                continue
            try:
                out[n] = getattr(res, n)
            except Exception as e:
                out[n] = "ERR:" + err_class(e)
        try:
            out["list_" + m] = [float(x) for x in res.get_list_metric(METRICS[m], MetricMode.ALL)]
        except Exception as e:
            out["list_" + m] = "ERR:" + err_class(e)
    if DICT_KEYS:
        try:
            out["dict_keys"] = sorted(str(k) for k in res.to_dict().keys())          # what the result reports as a dictionary
        except Exception as e:
            out["dict_keys"] = "ERR:" + err_class(e)
    return out
