"""Regenerates /verif/MANIFEST.json from the table below (kept valid at all times)."""
import json, os
VERIF = os.path.dirname(os.path.dirname(os.path.abspath(__file__)))

CLAIMED = {
    "C19": ("Lean 4 theorems (generic round trip save->load->save for every well-formed class descriptor; panoptica's descriptors well formed, every constructor parameter represented, enum names distinct) + extraction (descriptors regenerated from the source by a Python-ast extractor on every run; Generated = expected proved by decide) + correspondence (real save/load/save, attribute trees, probe evaluations, shipped configurations)",
            "For every class descriptor satisfying the decidable well-formedness check, saving the reloaded object reproduces the saved mapping and the represented settings are identical; the descriptors of panoptica's configurable classes are re-extracted from /repo's working tree on every run and must equal the ones the theorems are about (a dropped or transformed YAML key breaks this obligation before any input is run); real configurations with every field away from its default are round-tripped and compared byte-for-byte, attribute-for-attribute and on probe inputs.",
            "Trusted: Lean kernel + 3 standard axioms; the extractor (Python ast) and harness; ruamel.yaml text emission/parsing; idempotence of the constructors' normalisations (list(set(.)), lower-casing) is a hypothesis of the generic theorem checked by correspondence; SegmentationClassGroups' constructor is outside the extractor's subset (covered by correspondence only).",
            "DESIGN.md §7 C19"),
    "C01": ("Lean 4 theorems (the pipeline model is exactly the documented composition: matched/unmatched/semantic wiring, candidates = overlapping pairs scored on the voxel sets, greedy best-first assignment, tp = passing matched labels, one list entry per TP; stage theorems C02-C09 apply to its output) + correspondence + independent implementation of the published definitions",
            "The end-to-end model is proved to be the composition of the verified stages; the real evaluator is compared on generated and exhaustively enumerated inputs, for the three input types, IoU/Dice/ASSD matching, decision metrics and both backends, with the model and with an independent implementation of the definitions whenever they determine the answer uniquely.",
            "Trusted: Lean kernel + 3 standard axioms; harness; ASSD order in float64 (near-ties skipped and counted); cc3d/scipy/EDT compared against proved definitions; crops are not part of the model (C10 crop lemma + correspondence).",
            "DESIGN.md §7 C01"),
    "C15": ("Lean 4 theorems (heap machine over arbitrary operation sequences: configuration and advertised keys of every evaluator invariant, evaluate determined by configuration and input, well-formedness of every reachable world) + correspondence + purity oracles on the real objects",
            "Along every sequence of evaluator/aggregator constructions, key reads, saves and evaluate calls with any options, the model's evaluators keep their configuration and advertised keys and evaluate returns the value determined by configuration and input. Real operation sequences are checked after every step: caller arrays byte-identical, result equal to a fresh evaluator's, keys and saved YAML unchanged; serial vs real multiprocessing pool compared on a slice.",
            "Trusted: Lean kernel + 3 standard axioms; harness; array immutability and starmap = map are assumptions of the model, observed on the implementation.",
            "DESIGN.md §7 C15"),
    "C16": ("Lean 4 theorems (two-lock machine, every schedule, any number of threads: 18-clause invariant, rows unique, lock exclusion, partial row only under the lock, statistics see complete rows, final rows, progress measure, no deadlock, can finish) + step-by-step correspondence of the real aggregator under a controlled scheduler + forked-process runs",
            "For every schedule of any number of evaluate()/make_statistic() calls with distinct or colliding names the machine ends with exactly one complete row per subject, never deadlocks and can always finish; the real Panoptica_Aggregator, with its locks and file helpers wrapped from outside, is driven through random and enumerated schedules and compared with the machine after every step (files, lock owners, program counters) and with a sequential run at the end; forked worker processes are run with a widened claim window.",
            "Trusted: Lean kernel + 3 standard axioms; harness and scheduler; preemption inside one helper call, buffered-write splitting of rows > 8 KiB and process start-up are outside the model; forked-process runs are sampled, not enumerated.",
            "DESIGN.md §7 C16"),
    "C17": ("Lean 4 theorems (constructor + sessions + crash transitions: file well-formedness along every history, rows never lost, constructor completion, restart exactness, private buffer names) + step-by-step correspondence with crash injection + sibling-file runs",
            "Along every history of sessions, constructor steps, thread steps and crashes the output file stays well formed; after any history a complete session leaves the header once and exactly one row per subject with earlier rows kept; buffer file names are injective in the output name. The real aggregator is driven through every crash point of a one-subject session x 5 initial file states and through random multi-session histories, compared with the machine after every operation and with an uninterrupted run at the end; sibling output files in one directory are exercised.",
            "Trusted: Lean kernel + 3 standard axioms; harness and crash injector (a crash abandons parked threads and frees the model-level locks); kills inside a single write call and atexit ordering are outside the model.",
            "DESIGN.md §7 C17"),
    "C18": ("Lean 4 theorems (header cell splits back at the last '-', key list round trip, alignment of every (subject, group, metric) value, classification of non-finite values, row width) + end-to-end correspondence evaluator -> aggregator -> loader",
            "For any groups, subjects, '-'-free metric keys and result values the loaded table returns under (s, g, m) exactly the classification of the written value; the real evaluator/aggregator/loader chain is run on generated group and subject names and forced NaN/inf/None values and compared bit-for-bit with to_dict and with the model.",
            "Trusted: Lean kernel + 3 standard axioms; harness; csv quoting and float<->text are external (compared).",
            "DESIGN.md §7 C18"),
    "C20": ("Lean 4 theorems (summary ignores missing entries, permutation invariance, avg/variance/min/max definitions, across-groups = statistics of per-group averages, per-subject lookup) + correspondence on generated result tables",
            "Summaries are proved to be functions of the multiset of finite entries with the stated definitions; Panoptica_Statistic is compared with the model and with numpy on generated tables incl. nan/inf/-inf/empty cells and permuted rows, with look-ups before and after summaries.",
            "Trusted: Lean kernel + 3 standard axioms; harness; avg/std compared within 1e-9 (float accumulation), min/max exact.",
            "DESIGN.md §7 C20"),
    "C05": ("Lean 4 theorems (closure by saturation = reachability, component numbering invariant: total, same-label iff connected, labels exactly 1..n; backend adjacencies) + correspondence with cc3d/scipy + independent flood-fill oracle",
            "For every finite voxel set and symmetric adjacency the model's labelling gives two voxels the same label exactly when they are connected, uses labels 1..n and reports n; cc3d adjacency never joins different semantic labels, scipy adjacency is face-only, the default backend is chosen by dimensionality. The model is compared with ConnectedComponentsInstanceApproximator (both backends and default) on generated and exhaustively enumerated semantic maps.",
            "Trusted: Lean kernel + 3 standard axioms; harness; cc3d and scipy.ndimage.label are C extensions compared against the proved definition, not verified.",
            "DESIGN.md §7 C05"),
    "C07": ("Lean 4 theorems (border = foreground with a non-foreground face neighbour, nearest squared distance is the minimum, ASSD over Real.sqrt: symmetric, non-negative, zero iff borders coincide, invariant under every grid isometry incl. translation/flip/axis swap) + correspondence + brute-force oracle",
            "The model returns the two exact lists of squared border distances; theorems characterise them and prove symmetry, zero-iff and isometry/embedding invariance for masks of any size and dimension. Metric.ASSD is compared with the model and with an independent brute-force computation on thin/ring/border-touching/far-apart masks and under embedding and tight cropping.",
            "Trusted: Lean kernel + 3 standard axioms; harness; scipy binary_erosion / euclidean_feature_transform compared against the proved definitions; float64 mean of square roots compared within 1e-9.",
            "DESIGN.md §7 C07"),
    "C09": ("Lean 4 theorems (64-bit pair encoding exact below 2^32: candidates = overlapping label pairs; counts, selected masks and the matcher loop transported by injective relabelling; dtype independence via C04.relabel_pointwise) + metamorphic/correspondence runs at dtype boundaries",
            "Candidate discovery is proved exact for all labels below 2^32 and every count/score/matching step commutes with injective relabelling; the real evaluator is run before/after injective relabellings into [1,2^24) (biased to 2^k-1, 2^k, 2^k+1, wrapping sums) over uint8..uint64 and compared, and the pair encoding is exercised directly up to 2^32-1.",
            "Trusted: Lean kernel + 3 standard axioms; harness; equality is only claimed when no competing candidates tie (tie cases are skipped and counted); look-up-table memory bounds the relabelled values to < 2^24 through the full pipeline.",
            "DESIGN.md §7 C09"),
    "C10": ("Lean 4 theorems (bounding box contains the foreground for every padding, crop lemma: cropping = translation of the foreground, counts are functions of the multiset of foreground label pairs, Reach and adjacencies transported by grid isometries; ASSD by C07) + metamorphic/correspondence runs",
            "The crop arithmetic keeps every foreground voxel and only translates coordinates; every count-based quantity is invariant under any rearrangement of voxels and removal of background; connectivity and border distances are transported by isometries. The real evaluator is compared before/after padding, tight cropping, flips, axis permutations and memory layouts; bounding box and whole-pair crop are compared with the model.",
            "Trusted: Lean kernel + 3 standard axioms; harness; memory layout exists only on the implementation side; the model pipeline is crop-free (justified by the crop lemma, tied by correspondence).",
            "DESIGN.md §7 C10"),
    "C11": ("Lean 4 theorems (overlap counts, IoU and Dice mirrored; RVD r -> -r/(1+r); one-to-one threshold matching on mirrored candidates gives the mirrored assignment) + metamorphic/correspondence runs",
            "Exchanging the roles mirrors every count and score and the one-to-one matcher commutes with the exchange (same candidate order, i.e. up to ties); evaluate(pred, ref) and evaluate(ref, pred) are compared on pairs with unequal instance counts, label gaps and label ranges near dtype boundaries.",
            "Trusted: Lean kernel + 3 standard axioms; harness; tie cases are skipped and counted.",
            "DESIGN.md §7 C11"),
    "C12": ("Lean 4 theorems (restriction keeps exactly the group's labels, group result = pipeline on restricted arrays, non-interference, rejection iff an undefined label exists) + metamorphic/correspondence runs",
            "Group evaluation is proved to be the pipeline on the restricted arrays (MATCHED for single-instance groups), independent of other groups' voxels, and to reject exactly the inputs with a label outside every group; the real evaluator with groups is compared with ungrouped evaluation of restricted arrays and with the model. One known finding (single-instance decision threshold) is listed in known_findings.json.",
            "Trusted: Lean kernel + 3 standard axioms; harness.",
            "DESIGN.md §7 C12"),
    "C02": ("Lean 4 theorems (list-length invariant of the evaluator, decision filter, fp/fn/rq/pq definitions, mean/variance, ranges) + model/implementation correspondence + independent bookkeeping oracle",
            "For every value type, order, metric selection, decision metric/threshold and every list of per-instance metric dictionaries (i.e. the output of every matcher) tp = number of passing instances and every list has tp entries; for every directly constructed result fp/fn/rq/sq/pq obey their definitions and ranges. The model is tied to the code by running both on generated pairs x input types x matchers x decision settings and on directly constructed results.",
            "Trusted: Lean kernel + 3 standard axioms; harness; sq_std is compared as sqrt of the model's exact variance within 1e-9; ASSD aggregates recomputed in float64 from the model's exact squared distances.",
            "DESIGN.md §7 C02"),
    "C03": ("Lean 4 theorems (fold invariants over the sorted candidate list for an arbitrary total preorder: total, functional, injective, sound, maximal, best-first, monotone, sort) + correspondence + independent validity oracle",
            "The threshold matcher's loop is proved never to raise, functional, injective without many-to-one, sound, maximal, best-first and monotone in the threshold for every candidate list, score order, threshold and option; the executable model equals the real matcher's label map on generated/enumerated overlap graphs (exact rational scores, exact-threshold hits, many-to-one).",
            "Trusted: Lean kernel + 3 standard axioms; harness; ASSD scores are compared in float64 (cases within 1e-9 of a threshold or of a competing score are skipped and counted); the candidate discovery (pair encoding) is compared, its injectivity theorem is part of C09.",
            "DESIGN.md §7 C03"),
    "C04": ("Lean 4 theorems (the relabelling is a pointwise finite map that never wraps below 2^64; foreground kept, matched label, fresh labels distinct and outside the reference labels, partition preserved) + correspondence + independent partition oracle",
            "For every dtype width, label map, functional assignment and any number of instances below 2^64 the relabelled prediction is the pointwise image under a map with the stated properties; the model equals map_instance_labels on real-matcher and random label maps over uint8/16/32/64 incl. labels at the dtype maximum.",
            "Trusted: Lean kernel + 3 standard axioms; harness; numpy fancy indexing (look-up table) as modelled; labels bounded by 2^22 in uint32/64 runs (table memory).",
            "DESIGN.md §7 C04"),
    "C08": ("Lean 4 theorems (scenario decision table stated outright, zero-TP values for every handler table and every count, early exit, handler irrelevance for tp>0) + correspondence + independent handler oracle",
            "For all instance counts and all handler tables the zero-TP aggregate is the handler's value for the realised scenario and the std is the empty-list value; the model equals the real evaluator on random handlers x scenarios x the three input types.",
            "Trusted: Lean kernel + 3 standard axioms; harness.",
            "DESIGN.md §7 C08"),
    "C13": ("Lean 4 theorems (global value is a function of the two binarised maps; handler dispatch on empty sides stated outright) + correspondence + independent oracle (metric of binarised maps, handler table)",
            "global_bin_<m> of the model depends only on the binarised arrays; empty prediction/reference/both give the handler's EMPTY_PRED/EMPTY_REF/NO_INSTANCES values; the real evaluator is compared on random pairs, asymmetric handlers and several instance labellings of one foreground.",
            "Trusted: Lean kernel + 3 standard axioms; harness; ASSD global values compared within 1e-9 against a brute-force border distance.",
            "DESIGN.md §7 C13"),
    "C14": ("Lean 4 theorems (loop invariants of the merge pass for an arbitrary total preorder and combined-score function: functional, founder eligible, strict-improvement merges, score bookkeeping, final quality) + correspondence + independent replay oracle",
            "Every step of the merge loop either leaves the state, founds a reference with an eligible candidate, or merges on strict improvement in the metric's direction; recorded scores equal the combined score of the assigned predictions and finally meet the threshold and the founder's score. The model equals MaximizeMergeMatching's label map on fragment-covered references for IoU/Dice/ASSD.",
            "Trusted: Lean kernel + 3 standard axioms; harness; ASSD order evaluated in float64 (near-ties skipped and counted).",
            "DESIGN.md §7 C14"),
    # id: (technique, level text, level note, design ref)
    "C06": ("Lean 4 theorems (Finset-free list/Rat arithmetic: dice/iou/rvd definitions, dice = 2iou/(1+iou), symmetry, unit interval, =1 iff identical, label-list = union) + model/implementation correspondence",
            "Theorems about the executable model of the metric formulas and of label selection hold for every pair of flat arrays and every selection; the model is tied to the code by running both on generated, enumerated and corpus inputs with exact (correctly-rounded quotient) comparison.",
            "Trusted: Lean kernel + 3 standard axioms; numpy's sum/logical ops/isin and one IEEE division; skimage skeletonisation is a parameter of the clDice model (compared, not verified).",
            "DESIGN.md §7 C06"),
}

# extraction ties added after the first build: appended to technique / level text / trusted base
EXTRA = {
    "C01": ("score_beats_threshold, the naive matcher's loop body, the decision loop, fp/fn/rq/pq and the phase program of panoptic_evaluate with the wiring of its calls", "beats_metric_ok, naive_loop_ok, decision_loop_ok, fp_ok, fn_ok, rq_ok, products_ok, phases_ok, wiring_ok, entry_ok; the queries of InstanceLabelMap (contains_pred_ok / contains_ref_ok / contains_and_ok / contains_or_ok for every label map and argument, add_guard_ok)"),
    "C02": ("the decision loop of evaluate_matched_instance, fp/fn/prec/rec/rq/pq* formulas and the sq* readers, score_beats_threshold, the guard / crop / metric calls of _evaluate_instance and the wiring of the evaluated pair", "instance_guard_ok, instance_eval_ok, instance_collect_ok, instance_result_ok, decision_loop_ok, fp_ok, fn_ok, prec_ok, rec_ok, rq_ok, products_ok, readers_ok, beats_metric_ok"),
    "C03": ("score_beats_threshold (both classes), the naive matcher's loop body, the pair code of _calc_overlapping_labels (width, masked side, filter, decoding) and the fresh-label / dtype decisions of the relabelling", "beats_metric_ok, beats_impl_ok, naive_loop_ok, code_ok, keep_ok, decode_ok, acc_bits_ok, masked_ok, fit_ok, fresh_base_ok, fresh_kth_ok, missed_ok, table_ok; plus uniqueness of the greedy matching on tie-free input (C03Unique.unique) and of the many-to-one matching when no prediction has two equally good eligible candidates (C03UniqueM2O.unique_m2o); the queries of InstanceLabelMap (contains_pred_ok / contains_ref_ok / contains_and_ok / contains_or_ok for every label map and argument, add_guard_ok)"),
    "C08": ("the zero-TP scenario if/elif chain the constructor of MetricZeroTPEdgeCaseHandling (own argument, else default_result) and the phase program of panoptic_evaluate (where the zero-instance step sits and what it is given)", "scenario_chain_ok, handler_ctor_ok, handler_entry_sem, handler_keys_ok, phases_ok, wiring_ok"),
    "C13": ("the scenario chain, the edge branch of _calc_global_bin_metric (guard, count arguments) the constructor of MetricZeroTPEdgeCaseHandling, and the crop bounds", "scenario_chain_ok, global_bin_call_ok, handler_ctor_ok, handler_entry_sem, handler_keys_ok, bbox_bounds_ok, paired_crop_ok"),
    "C14": ("the merge matcher's loop body incl. the improvement test and score bookkeeping, score_beats_threshold, the pair code of _calc_overlapping_labels", "merge_loop_ok, beats_metric_ok, code_ok, keep_ok, decode_ok, acc_bits_ok, masked_ok; the oracle's best-free-candidate clause is the theorem C14.final_at_least_best_free; the queries of InstanceLabelMap (contains_pred_ok / contains_ref_ok / contains_and_ok / contains_or_ok for every label map and argument, add_guard_ok)"),
    "C16": ("the lock/file skeleton of evaluate, _save_one_subject and make_statistic, the two module-level locks, and the value of every path argument (symbolic evaluation of the constructor)", "evaluate_fresh_ok, evaluate_claimed_ok, stat_ok, locks_ok (event sequences equal those of Agg.step), out_paths_ok, path_branches_ok"),
    "C17": ("the file part of the aggregator constructor in ten file states, the claimed-subject path of evaluate, and the value of every path argument (symbolic evaluation of the constructor: output file = given path or given path + .tsv, buffer = its stem-named sibling)", "ctor_ok, evaluate_claimed_ok (event sequences equal those of Agg.ctorStep / Agg.step), out_paths_ok, path_branches_ok"),
    "C11": ("the pair code of _calc_overlapping_labels (which side's background is masked) and the fresh labels / dtype decisions of the relabelling — the two places where prediction and reference are treated differently", "masked_ok, code_ok, keep_ok, decode_ok, acc_bits_ok, fit_ok, fresh_base_ok, fresh_kth_ok, missed_ok, table_ok; end-to-end theorem pipeline_mirror (unmatched input, one-to-one matching on IoU/Dice, tie-free candidates: tp equal, counts exchanged, per-instance lists permuted) via uniqueness of the valid matching; pipeline_mirror_semantic (the same for semantic input, through C10.pipeline_semantic_unfold); the queries of InstanceLabelMap (contains_pred_ok / contains_ref_ok / contains_and_ok / contains_or_ok for every label map and argument, add_guard_ok)"),
    "C09": ("the pair code of _calc_overlapping_labels (expression, 64-bit accumulation, masked side, filter, decoding) and the dtype / fresh-label decisions of the relabelling", "code_ok, max_ref_ok, keep_ok, decode_ok, acc_bits_ok, masked_ok, unique_ok, fit_ok, fresh_base_ok, fresh_kth_ok, table_ok; end-to-end theorems pipeline_rename (one-to-one threshold matcher) and pipeline_rename_merge (merge matcher, pairwise distinct candidate scores) (injective renaming of both label sets and change of integer width: counts and tp equal, per-instance lists permuted, tie-free candidates) via uniqueness of the valid matching; pipeline_rename_semantic (semantic input, every configuration: equal results, from components_rename); pipeline_rename_m2o (many-to-one matching, via C03.unique_m2o)"),
    "C04": ("_get_smallest_fitting_uint, the fresh labels of map_instance_labels and the table of _map_labels", "fit_ok, fit_holds, fresh_base_ok, fresh_kth_ok, missed_ok, table_ok (lifted to fullLabelMap / assignFresh / mapBits)"),
    "C05": ("the backend decision, the per-side labelling / emptiness guards, result dtype and counts of _approximate_instances and the library calls of _connected_components", "backend_default_ok, backend_config_ok, sides_ok, result_dtype_ok, cc_dispatch_ok"),
    "C15": ("that _approximate_instances does not write to the approximator object (and its backend decision); that extract_label copies before it writes and _evaluate_group is wired with the evaluator's own settings", "backend_config_ok, backend_default_ok, extract_label_ok, group_wiring_ok"),
    "C12": ("the single-instance condition of _evaluate_group over both flags and all input types, what it turns the pair and the threshold into, the restriction of both arrays, the wiring of panoptic_evaluate, the steps of extract_label and which group class binarises", "single_cond_ok, single_mode_ok, group_restriction_ok, group_wiring_ok, extract_label_ok"),
    "C20": ("the cell classification of from_file, the four fields of ValueSummary, the None filter and what get_summary / get_summary_across_groups summarise", "cell_classification_ok, summary_fields_ok, summary_inputs_ok"),
    "C18": ("the cell classification of the loader (kept exactly when finite) and the layout of header, rows and loader columns", "cell_classification_ok, model_classify_is_extracted, header_layout_ok, row_layout_ok, loader_layout_ok"),
    "C07": ("the structure of the ASSD computation (two directed averages, borders by erosion with connectivity 1, distance map of the reference border read at the prediction border, masks only made boolean)", "assd_symmetric_ok, assd_directed_ok, assd_surface_ok"),
    "C06": ("the bodies of the Dice, IoU and RVD helpers over their four counts", "dice_body_ok, iou_body_ok, rvd_body_ok (lifted to dice / iou / rvd); centre-line Dice exercised in five memory layouts with and without label selection; large-scale masks (2^22 .. 2^24 voxels) judged by exact integer counts"),
    "C19": (None, "label_norm_idem / label_norm_order_free: the one list normalisation of a constructor (sorted set of labels) is proved idempotent and order-independent"),
    "C10": ("the slice bounds of _get_bbox_nd, the union / fallback / padding of _get_paired_crop and the backend decision by number of axes", "bbox_bounds_ok, bbox_covers, paired_crop_ok (lifted to bboxNd), backend_default_ok; end-to-end theorems pipeline_counts_invariant (instance input, threshold matcher), pipeline_counts_invariant_merge (merge matcher, ties included), pipeline_semantic_invariant_m2o / _merge (semantic input, many-to-one and merge matcher) and pipeline_semantic_invariant (semantic input: components are transported and renumbered by any adjacency-preserving injective coordinate map, both backends), threshold matching on IoU/Dice and the metrics IoU/Dice/RVD"),
}

SCALE = {"C01", "C03", "C04", "C06", "C07", "C10", "C14"}

NA = {}
PENDING_REASON = "machinery for this property is not yet built in this round (model exists or is planned per DESIGN.md §12); it is not claimed until its theorems and correspondence run"

def main():
    props = [json.loads(l) for l in open(os.path.join(VERIF, "properties.jsonl"))]
    checks, na = [], []
    for p in props:
        pid = p["id"]
        if pid in CLAIMED:
            tech, text, note, ref = CLAIMED[pid]
            if pid in EXTRA:
                what, thms = EXTRA[pid]
                if what:
                    tech += f" + extraction (Python ast -> deep-embedded Lean terms regenerated from /repo on every run: {what}; semantic obligations proved by the kernel: {thms})"
                    text += f" In addition {what} are read from the current source on every run and proved (over all abstract situations / all counts) to behave as the model functions the theorems are about."
                    note += " The extractors (harness/extract/*.py) are trusted to translate the matched syntax faithfully; anything outside their subset becomes `other` and fails the obligation."
                else:
                    tech += f" + {thms}"
            if pid in SCALE:
                note += " Large-scale corpus cases (arrays of 10^6 - 2.5*10^7 voxels, axes beyond 46341 voxels) are judged by an exact integer oracle only; they do not pass through the Lean model."
            checks.append({
                "property_id": pid,
                "quick_cmd": f"bin/check {pid} quick",
                "thorough_cmd": f"bin/check {pid} thorough",
                "evidence_file": f"evidence/{pid}.json",
                "replay_cmd_template": f"bin/check {pid} --replay {{path}}",
                "engine": "lean4-proof+correspondence",
                "level_claimed": {"category": "proof", "text": text, "design_ref": ref},
                "level_note": note,
                "technique": tech,
            })
        else:
            na.append({"property_id": pid, "reason": NA.get(pid, PENDING_REASON)})
    man = {
        "version": 1,
        "setup_cmd": "cd lean && lake build",
        "hooks": {
            "guard": "BRAINLESION_PANOPTICA_VERIF",
            "enable": "no source hooks: the harness wraps multiprocessing.Pool, the aggregator's two module-level locks and its file helpers from outside at import time; BRAINLESION_PANOPTICA_VERIF=1 is exported by bin/check for completeness",
            "baseline_off_cmd": "cd /repo && /venv/bin/python -m pytest -ra -q -p no:cacheprovider --timeout=900 --continue-on-collection-errors",
            "source_commits": [],
            "add_only": True,
        },
        "engines": [{
            "name": "lean4-proof+correspondence",
            "path": "lean/ (Lean 4 model, theorems, driver) + harness/ (Python correspondence, oracles, search) + bin/check",
            "serves_properties": sorted(CLAIMED),
            "kind_free_text": "machine-checked proof in Lean 4 about a hand-written executable model; decision expressions, loop bodies, formulas, the aggregator lock/file skeleton and the configuration class descriptors are regenerated from /repo by ast extractors and proved equal in behaviour to the model; model tied to /repo by a correspondence check that runs model and implementation on the same inputs; failing-input search on the implementation when a tie breaks",
        }],
        "checks": checks,
        "not_applicable": na,
        "notes": "See DESIGN.md. Fixed defects and known findings: known_findings.json. Seeded mutations: seeded/.",
    }
    json.dump(man, open(os.path.join(VERIF, "MANIFEST.json"), "w"), indent=1)
    print("claimed", len(checks), "not_applicable", len(na))

NA = {}
if __name__ == "__main__":
    main()
