"""Regenerates /verif/MANIFEST.json from the table below (kept valid at all times)."""
import json, os
VERIF = os.path.dirname(os.path.dirname(os.path.abspath(__file__)))

CLAIMED = {
    # id: (technique, level text, level note, design ref)
    "C06": ("Lean 4 theorems (Finset-free list/Rat arithmetic: dice/iou/rvd definitions, dice = 2iou/(1+iou), symmetry, unit interval, =1 iff identical, label-list = union) + model/implementation correspondence",
            "Theorems about the executable model of the metric formulas and of label selection hold for every pair of flat arrays and every selection; the model is tied to the code by running both on generated, enumerated and corpus inputs with exact (correctly-rounded quotient) comparison.",
            "Trusted: Lean kernel + 3 standard axioms; numpy's sum/logical ops/isin and one IEEE division; skimage skeletonisation is a parameter of the clDice model (compared, not verified).",
            "DESIGN.md §7 C06"),
}

PENDING_REASON = "machinery for this property is not yet built in this round (model exists or is planned per DESIGN.md §12); it is not claimed until its theorems and correspondence run"

def main():
    props = [json.loads(l) for l in open(os.path.join(VERIF, "properties.jsonl"))]
    checks, na = [], []
    for p in props:
        pid = p["id"]
        if pid in CLAIMED:
            tech, text, note, ref = CLAIMED[pid]
            checks.append({
                "property_id": pid,
                "quick_cmd": f"bin/check {pid} quick",
                "thorough_cmd": f"bin/check {pid} thorough",
                "evidence_file": f"evidence/{pid}.json",
                "replay_cmd_template": f"bin/check {pid} --replay {{path}}",
                "engine": "lean4-proof+correspondence",
                "level_claimed": {"category": "proof", "text": text, "design_ref": ref},
                "level_note": note,
                "technique": tech,
            })
        else:
            na.append({"property_id": pid, "reason": NA.get(pid, PENDING_REASON)})
    man = {
        "version": 1,
        "setup_cmd": "cd lean && lake build",
        "hooks": {
            "guard": "BRAINLESION_PANOPTICA_VERIF",
            "enable": "no source hooks: the harness wraps multiprocessing.Pool, the aggregator's two module-level locks and its file helpers from outside at import time; BRAINLESION_PANOPTICA_VERIF=1 is exported by bin/check for completeness",
            "baseline_off_cmd": "cd /repo && /venv/bin/python -m pytest -ra -q -p no:cacheprovider --timeout=900 --continue-on-collection-errors",
            "source_commits": [],
            "add_only": True,
        },
        "engines": [{
            "name": "lean4-proof+correspondence",
            "path": "lean/ (Lean 4 model, theorems, driver) + harness/ (Python correspondence, oracles, search) + bin/check",
            "serves_properties": sorted(CLAIMED),
            "kind_free_text": "machine-checked proof in Lean 4 about a hand-written executable model; model tied to /repo by a correspondence check that runs model and implementation on the same inputs; failing-input search on the implementation when a tie breaks",
        }],
        "checks": checks,
        "not_applicable": na,
        "notes": "See DESIGN.md. Fixed defects and known findings: known_findings.json. Seeded mutations: seeded/.",
    }
    json.dump(man, open(os.path.join(VERIF, "MANIFEST.json"), "w"), indent=1)
    print("claimed", len(checks), "not_applicable", len(na))

NA = {}
if __name__ == "__main__":
    main()
