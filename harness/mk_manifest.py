"""Regenerates /verif/MANIFEST.json from the table below (kept valid at all times)."""
import json, os
VERIF = os.path.dirname(os.path.dirname(os.path.abspath(__file__)))

CLAIMED = {
    "C02": ("Lean 4 theorems (list-length invariant of the evaluator, decision filter, fp/fn/rq/pq definitions, mean/variance, ranges) + model/implementation correspondence + independent bookkeeping oracle",
            "For every value type, order, metric selection, decision metric/threshold and every list of per-instance metric dictionaries (i.e. the output of every matcher) tp = number of passing instances and every list has tp entries; for every directly constructed result fp/fn/rq/sq/pq obey their definitions and ranges. The model is tied to the code by running both on generated pairs x input types x matchers x decision settings and on directly constructed results.",
            "Trusted: Lean kernel + 3 standard axioms; harness; sq_std is compared as sqrt of the model's exact variance within 1e-9; ASSD aggregates recomputed in float64 from the model's exact squared distances.",
            "DESIGN.md §7 C02"),
    "C03": ("Lean 4 theorems (fold invariants over the sorted candidate list for an arbitrary total preorder: total, functional, injective, sound, maximal, best-first, monotone, sort) + correspondence + independent validity oracle",
            "The threshold matcher's loop is proved never to raise, functional, injective without many-to-one, sound, maximal, best-first and monotone in the threshold for every candidate list, score order, threshold and option; the executable model equals the real matcher's label map on generated/enumerated overlap graphs (exact rational scores, exact-threshold hits, many-to-one).",
            "Trusted: Lean kernel + 3 standard axioms; harness; ASSD scores are compared in float64 (cases within 1e-9 of a threshold or of a competing score are skipped and counted); the candidate discovery (pair encoding) is compared, its injectivity theorem is part of C09.",
            "DESIGN.md §7 C03"),
    "C04": ("Lean 4 theorems (the relabelling is a pointwise finite map that never wraps below 2^64; foreground kept, matched label, fresh labels distinct and outside the reference labels, partition preserved) + correspondence + independent partition oracle",
            "For every dtype width, label map, functional assignment and any number of instances below 2^64 the relabelled prediction is the pointwise image under a map with the stated properties; the model equals map_instance_labels on real-matcher and random label maps over uint8/16/32/64 incl. labels at the dtype maximum.",
            "Trusted: Lean kernel + 3 standard axioms; harness; numpy fancy indexing (look-up table) as modelled; labels bounded by 2^22 in uint32/64 runs (table memory).",
            "DESIGN.md §7 C04"),
    "C08": ("Lean 4 theorems (scenario decision table stated outright, zero-TP values for every handler table and every count, early exit, handler irrelevance for tp>0) + correspondence + independent handler oracle",
            "For all instance counts and all handler tables the zero-TP aggregate is the handler's value for the realised scenario and the std is the empty-list value; the model equals the real evaluator on random handlers x scenarios x the three input types.",
            "Trusted: Lean kernel + 3 standard axioms; harness.",
            "DESIGN.md §7 C08"),
    "C13": ("Lean 4 theorems (global value is a function of the two binarised maps; handler dispatch on empty sides stated outright) + correspondence + independent oracle (metric of binarised maps, handler table)",
            "global_bin_<m> of the model depends only on the binarised arrays; empty prediction/reference/both give the handler's EMPTY_PRED/EMPTY_REF/NO_INSTANCES values; the real evaluator is compared on random pairs, asymmetric handlers and several instance labellings of one foreground.",
            "Trusted: Lean kernel + 3 standard axioms; harness; ASSD global values compared within 1e-9 against a brute-force border distance.",
            "DESIGN.md §7 C13"),
    "C14": ("Lean 4 theorems (loop invariants of the merge pass for an arbitrary total preorder and combined-score function: functional, founder eligible, strict-improvement merges, score bookkeeping, final quality) + correspondence + independent replay oracle",
            "Every step of the merge loop either leaves the state, founds a reference with an eligible candidate, or merges on strict improvement in the metric's direction; recorded scores equal the combined score of the assigned predictions and finally meet the threshold and the founder's score. The model equals MaximizeMergeMatching's label map on fragment-covered references for IoU/Dice/ASSD.",
            "Trusted: Lean kernel + 3 standard axioms; harness; ASSD order evaluated in float64 (near-ties skipped and counted).",
            "DESIGN.md §7 C14"),
    # id: (technique, level text, level note, design ref)
    "C06": ("Lean 4 theorems (Finset-free list/Rat arithmetic: dice/iou/rvd definitions, dice = 2iou/(1+iou), symmetry, unit interval, =1 iff identical, label-list = union) + model/implementation correspondence",
            "Theorems about the executable model of the metric formulas and of label selection hold for every pair of flat arrays and every selection; the model is tied to the code by running both on generated, enumerated and corpus inputs with exact (correctly-rounded quotient) comparison.",
            "Trusted: Lean kernel + 3 standard axioms; numpy's sum/logical ops/isin and one IEEE division; skimage skeletonisation is a parameter of the clDice model (compared, not verified).",
            "DESIGN.md §7 C06"),
}

PENDING_REASON = "machinery for this property is not yet built in this round (model exists or is planned per DESIGN.md §12); it is not claimed until its theorems and correspondence run"

def main():
    props = [json.loads(l) for l in open(os.path.join(VERIF, "properties.jsonl"))]
    checks, na = [], []
    for p in props:
        pid = p["id"]
        if pid in CLAIMED:
            tech, text, note, ref = CLAIMED[pid]
            checks.append({
                "property_id": pid,
                "quick_cmd": f"bin/check {pid} quick",
                "thorough_cmd": f"bin/check {pid} thorough",
                "evidence_file": f"evidence/{pid}.json",
                "replay_cmd_template": f"bin/check {pid} --replay {{path}}",
                "engine": "lean4-proof+correspondence",
                "level_claimed": {"category": "proof", "text": text, "design_ref": ref},
                "level_note": note,
                "technique": tech,
            })
        else:
            na.append({"property_id": pid, "reason": NA.get(pid, PENDING_REASON)})
    man = {
        "version": 1,
        "setup_cmd": "cd lean && lake build",
        "hooks": {
            "guard": "BRAINLESION_PANOPTICA_VERIF",
            "enable": "no source hooks: the harness wraps multiprocessing.Pool, the aggregator's two module-level locks and its file helpers from outside at import time; BRAINLESION_PANOPTICA_VERIF=1 is exported by bin/check for completeness",
            "baseline_off_cmd": "cd /repo && /venv/bin/python -m pytest -ra -q -p no:cacheprovider --timeout=900 --continue-on-collection-errors",
            "source_commits": [],
            "add_only": True,
        },
        "engines": [{
            "name": "lean4-proof+correspondence",
            "path": "lean/ (Lean 4 model, theorems, driver) + harness/ (Python correspondence, oracles, search) + bin/check",
            "serves_properties": sorted(CLAIMED),
            "kind_free_text": "machine-checked proof in Lean 4 about a hand-written executable model; model tied to /repo by a correspondence check that runs model and implementation on the same inputs; failing-input search on the implementation when a tie breaks",
        }],
        "checks": checks,
        "not_applicable": na,
        "notes": "See DESIGN.md. Fixed defects and known findings: known_findings.json. Seeded mutations: seeded/.",
    }
    json.dump(man, open(os.path.join(VERIF, "MANIFEST.json"), "w"), indent=1)
    print("claimed", len(checks), "not_applicable", len(na))

NA = {}
if __name__ == "__main__":
    main()
