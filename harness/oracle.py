"""Independent (model-free, library-free) reference computations used as property oracles."""
from __future__ import annotations
from fractions import Fraction
import itertools, math
import numpy as np

DECREASING = {"ASSD": True, "RVD": True, "IOU": False, "DSC": False, "clDSC": False}


def mask_score(metric: str, R: np.ndarray, P: np.ndarray):
    """exact score of two boolean masks (Fraction for IOU/DSC/RVD, float for ASSD)"""
    i = int(np.logical_and(R, P).sum())
    r, p = int(R.sum()), int(P.sum())
    if metric == "IOU":
        u = r + p - i
        return Fraction(i, u) if u else Fraction(0)
    if metric == "DSC":
        return Fraction(2 * i, r + p) if r + p else Fraction(0)
    if metric == "RVD":
        return Fraction(p - r, r) if r else (Fraction(0) if p == 0 else None)
    if metric == "ASSD":
        return assd_brute(R, P)
    raise ValueError(metric)


def border_coords(M: np.ndarray) -> np.ndarray:
    """foreground voxels with a background or out-of-array face neighbour"""
    M = M.astype(bool)
    pad = np.pad(M, 1, constant_values=False)
    interior = np.ones_like(M)
    for ax in range(M.ndim):
        for sh in (0, 2):
            sl = [slice(1, -1)] * M.ndim
            sl[ax] = slice(sh, sh + M.shape[ax])
            interior &= pad[tuple(sl)]
    return np.argwhere(M & ~interior)


def directed_sq(A: np.ndarray, B: np.ndarray) -> np.ndarray:
    """for each row of A the squared distance to the nearest row of B"""
    d = ((A[:, None, :] - B[None, :, :]) ** 2).sum(axis=2)
    return d.min(axis=1)


def assd_brute(R: np.ndarray, P: np.ndarray) -> float:
    bR, bP = border_coords(R), border_coords(P)
    if len(bR) == 0 or len(bP) == 0:
        return float("nan")
    a = np.sqrt(directed_sq(bP, bR).astype(np.float64)).mean()
    b = np.sqrt(directed_sq(bR, bP).astype(np.float64)).mean()
    return float(np.mean((a, b)))


def overlap_pairs(pred: np.ndarray, ref: np.ndarray):
    """set of (ref_label, pred_label) with a common voxel"""
    m = (pred != 0) & (ref != 0)
    return sorted(set(zip(ref[m].tolist(), pred[m].tolist())))


def beats(metric: str, score, thr) -> bool:
    return score <= thr if DECREASING[metric] else score >= thr


def better_eq(metric: str, a, b) -> bool:
    return a <= b if DECREASING[metric] else a >= b


def near(a, b, tol=1e-9) -> bool:
    return a != b and abs(float(a) - float(b)) <= tol * max(1.0, abs(float(a)), abs(float(b)))


def check_matching(pred, ref, metric, thr, m2o, lmap: dict):
    """C03 validity of a label map {pred: ref}. Returns (list of failures, fragile?, info)."""
    fails, fragile = [], False
    cands = {}
    for (r, p) in overlap_pairs(pred, ref):
        s = mask_score(metric, ref == r, pred == p)
        cands[(p, r)] = s
        if metric == "ASSD" and near(s, thr):
            fragile = True
    elig = {k: s for k, s in cands.items() if beats(metric, s, thr)}
    refs = list(lmap.values())
    if not m2o and len(refs) != len(set(refs)):
        fails.append(f"reference assigned to two predictions without many-to-one: {lmap}")
    for p, r in lmap.items():
        if (p, r) not in cands:
            fails.append(f"assigned pair pred {p}/ref {r} does not overlap")
        elif (p, r) not in elig:
            fails.append(f"assigned pair pred {p}/ref {r} has score {cands[(p, r)]} which does not meet threshold {thr}")
    assigned_refs = set(refs)
    for (p, r), s in elig.items():
        if lmap.get(p) == r:
            continue
        p_in, r_in = p in lmap, r in assigned_refs
        if not (p_in or (not m2o and r_in)):
            fails.append(f"pair ref {r}/pred {p} has score {s} which meets the threshold but both partners were left unassigned")
            continue
        # best-first: some conflicting result pair is at least as good
        ok = False
        for p2, r2 in lmap.items():
            if (p2 == p or (not m2o and r2 == r)) and (p2, r2) in cands:
                s2 = cands[(p2, r2)]
                if better_eq(metric, s2, s) or (metric == "ASSD" and near(s2, s)):
                    ok = True
        if not ok:
            fails.append(f"eligible pair ref {r}/pred {p} (score {s}) displaced only by worse-scoring pairs")
    # information for non-triviality / ties
    comp = 0
    tie = False
    keys = list(elig)
    for a, b in itertools.combinations(keys, 2):
        if a[0] == b[0] or a[1] == b[1]:
            comp += 1
            if elig[a] == elig[b] or (metric == "ASSD" and near(elig[a], elig[b])):
                tie = True
    exact_hit = any(s == thr for s in cands.values())
    return fails, fragile, {"competing": comp, "tie": tie, "exact_hit": exact_hit, "n_cands": len(cands), "n_elig": len(elig)}


def components(arr: np.ndarray, full: bool, label_aware: bool):
    """independent flood fill: list of components (frozensets of coordinates) of the non-zero voxels"""
    fg = {tuple(c): int(arr[tuple(c)]) for c in np.argwhere(arr != 0)}
    nd = arr.ndim
    if full:
        offs = [o for o in itertools.product((-1, 0, 1), repeat=nd) if any(o)]
    else:
        offs = []
        for ax in range(nd):
            for s in (-1, 1):
                o = [0] * nd
                o[ax] = s
                offs.append(tuple(o))
    seen, comps = set(), []
    for start in sorted(fg):
        if start in seen:
            continue
        comp, stack = set(), [start]
        seen.add(start)
        while stack:
            c = stack.pop()
            comp.add(c)
            for o in offs:
                n = tuple(a + b for a, b in zip(c, o))
                if n in fg and n not in seen and (not label_aware or fg[n] == fg[c]):
                    seen.add(n)
                    stack.append(n)
        comps.append(frozenset(comp))
    return comps


def partition_of(lab: np.ndarray):
    d = {}
    for c in np.argwhere(lab != 0):
        d.setdefault(int(lab[tuple(c)]), set()).add(tuple(c))
    return d


def spec_pipeline(pred, ref, input_type, backend_eff, matcher, decision, metrics):
    """The documented definitions applied directly to the voxel sets (independent of the library and
    of the Lean model).  Returns None when the documented procedure does not determine the answer
    uniquely (competing eligible candidates with equal score, or a float-fragile comparison)."""
    from fractions import Fraction

    def inst(a):
        if input_type != "SEMANTIC":
            return {l: (a == l) for l in np.unique(a).tolist() if l != 0}
        full = backend_eff == "cc3d"
        out = {}
        for k, comp in enumerate(components(a, full=full, label_aware=full)):
            m = np.zeros(a.shape, bool)
            for c in comp:
                m[c] = True
            out[k + 1] = m
        return out
    P, R = inst(pred), inst(ref)
    n_pred, n_ref = len(P), len(R)
    pairs = []
    if input_type == "MATCHED":
        pairs = [(l, l) for l in sorted(P) if l in R]
    elif P and R:
        metric, thr, m2o = matcher
        t = Fraction(*thr) if metric != "ASSD" else thr[0] / thr[1]
        cands = []
        for p, pm in P.items():
            for r, rm in R.items():
                if (pm & rm).any():
                    s = mask_score(metric, rm, pm)
                    if metric == "ASSD" and near(s, t):
                        return None
                    if beats(metric, s, t):
                        cands.append((s, p, r))
        for a, b in itertools.combinations(cands, 2):
            if (a[1] == b[1] or a[2] == b[2]) and (a[0] == b[0] or (metric == "ASSD" and near(a[0], b[0]))):
                return None
        cands.sort(key=lambda c: c[0], reverse=not DECREASING[metric])
        up, ur = set(), set()
        for s, p, r in cands:
            if p in up or r in ur:
                continue
            up.add(p)
            ur.add(r)
            pairs.append((p, r))
    lists = {m: [] for m in metrics}
    tp = 0
    for p, r in pairs:
        vals = {m: mask_score(m, R[r], P[p]) for m in metrics}
        if decision is not None:
            dm, dt = decision
            t = Fraction(*dt) if dm != "ASSD" else dt[0] / dt[1]
            if dm == "ASSD" and near(vals[dm], t):
                return None
            if not beats(dm, vals[dm], t):
                continue
        tp += 1
        for m in metrics:
            lists[m].append(vals[m])
    return {"n_pred": n_pred, "n_ref": n_ref, "tp": tp, "fp": n_pred - tp, "fn": n_ref - tp, "lists": lists}



def near_tie_scene(rng, target=(0.22, 0.3)):
    """1-D scene: one prediction run overlapping two reference runs A and B whose IoUs are *adjacent fractions*
    ia/uA and ib/uB with |ia/uA - ib/uB| = 1/(uA*uB) < 3e-7 (unions of 1800-6000 voxels). Returns (pred, ref_labels_AB)
    as arrays builder: (pred, ref_with(la, lb)), plus which of A/B has the larger IoU."""
    from math import gcd
    for _ in range(2000):
        uA = rng.randint(1800, 2600)
        ia = rng.randint(int(target[0] * uA), int(target[1] * uA))
        if gcd(ia, uA) != 1:
            continue
        # solve ia*q - uA*pp = 1  (pp/q is the left neighbour of ia/uA in the Farey sequence)
        q = pow(ia, -1, uA)            # ia*q = 1 (mod uA), 0 < q < uA
        pp = (ia * q - 1) // uA
        k = rng.choice([1, 1, 2])
        ib, uB = k * ia + pp, k * uA + q
        if not (0 < ib < uB) or uB > 6500:
            continue
        # geometry: prediction run of length p; A overlaps its left end by ia, B its right end by ib
        lo = max(ia + ib, 1)
        hi = min(uA, uB)
        if lo > hi:
            continue
        p = rng.randint(lo, hi)
        a_len, b_len = uA - p + ia, uB - p + ib
        if a_len < ia or b_len < ib:
            continue
        L = (a_len - ia) + p + (b_len - ib) + 4
        s0 = 2

        def build(la, lb):
            ref = np.zeros(L, np.uint16)
            pred = np.zeros(L, np.uint16)
            ref[s0:s0 + a_len] = la
            ps = s0 + a_len - ia
            pred[ps:ps + p] = 7
            ref[ps + p - ib:ps + p - ib + b_len] = lb
            return pred.reshape(1, L), ref.reshape(1, L)
        fa, fb = Fraction(ia, uA), Fraction(ib, uB)
        assert fa != fb and abs(fa - fb) < Fraction(1, 3_000_000)
        return build, ("A" if fa > fb else "B"), float(abs(fa - fb))
    return None
