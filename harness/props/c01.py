"""C01 — reported panoptic results equal the published definitions, end to end."""
from __future__ import annotations
from fractions import Fraction
import math
import numpy as np
import scale, impl, gen, oracle, evalutil as E
from common import close, same_value

RULE = ("backend sweeps on one evaluator (cca_backend re-assigned between evaluations); maps with an axis of length one; long-array corpus (oracle only): matched instances 25k-100k voxels apart along one axis; metric-selection variants (duplicated metrics, centre-line Dice first/middle/last, reorderings: every other value must be unchanged); 1-D/2-D/3-D label-map pairs built from objects (touching, diagonal, split, merged, shifted, border instances, "
        "up to 24 instances per side) x input type {SEMANTIC, UNMATCHED, MATCHED} x matching metric {IOU, DSC, ASSD} x "
        "thresholds (grid + exact hits) x optional decision metric/threshold x backends {default, cc3d, scipy}; every "
        "result compared (a) with an independent implementation of the documented definitions on the voxel sets whenever "
        "those determine the answer uniquely and (b) with the Lean pipeline model; exhaustive {0,1,2}-maps of shape 1x3 "
        "(quick) / 1x4 (thorough); non-trivial = >= 1 candidate pair and (>= 2 competing candidates, a diagonal contact, "
        "an exact-threshold score or a decision-filtered instance)")

GRID = {"IOU": [(1, 10), (1, 4), (1, 3), (1, 2), (1, 2), (2, 3), (3, 4)], "DSC": [(1, 4), (1, 2), (2, 3), (4, 5)],
        "ASSD": [(1, 2), (1, 1), (2, 1), (5, 1)]}


_EVALS = {}
_HIST = {}


def one_case(ctx, pred, ref, cfg, src, shared=False):
    inp = {"shape": list(pred.shape), "dtype": str(pred.dtype), "pred": gen.arr_json(pred), "ref": gen.arr_json(ref), "cfg": cfg, "src": src}
    ev = None
    if shared:
        # a long-lived evaluator per configuration: results must not depend on what it evaluated before
        import json
        key = json.dumps(cfg, sort_keys=True)
        if key not in _EVALS:
            with impl.quiet():
                _EVALS[key] = impl.mk_evaluator(cfg)
            _HIST[key] = []
        ev = _EVALS[key]
        inp["history_shapes"] = list(_HIST[key][-4:])
        _HIST[key].append(list(pred.shape))
        ctx.count("shared_evaluator_object")
    res = E.run_impl(cfg, pred, ref, evaluator=ev)
    it = cfg["input"]
    eff = cfg.get("backend") or ("cc3d" if pred.ndim >= 3 else "scipy")
    mc = cfg.get("matcher")
    matcher = (mc["metric"], tuple(mc["thr"]["q"]), False) if mc else None
    dec = (cfg["decision"][0], tuple(cfg["decision"][1]["q"])) if cfg.get("decision") else None
    spec = oracle.spec_pipeline(pred, ref, it, eff, matcher, dec, cfg["eval_metrics"])
    if isinstance(res, str):
        ctx.case(inp, False)
        ctx.violation(f"evaluation raised {res}", inp, impl=res, key={"kind": "raises"})
        return
    s = res["ungrouped"]
    nontriv = spec is not None and spec["tp"] + spec["fp"] > 0 and spec["n_ref"] > 0 and (
        spec["fp"] > 0 or spec["fn"] > 0 or dec is not None or it == "SEMANTIC")
    ctx.case(inp, nontriv, sample={k: inp[k] for k in ("shape", "pred", "ref", "cfg")} if pred.size <= 12 else None)
    ctx.count("input." + it)
    if mc:
        ctx.count("matching." + mc["metric"])
    if dec:
        ctx.count("decision." + dec[0])
    if it == "SEMANTIC":
        ctx.count("backend." + str(cfg.get("backend")))
    # ---- (a) the documented definitions
    if spec is None:
        ctx.count("not_uniquely_determined_skipped")
    else:
        fails = []
        for k_impl, k_spec in (("num_pred_instances", "n_pred"), ("num_ref_instances", "n_ref"), ("tp", "tp"), ("fp", "fp"), ("fn", "fn")):
            if s[k_impl] != spec[k_spec]:
                fails.append(f"{k_impl}: library={s[k_impl]} but definitions give {spec[k_spec]}")
        if not fails:
            for m in cfg["eval_metrics"]:
                got = s["list_" + m]
                want = [float(x) for x in spec["lists"][m]]
                if isinstance(got, str) or len(got) != len(want) or any(not close(a, b) for a, b in zip(sorted(got), sorted(want))):
                    fails.append(f"per-TP {m} values: library={got} but definitions give {want}")
                    continue
                sqn, stdn, pqn = E.NAMES[m]
                if spec["tp"] > 0:
                    if not close(float(s[sqn]), float(np.mean(want))):
                        fails.append(f"{sqn}: library={s[sqn]} but definitions give {np.mean(want)}")
                    rq = spec["tp"] / (spec["tp"] + 0.5 * spec["fp"] + 0.5 * spec["fn"])
                    if not close(float(s["rq"]), rq):
                        fails.append(f"rq: library={s['rq']} but definitions give {rq}")
                    if pqn and not close(float(s[pqn]), float(np.mean(want)) * rq):
                        fails.append(f"{pqn}: library={s[pqn]} but definitions give {float(np.mean(want)) * rq}")
        if fails:
            ctx.violation("C01 violated: " + fails[0], inp, impl=s, model={k: (v if k != "lists" else {m: [float(x) for x in l] for m, l in v.items()}) for k, v in spec.items()},
                          key={"kind": "definitions"})
    # ---- (b) the Lean pipeline
    if spec is None and it != "MATCHED":
        return
    mod = E.run_model(ctx, cfg, pred, ref)
    if "error" in mod:
        ctx.disagree("model raises", inp, s, mod)
        return
    diffs = E.compare_result(ctx, inp, s, mod["ok"], cfg)
    if diffs:
        ctx.disagree("result field " + diffs[0][0], inp, str(diffs[0][1]), str(diffs[0][2]), note=str(diffs[:3]))


def rand_cfg(ctx, pred, ref):
    rng = ctx.rng
    it = rng.choice(["SEMANTIC", "SEMANTIC", "UNMATCHED", "UNMATCHED", "MATCHED"])
    metrics = ["IOU", "DSC", "RVD"] + (["ASSD"] if rng.random() < 0.5 else [])
    dec = None
    if rng.random() < 0.35:
        dm = rng.choice([m for m in metrics if m != "RVD"])
        dec = [dm, {"q": list(rng.choice(GRID[dm]))}]
    if it == "MATCHED":
        return E.mk_cfg(it, metrics, decision=dec)
    mm = rng.choice(["IOU", "IOU", "DSC", "ASSD"])
    thr = rng.choice(GRID[mm])
    if mm != "ASSD" and rng.random() < 0.3:
        ov = oracle.overlap_pairs(pred, ref)
        if ov and it == "UNMATCHED":
            r, p = rng.choice(ov)
            sc = oracle.mask_score(mm, ref == r, pred == p)
            thr = (sc.numerator, sc.denominator)
            if rng.random() < 0.5:
                tf = math.nextafter(float(sc), math.inf)        # one float beyond the score: must not match
                if 0.0 < tf <= 1.0:
                    thr = tf.as_integer_ratio()
    if dec is not None and dec[0] != "ASSD" and it == "MATCHED" and rng.random() < 0.5:
        labs = sorted((set(np.unique(pred).tolist()) & set(np.unique(ref).tolist())) - {0})
        if labs:
            l = rng.choice(labs)
            sc = oracle.mask_score(dec[0], ref == l, pred == l)
            tf = math.nextafter(float(sc), math.inf) if rng.random() < 0.5 else float(sc)
            if 0.0 < tf <= 1.0:
                dec = [dec[0], {"q": list(tf.as_integer_ratio())}]
    return E.mk_cfg(it, metrics, matcher=E.naive(mm, thr), decision=dec,
                    backend=rng.choice([None, None, "cc3d", "scipy"]) if it == "SEMANTIC" else None)


POOL = [E.mk_cfg("SEMANTIC", ["IOU", "DSC", "RVD"], matcher=E.naive("IOU", (1, 2))),
        E.mk_cfg("SEMANTIC", ["IOU", "DSC"], matcher=E.naive("DSC", (1, 2)), decision=["IOU", {"q": [1, 2]}]),
        E.mk_cfg("UNMATCHED", ["IOU", "DSC", "RVD"], matcher=E.naive("IOU", (1, 4)))]


def many_instances(rng, n):
    """n separated 2x2 blocks per side, slightly shifted predictions"""
    W = 4 * n + 2
    ref = np.zeros((4, W), np.uint8)
    pred = np.zeros((4, W), np.uint8)
    for k in range(n):
        ref[1:3, 4 * k + 1:4 * k + 3] = k + 1
        dx = rng.choice([0, 0, 1])
        pred[1:3, 4 * k + 1 + dx:4 * k + 3 + dx] = k + 1
    return pred, ref


def corpus(ctx):
    rng = ctx.rng
    for n in (16, 20, 24):
        pred, ref = many_instances(rng, n)
        for it in ("UNMATCHED", "SEMANTIC"):
            one_case(ctx, pred, ref, E.mk_cfg(it, ["IOU", "DSC"], matcher=E.naive("IOU", (1, 2))), f"corpus.many{n}")
        one_case(ctx, (pred > 0).astype(np.uint8), (ref > 0).astype(np.uint8),
                 E.mk_cfg("SEMANTIC", ["IOU", "DSC"], matcher=E.naive("IOU", (1, 2)), backend="cc3d"), f"corpus.many{n}.sem")
    # more than 255 components on one side only (semantic input)
    a = np.zeros((41, 41), np.uint8)
    a[::2, ::2] = 1
    b = np.zeros((41, 41), np.uint8)
    b[4:9, 4:9] = 1
    b[20, 20] = 1
    b[30:33, 30:33] = 1
    for pr, rf in ((a, b), (b, a)):
        one_case(ctx, pr, rf, E.mk_cfg("SEMANTIC", ["IOU", "DSC"], matcher=E.naive("IOU", (1, 10)), backend="scipy"), "corpus.many-components")
    # exactly 255 / 256 / 257 components (the instance map's dtype is chosen from the component count)
    ys, xs = np.nonzero(np.ones((17, 17)))
    for n in (255, 256, 257):
        a = np.zeros((34, 34), np.uint8)
        a[2 * ys[:n], 2 * xs[:n]] = 1
        b = a.copy()
        b[2 * ys[n - 1], 2 * xs[n - 1] + 1] = 1        # the last component is one voxel larger on the other side (IoU 1/2)
        for backend in (None, "cc3d"):
            ctx.count("component_count_at_dtype_boundary")
            one_case(ctx, a, b, E.mk_cfg("SEMANTIC", ["IOU", "DSC"], matcher=E.naive("IOU", (1, 2)), backend=backend), f"corpus.components-{n}")
        one_case(ctx, b, a[:, ::-1].copy(), E.mk_cfg("SEMANTIC", ["IOU"], matcher=E.naive("IOU", (1, 2))), f"corpus.components-{n}.mirrored")
    # a perfectly predicted instance whose two labels sum to 2^bits, far (beyond the crop padding) from everything else
    for dt, (la, lb) in ((np.uint8, (128, 128)), (np.uint8, (100, 156)), (np.uint16, (32768, 32768)), (np.uint8, (255, 1))):
        rw = np.zeros((12, 30), dt)
        pw = np.zeros((12, 30), dt)
        rw[2:6, 2:6], pw[2:6, 2:7] = 3, 3
        rw[4:8, 22:26], pw[4:8, 22:26] = lb, la
        for it in ("SEMANTIC", "UNMATCHED", "MATCHED"):
            if it == "MATCHED" and la != lb:
                continue
            if it == "SEMANTIC":
                rw2, pw2 = np.where(rw > 0, la, 0).astype(dt), np.where(pw > 0, la if la == lb else 256 - la if dt == np.uint8 else 65536 - la, 0).astype(dt)
            else:
                rw2, pw2 = rw, pw
            ctx.count("labels_summing_to_2^bits")
            one_case(ctx, pw2, rw2, E.mk_cfg(it, ["IOU", "DSC"], matcher=E.naive("IOU", (1, 2)) if it != "MATCHED" else None), "corpus.wrap-sum")
    # a decision threshold of exactly zero accepts every matched pair (IoU / Dice) resp. only perfect ones (ASSD)
    ref = np.zeros((1, 30), np.uint8)
    pred = np.zeros((1, 30), np.uint8)
    ref[0, 0:9], ref[0, 12:20] = 1, 2
    pred[0, 0:9], pred[0, 14:22] = 1, 2
    for it in ("MATCHED", "UNMATCHED", "SEMANTIC"):
        for dm in ("IOU", "DSC", "ASSD"):
            ctx.count("decision_threshold_zero")
            one_case(ctx, pred, ref, E.mk_cfg(it, ["IOU", "DSC", "ASSD"], matcher=E.naive("IOU", (1, 4)) if it != "MATCHED" else None, decision=[dm, {"q": [0, 1]}]),
                     "corpus.decision-zero")
    # decision threshold stricter than the matching threshold
    ref = np.zeros((1, 30), np.uint8)
    pred = np.zeros((1, 30), np.uint8)
    for k, (a, b) in enumerate(((0, 9), (10, 19), (20, 29))):
        ref[0, a:b] = k + 1
    pred[0, 0:9] = 1
    pred[0, 10:18] = 2
    pred[0, 20:25] = 3
    for it in ("MATCHED", "UNMATCHED", "SEMANTIC"):
        for dec in (None, ["IOU", {"q": [7, 10]}], ["DSC", {"q": [9, 10]}]):
            one_case(ctx, pred, ref, E.mk_cfg(it, ["IOU", "DSC", "RVD", "ASSD"], matcher=E.naive("IOU", (1, 2)) if it != "MATCHED" else None, decision=dec), "corpus.decision")


def exhaustive(ctx, shape):
    arrs = list(gen.all_small_arrays(shape))
    n = 0
    for ref in arrs:
        for pred in arrs:
            for cfg in (E.mk_cfg("MATCHED", ["IOU", "DSC"]),
                        E.mk_cfg("UNMATCHED", ["IOU", "DSC"], matcher=E.naive("IOU", (1, 2))),
                        E.mk_cfg("SEMANTIC", ["IOU", "DSC"], matcher=E.naive("IOU", (1, 3)))):
                one_case(ctx, pred, ref, cfg, "exh")
                n += 1
    ctx.exhaustive = True
    ctx.extra["exhaustive_space"] = f"all pairs of {{0,1,2}}-maps of shape {shape} x 3 input types ({n} cases)"


def run_cases(ctx, n, tag):
    rng = ctx.rng
    for i in range(n):
        pred, ref = gen.pair(rng, hi=7, max_obj=5)
        if pred.ndim <= 2 and rng.random() < 0.12:
            ax = rng.randint(0, pred.ndim)         # the same maps stored with an axis of length one
            pred, ref = np.expand_dims(pred, ax), np.expand_dims(ref, ax)
            ctx.count("singleton_axis")
        # the same maps stored in any unsigned width (64-bit maps are the ones a widening `astype` need not copy)
        dt = rng.choice([np.uint8, np.uint8, np.uint16, np.uint32, np.uint64, np.uint64])
        pred, ref = pred.astype(dt), ref.astype(dt)
        ctx.count("dtype." + np.dtype(dt).name)
        one_case(ctx, pred, ref, rand_cfg(ctx, pred, ref), f"{tag}{i}")
        if i % 3 == 0:
            # a small pool of fixed configurations whose evaluators live across cases of different dimensionality
            nd = ctx.rng.choice([1, 2, 3])
            p2, r2 = gen.pair(ctx.rng, ndim=nd, hi=6, max_obj=4)
            if ctx.rng.random() < 0.5 and nd >= 2:
                r2 = np.zeros((4,) * nd, np.uint8)
                for k2 in range(ctx.rng.randint(2, 4)):
                    r2[(k2,) * nd] = 1
                p2 = r2.copy()
                p2[(0,) * nd] = 0
            one_case(ctx, p2, r2, POOL[i % len(POOL)], f"{tag}{i}.shared", shared=True)


def selection_cases(ctx, n):
    """what is reported for one metric must not depend on which other metrics were requested, in which order, or
    how often a metric is named (3-D scenes so that centre-line Dice can be one of the others)"""
    rng = ctx.rng
    for i in range(n):
        three_d = rng.random() < 0.6
        pred, ref = gen.pair(rng, ndim=3 if three_d else rng.choice([1, 2]), hi=7, max_obj=4, allow_empty=False)
        it = rng.choice(["MATCHED", "UNMATCHED", "SEMANTIC"])
        base = rng.sample(["IOU", "DSC", "RVD", "ASSD"], rng.randint(2, 4))
        dec = None
        if rng.random() < 0.4:
            dm = rng.choice([m for m in base if m != "RVD"] or ["IOU"])
            if dm not in base:
                base.append(dm)
            dec = [dm, {"q": list(rng.choice(GRID[dm]))}]
        cfg = E.mk_cfg(it, base, matcher=None if it == "MATCHED" else E.naive("IOU", rng.choice([(1, 10), (1, 2)])), decision=dec)
        variants = E.selection_variants(rng, base, allow_cldsc=pred.ndim >= 2)
        inp = {"shape": list(pred.shape), "dtype": str(pred.dtype), "pred": gen.arr_json(pred), "ref": gen.arr_json(ref), "cfg": cfg,
               "variants": variants, "src": f"selection{i}"}
        inv, book, ran = E.selection_failures(cfg, pred, ref, variants)
        ctx.case(inp, ran > 0)
        ctx.count("metric_selection_variants", ran)
        if inv or book:
            ctx.violation("C01 violated: a reported value depends on the other requested metrics: " + (inv + book)[0], inp,
                          impl=(inv + book)[:5], key={"kind": "metric-selection"})


def reassigned_backend_cases(ctx, n):
    """one evaluator re-used for a backend sweep: the approximator's public attribute cca_backend is re-assigned between
    evaluations; every evaluation must follow the backend that is selected at that moment"""
    from panoptica import Panoptica_Evaluator, ConnectedComponentsInstanceApproximator
    rng = ctx.rng
    for i in range(n):
        nd = rng.choice([2, 3])
        first = rng.choice([None, "cc3d", "scipy"])
        cfg = E.mk_cfg("SEMANTIC", ["IOU", "DSC"], matcher=E.naive("IOU", (1, 2)), backend=first)
        with impl.quiet():
            ap = ConnectedComponentsInstanceApproximator(cca_backend=impl.BACKEND[first])
            ev = Panoptica_Evaluator(expected_input=impl.INPUT["SEMANTIC"], instance_approximator=ap, instance_matcher=impl.mk_matcher(cfg["matcher"]),
                                     instance_metrics=[impl.METRICS[m] for m in cfg["eval_metrics"]], global_metrics=[])
        hist = []
        for step in range(rng.randint(2, 4)):
            sel = rng.choice([None, "cc3d", "scipy"])
            ap.cca_backend = impl.BACKEND[sel]
            # diagonal contacts: the two connectivities disagree
            shape = (rng.randint(4, 6),) * nd
            ref = np.zeros(shape, np.uint8)
            for t in range(rng.randint(2, shape[0])):
                ref[(t,) * nd] = 1
            ref[(shape[0] - 1,) + (0,) * (nd - 1)] = 1
            pred = ref.copy()
            pred[(0,) * nd] = 0
            eff = sel or ("cc3d" if nd >= 3 else "scipy")
            cfg_now = dict(cfg)
            cfg_now["backend"] = sel
            inp = {"shape": list(shape), "dtype": "uint8", "pred": gen.arr_json(pred), "ref": gen.arr_json(ref), "cfg": cfg_now,
                   "constructed_with": first, "history": list(hist), "src": f"sweep{i}.{step}"}
            hist.append(sel)
            ctx.case(inp, sel != first)
            ctx.count("backend_reassigned_after_construction")
            res = E.run_impl(cfg_now, pred, ref, evaluator=ev)
            spec = oracle.spec_pipeline(pred, ref, "SEMANTIC", eff, ("IOU", (1, 2), False), None, cfg["eval_metrics"])
            if isinstance(res, str) or spec is None:
                continue
            s_ = res["ungrouped"]
            for k_impl, k_spec in (("num_pred_instances", "n_pred"), ("num_ref_instances", "n_ref"), ("tp", "tp")):
                if s_[k_impl] != spec[k_spec]:
                    ctx.violation(f"C01 violated after re-selecting the backend ({first} at construction, {sel} now): {k_impl} = {s_[k_impl]}, "
                                  f"but the documented definitions with backend {eff} give {spec[k_spec]}", inp, impl=s_, key={"kind": "definitions"})
                    break


def scale_recipes():
    """matched instances whose two parts / whose partner lie further apart than sqrt(2^31) or 2^16 voxels along one
    axis; a 2-D strip"""
    out = []
    for n in (50021, 70001, 100003):
        out.append({"kind": "runs", "shape": [n], "dtype": "uint8", "ref_runs": [[3, 9, 1], [30, 11, 2]],
                    "pred_runs": [[5, 9, 1], [30, 11, 2], [n - 20, 6, 2]]})
    out.append({"kind": "runs", "shape": [2, 66001], "dtype": "uint8", "ref_runs": [[1, 5, 7]], "pred_runs": [[66001 + 65990, 5, 7]]})
    return out


def scale_case(ctx, rec, src):
    """oracle only: per-instance IoU / Dice / ASSD of a matched pair against exact integer arithmetic"""
    pred, ref = scale.build(rec)
    cfg = E.mk_cfg("MATCHED", ["IOU", "DSC", "ASSD"])
    inp = {"recipe": rec, "cfg": cfg, "src": src}
    ctx.case(inp, True)
    ctx.count("scale_oracle_only")
    res = E.run_impl(cfg, pred, ref)
    if isinstance(res, str):
        ctx.violation(f"evaluation raised {res} on a long array", inp, impl=res, key={"kind": "raises"})
        return
    s = res["ungrouped"]
    labs = sorted((set(np.unique(pred).tolist()) & set(np.unique(ref).tolist())) - {0})
    psize, rsize, inter = scale.contingency(pred, ref)
    want = {"IOU": sorted(float(scale.pair_score("IOU", psize, rsize, inter, l, [l])) for l in labs),
            "DSC": sorted(float(scale.pair_score("DSC", psize, rsize, inter, l, [l])) for l in labs),
            "ASSD": sorted(scale.assd_exact(ref == l, pred == l) for l in labs)}
    for m in ("IOU", "DSC", "ASSD"):
        got = s["list_" + m]
        if isinstance(got, str) or len(got) != len(want[m]) or any(not close(a, b) for a, b in zip(sorted(got), want[m])):
            ctx.violation(f"C01 violated on a long array: per-TP {m} values: library={got} but definitions give {want[m]}", inp,
                          impl=s, key={"kind": "definitions"})
            return


def run(ctx):
    corpus(ctx)
    for k, rec in enumerate(scale_recipes()):
        scale_case(ctx, rec, f"scale{k}")
    selection_cases(ctx, ctx.scale(40, 400))
    reassigned_backend_cases(ctx, ctx.scale(25, 250))
    exhaustive(ctx, (1, 3) if ctx.quick else (1, 4))
    run_cases(ctx, ctx.scale(700, 8000), "rand")


def search(ctx):
    run_cases(ctx, ctx.scale(1500, 6000), "search")


def replay(ctx, rec):
    if "recipe" in rec["input"]:
        scale_case(ctx, rec["input"]["recipe"], "replay")
        return
    if "constructed_with" in rec["input"]:
        reassigned_backend_cases(ctx, 60)
        return
    if "variants" in rec["input"]:
        i = rec["input"]
        pred = np.array(i["pred"], dtype=np.dtype(i["dtype"])).reshape(i["shape"])
        ref = np.array(i["ref"], dtype=np.dtype(i["dtype"])).reshape(i["shape"])
        inv, book, ran = E.selection_failures(i["cfg"], pred, ref, i["variants"])
        ctx.case(i, True)
        if inv or book:
            ctx.violation("C01 violated: a reported value depends on the other requested metrics: " + (inv + book)[0], i,
                          impl=(inv + book)[:5], key={"kind": "metric-selection"})
        return
    i = rec["input"]
    dt = np.dtype(i.get("dtype", "uint8"))
    one_case(ctx, np.array(i["pred"], dtype=dt).reshape(i["shape"]), np.array(i["ref"], dtype=dt).reshape(i["shape"]), i["cfg"], "replay")
