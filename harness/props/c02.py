"""C02 — result bookkeeping: tp/fp/fn, per-TP lists and sq/rq/pq are mutually consistent."""
from __future__ import annotations
from fractions import Fraction
import math
import numpy as np
import impl, gen, oracle, evalutil as E
from impl import quiet, PanopticaResult, Metric, MetricMode
from common import rval_to_py, same_value, close

RULE = ("modular entry points (evaluate_matched_instance called directly with the decision metric given or left at its default; a matched pair from the intermediate steps evaluated again with panoptic_evaluate); metric-selection variants (a metric named twice, centre-line Dice among the metrics in 3-D incl. pairs with a 0/0 centre-line Dice: every requested list has exactly tp entries, counts unchanged); object-based label-map pairs x input type {MATCHED, UNMATCHED} x matcher {threshold, threshold+many-to-one, merge} "
        "x matching metric/threshold x decision metric {none, IOU, DSC, ASSD} x decision threshold (grid + exact hits); "
        "plus directly constructed results over (num_ref, num_pred, tp, value lists) incl. inconsistent ones; "
        "non-trivial = tp >= 1 with at least one instance on each side of a decision threshold, or a direct "
        "construction with non-empty lists")

DEC = {"IOU": [(1, 4), (1, 2), (3, 5), (3, 4), (9, 10)], "DSC": [(1, 2), (2, 3), (4, 5), (9, 10)],
       "ASSD": [(1, 4), (1, 2), (1, 1), (2, 1)]}


def pipeline_case(ctx, pred, ref, cfg, src):
    inp = {"shape": list(pred.shape), "dtype": str(pred.dtype), "pred": gen.arr_json(pred), "ref": gen.arr_json(ref),
           "cfg": cfg, "src": src}
    res = E.run_impl(cfg, pred, ref)
    if isinstance(res, str):
        ctx.case(inp, False)
        ctx.count("impl_error." + res)
        mod = E.run_model(ctx, cfg, pred, ref)
        if "ok" in mod:
            ctx.disagree("evaluate raised", inp, res, "model returns a result")
        return
    summ = res["ungrouped"]
    # ---- oracle: bookkeeping identities on the implementation's own result
    fails = E.check_bookkeeping(summ, cfg["eval_metrics"])
    nontriv = False
    dec = cfg.get("decision")
    if cfg["input"] == "MATCHED":
        labs_p = set(np.unique(pred).tolist()) - {0}
        labs_r = set(np.unique(ref).tolist()) - {0}
        if summ["num_pred_instances"] != len(labs_p) or summ["num_ref_instances"] != len(labs_r):
            fails.append("instance counts differ from the number of labels in the input maps")
        matched = sorted(labs_p & labs_r)
        passing, failing, fragile = 0, 0, False
        for l in matched:
            if dec is None:
                passing += 1
                continue
            s = oracle.mask_score(dec[0], ref == l, pred == l)
            t = Fraction(*dec[1]["q"]) if dec[0] != "ASSD" else dec[1]["q"][0] / dec[1]["q"][1]
            if dec[0] == "ASSD" and oracle.near(s, t):
                fragile = True
            if oracle.beats(dec[0], s, t):
                passing += 1
            else:
                failing += 1
        nontriv = passing >= 1 and failing >= 1
        if not fragile and summ["tp"] != passing:
            fails.append(f"tp={summ['tp']} but {passing} matched instances pass the decision threshold "
                         f"({failing} fail and must count as fp and fn)")
    else:
        labs_p = set(np.unique(pred).tolist()) - {0}
        labs_r = set(np.unique(ref).tolist()) - {0}
        if cfg["input"] == "SEMANTIC":
            # the instances of a semantic map are its connected components (independent flood fill), not its label values
            eff = cfg.get("backend") or ("cc3d" if pred.ndim >= 3 else "scipy")
            labs_p = set(range(len(oracle.components(pred, eff == "cc3d", eff == "cc3d")))) if pred.size <= 4096 else None
            labs_r = set(range(len(oracle.components(ref, eff == "cc3d", eff == "cc3d")))) if ref.size <= 4096 else None
        if labs_r is None or labs_p is None:
            pass
        elif summ["num_ref_instances"] != len(labs_r):
            fails.append(f"num_ref_instances {summ['num_ref_instances']} differs from the {len(labs_r)} reference instances of the input")
        one2one = cfg["matcher"]["kind"] == "naive" and not cfg["matcher"]["m2o"]
        if labs_p is not None and labs_r is not None and (one2one or not labs_p or not labs_r) and summ["num_pred_instances"] != len(labs_p):
            fails.append(f"num_pred_instances {summ['num_pred_instances']} differs from the {len(labs_p)} prediction labels")
        nontriv = summ["tp"] >= 1 and dec is not None and summ["tp"] < min(summ["num_pred_instances"], summ["num_ref_instances"])
    ctx.case(inp, nontriv, sample={k: inp[k] for k in ("shape", "pred", "ref", "cfg")} if pred.size <= 16 else None)
    ctx.count("input." + cfg["input"])
    ctx.count("decision." + (dec[0] if dec else "none"))
    if cfg.get("matcher"):
        ctx.count("matcher." + cfg["matcher"]["kind"] + (".m2o" if cfg["matcher"].get("m2o") else ""))
    if fails:
        ctx.violation("result bookkeeping inconsistent: " + fails[0], inp, impl=summ, key={"kind": "bookkeeping"})
    # ---- correspondence
    mod = E.run_model(ctx, cfg, pred, ref)
    if "error" in mod:
        ctx.disagree("model raises", inp, summ, mod)
        return
    diffs = E.compare_result(ctx, inp, summ, mod["ok"], cfg)
    if diffs:
        ctx.disagree("result field " + diffs[0][0], inp, {"impl": str(diffs[0][1])}, {"model": str(diffs[0][2])},
                     note=str(diffs[:4]))


def direct_case(ctx, n_ref, n_pred, tp, lists, handler, src):
    inp = {"n_ref": n_ref, "n_pred": n_pred, "tp": tp, "lists": lists, "handler": handler, "src": src}
    ctx.case(inp, any(len(v) for _, v in lists), sample=inp)
    ctx.count("direct")
    lm = {impl.METRICS[m]: [q[0] / q[1] for q in vals] for m, vals in lists}
    with quiet(), np.errstate(all="ignore"):
        r = PanopticaResult(reference_arr=None, prediction_arr=None, num_pred_instances=n_pred, num_ref_instances=n_ref,
                            tp=tp, list_metrics=lm, edge_case_handler=impl.mk_handler(handler))
        r.calculate_all()
        summ = impl.result_summary(r, [m for m, _ in lists])
    mod = ctx.driver().ask({"op": "result", "n_ref": n_ref, "n_pred": n_pred, "tp": tp, "lists": lists, "handler": handler})
    # oracle: definitions
    if summ["fp"] != n_pred - tp or summ["fn"] != n_ref - tp:
        ctx.violation(f"fp/fn {summ['fp']},{summ['fn']} are not num_pred-tp, num_ref-tp", inp, impl=summ, key={"kind": "fp-fn"})
    if tp > 0 and tp <= min(n_ref, n_pred):
        rq = tp / (tp + 0.5 * (n_pred - tp) + 0.5 * (n_ref - tp))
        if isinstance(summ["rq"], str) or not close(float(summ["rq"]), rq):
            ctx.violation(f"rq {summ['rq']} != {rq}", inp, impl=summ, key={"kind": "rq"})
        for m, vals in lists:
            if len(vals) == tp:
                fl = [q[0] / q[1] for q in vals]
                sqn, stdn, pqn = E.NAMES[m]
                if isinstance(summ[sqn], str) or not close(float(summ[sqn]), float(np.average(fl))):
                    ctx.violation(f"{sqn} {summ[sqn]} is not the mean of its list", inp, impl=summ, key={"kind": "sq"})
                if isinstance(summ[stdn], str) or not close(float(summ[stdn]), float(np.std(fl))):
                    ctx.violation(f"{stdn} {summ[stdn]} is not the std of its list", inp, impl=summ, key={"kind": "std"})
                if pqn and (isinstance(summ[pqn], str) or not close(float(summ[pqn]), float(summ[sqn]) * float(summ["rq"]))):
                    ctx.violation(f"{pqn} {summ[pqn]} != {sqn}*rq", inp, impl=summ, key={"kind": "pq"})
    # correspondence
    if summ["fp"] != mod["fp"] or summ["fn"] != mod["fn"]:
        ctx.disagree("fp/fn", inp, summ, mod)
    if not same_value(None if isinstance(summ["rq"], str) else summ["rq"], rval_to_py(mod["rq"]), exact=True):
        if not (isinstance(summ["rq"], str) and mod["rq"] == "nan"):
            ctx.disagree("rq", inp, summ["rq"], mod["rq"])
    for m, vals in lists:
        sqn, stdn, pqn = E.NAMES[m]
        mm = mod["metrics"][m]
        sq_m = mm["sq"]
        if isinstance(sq_m, dict):
            continue
        if not isinstance(summ[sqn], str) and not same_value(summ[sqn], rval_to_py(sq_m)):
            ctx.disagree(sqn, inp, summ[sqn], sq_m)
        sv = rval_to_py(mm["sq_std_sq"])
        if len(vals) > 0 and sv is not None:
            sv = math.sqrt(sv)
        if not isinstance(summ[stdn], str) and not same_value(summ[stdn], sv):
            ctx.disagree(stdn, inp, summ[stdn], mm["sq_std_sq"])


def rand_cfg(ctx, pred, ref):
    rng = ctx.rng
    metrics = ["IOU", "DSC"] + (["RVD"] if rng.random() < 0.5 else []) + (["ASSD"] if rng.random() < 0.35 else [])
    dec = None
    if rng.random() < 0.7:
        dm = rng.choice([m for m in metrics if m != "RVD"])
        t = rng.choice(DEC[dm])
        if rng.random() < 0.25 and dm != "ASSD":
            labs = sorted((set(np.unique(pred).tolist()) & set(np.unique(ref).tolist())) - {0})
            if labs:
                l = rng.choice(labs)
                s = oracle.mask_score(dm, ref == l, pred == l)
                t = (s.numerator, s.denominator)
                if rng.random() < 0.5:
                    import math
                    tf = math.nextafter(float(s), math.inf)     # one float beyond the score: must fail
                    if 0.0 < tf <= 1.0:
                        t = tf.as_integer_ratio()
        dec = [dm, {"q": list(t)}]
    kind = rng.choice(["MATCHED", "MATCHED", "UNMATCHED", "UNMATCHED.m2o", "UNMATCHED.merge"])
    if kind == "MATCHED":
        return E.mk_cfg("MATCHED", metrics, decision=dec)
    mm = rng.choice(["IOU", "DSC"])
    thr = rng.choice([(1, 10), (1, 4), (1, 2), (1, 2), (3, 4)])
    if kind == "UNMATCHED":
        return E.mk_cfg("UNMATCHED", metrics, matcher=E.naive(mm, thr), decision=dec)
    if kind == "UNMATCHED.m2o":
        return E.mk_cfg("UNMATCHED", metrics, matcher=E.naive(mm, thr, True), decision=dec)
    return E.mk_cfg("UNMATCHED", metrics, matcher=E.merge(mm, thr), decision=dec)


def corpus(ctx):
    # repaired defect: matched instance failing the decision threshold was still counted as TP
    ref = np.zeros((1, 10), np.uint8)
    pred = np.zeros((1, 10), np.uint8)
    ref[0, :5] = 1
    pred[0, 4:9] = 1
    ref[0, 9] = 2
    pred[0, 9] = 2
    for dm, t in (("IOU", (1, 2)), ("DSC", (1, 2)), ("IOU", (1, 9))):
        pipeline_case(ctx, pred, ref, E.mk_cfg("MATCHED", ["IOU", "DSC"], decision=[dm, {"q": list(t)}]), "corpus.decision-fails")
    # matched input evaluated by an evaluator that also carries a matcher (never run for matched input) on the decision metric: the
    # decision threshold still decides
    for mt in (E.naive("IOU", (1, 2)), E.naive("IOU", (3, 4)), E.merge("IOU", (1, 2)), E.naive("DSC", (1, 2))):
        for dm, t in (("IOU", (1, 2)), ("DSC", (2, 3))):
            ctx.count("matched_input_with_an_unused_matcher")
            pipeline_case(ctx, pred, ref, E.mk_cfg("MATCHED", ["IOU", "DSC"], matcher=mt, decision=[dm, {"q": list(t)}]), "corpus.decision-with-unused-matcher")
    # a decision threshold of exactly zero, configured on the evaluator: IoU / Dice accept every matched pair, ASSD only perfect ones
    r0 = np.zeros((1, 30), np.uint8)
    p0 = np.zeros((1, 30), np.uint8)
    r0[0, 0:9], r0[0, 12:20], r0[0, 24:28] = 1, 2, 3
    p0[0, 0:9], p0[0, 14:22], p0[0, 25:29] = 1, 2, 3
    for it in ("MATCHED", "UNMATCHED"):
        for dm in ("IOU", "DSC", "ASSD"):
            ctx.count("decision_threshold_zero")
            pipeline_case(ctx, p0, r0, E.mk_cfg(it, ["IOU", "DSC", "ASSD"], matcher=E.naive("IOU", (1, 4)) if it != "MATCHED" else None, decision=[dm, {"q": [0, 1]}]),
                          "corpus.decision-zero")
    # every prediction matched, a missed reference with the largest label (>= 2^8 / 2^16) in a map wide enough for it
    for p, r in gen.missed_large_reference_scenes():
        ctx.count("missed_reference_with_the_largest_label")
        for mt in (E.naive("IOU", (1, 2)), E.merge("IOU", (1, 2))):
            pipeline_case(ctx, p, r, E.mk_cfg("UNMATCHED", ["IOU", "DSC"], matcher=mt), "corpus.missed-large-reference")
    # three to five congruent instance pairs (all per-instance values equal: 4/5, 3/5, 2/3, 5/7): the standard deviation of equal values is zero,
    # which a one-pass formula (mean of squares minus square of the mean) misses by cancellation
    for inter, union_extra in ((4, 1), (3, 2), (2, 1), (5, 2)):
        for n in (3, 4, 5):
            w = inter + union_extra
            ref = np.zeros((1, n * (w + 2)), np.uint8)
            pred = np.zeros((1, n * (w + 2)), np.uint8)
            for k in range(n):
                ref[0, k * (w + 2):k * (w + 2) + w] = k + 1
                pred[0, k * (w + 2):k * (w + 2) + inter] = k + 1          # IoU = Dice-related value inter / w for every instance
            ctx.count("all_per_instance_values_equal")
            pipeline_case(ctx, pred, ref, E.mk_cfg("MATCHED", ["IOU", "DSC", "RVD", "ASSD"]), "corpus.equal-values")
            pipeline_case(ctx, pred, ref, E.mk_cfg("UNMATCHED", ["IOU", "DSC"], matcher=E.naive("IOU", (1, 4))), "corpus.equal-values")
    # 3-D semantic input, one side empty, the other holding several components of one class: fp / fn are the component counts
    v = np.zeros((4, 6, 6), np.uint8)
    v[0, 0, 0] = v[2, 3, 3] = v[3, 5, 0:2] = 1
    v[0, 4:6, 4:6] = 1
    for p3, r3 in ((v, np.zeros_like(v)), (np.zeros_like(v), v)):
        for b in (None, "cc3d", "scipy"):
            ctx.count("one_side_empty_several_components_3d")
            pipeline_case(ctx, p3, r3, E.mk_cfg("SEMANTIC", ["IOU", "DSC"], matcher=E.naive("IOU", (1, 2)), backend=b), "corpus.3d-one-side-empty")
    single_group_matched_case(ctx)
    # unmatched input, exactly one side empty (fp/fn must not be exchanged)
    e = np.zeros((4, 4), np.uint8)
    f = e.copy()
    f[0, 0] = 1
    f[2:4, 2:4] = 2
    for p, r in ((e, f), (f, e), (e, e)):
        pipeline_case(ctx, p, r, E.mk_cfg("UNMATCHED", ["IOU", "DSC"], matcher=E.naive("IOU", (1, 2))), "corpus.one-side-empty")
        pipeline_case(ctx, p, r, E.mk_cfg("MATCHED", ["IOU", "DSC"]), "corpus.one-side-empty")


def single_group_matched_case(ctx):
    """matched input and a single-instance group: the instances carry their correspondence already, nothing is converted, and the
    configured decision threshold decides — an organ predicted with IoU 1/4 against a threshold of 1/2 is fp and fn"""
    ref = np.zeros((3, 12), np.uint8)
    pred = np.zeros((3, 12), np.uint8)
    ref[0, 0:8] = 1
    pred[0, 6:10] = 1          # IoU 2/10
    ref[2, 0:4], pred[2, 0:4] = 2, 2
    groups = [{"name": "organ", "labels": [1], "merge": False, "single": True}, {"name": "lesions", "labels": [2], "merge": False, "single": False}]
    cfg = E.mk_cfg("MATCHED", ["IOU", "DSC"], decision=["IOU", {"q": [1, 2]}])
    res = E.run_impl(cfg, pred, ref, groups=groups)
    inp = {"shape": [3, 12], "dtype": "uint8", "pred": gen.arr_json(pred), "ref": gen.arr_json(ref), "cfg": cfg, "groups": groups, "single_group_matched": True}
    ctx.case(inp, True)
    ctx.count("single_instance_group_with_matched_input")
    if isinstance(res, str):
        ctx.violation(f"grouped evaluation raised {res}", inp, key={"kind": "raises"})
        return
    s = res["organ"]
    if (s["tp"], s["fp"], s["fn"]) != (0, 1, 1) or (not isinstance(s["list_IOU"], str) and len(s["list_IOU"]) != 0):
        ctx.violation(f"result bookkeeping inconsistent: matched input, single-instance group: the organ's IoU 0.2 fails the decision threshold 0.5 but tp/fp/fn = "
                      f"{s['tp']}/{s['fp']}/{s['fn']} with IoU list {s['list_IOU']}", inp, impl=s, key={"kind": "bookkeeping"})


def grouped_cases(ctx, n):
    """class groups (a single-instance group listed before a plain group) + decision threshold above the matching
    threshold: in every group an instance failing the decision threshold is fp and fn, never tp"""
    rng = ctx.rng
    for k in range(n):
        W = 14
        ref = np.zeros((4, W), np.uint8)
        pred = np.zeros((4, W), np.uint8)
        ref[0, 0:4] = 1
        pred[0, 0:rng.randint(2, 4)] = 1
        ref[2, 0:6] = 2
        pred[2, rng.randint(2, 4):8] = 2          # IoU between the two thresholds for most offsets
        ref[2, 9:13] = 3
        pred[2, 9:13] = 3
        groups = [{"name": "organ", "labels": [1], "merge": False, "single": True},
                  {"name": "lesions", "labels": [2, 3], "merge": False, "single": False}]
        if rng.random() < 0.3:
            groups.reverse()
        it = rng.choice(["UNMATCHED", "SEMANTIC"])
        cfg = E.mk_cfg(it, ["IOU", "DSC"], matcher=E.naive("IOU", (1, 5)), decision=["IOU", {"q": [1, 2]}])
        ev = None
        with quiet():
            ev = impl.mk_evaluator(cfg, groups=groups)
        for call in range(2):
            res = E.run_impl(cfg, pred, ref, groups=groups, evaluator=ev)
            inp = {"shape": [4, W], "dtype": "uint8", "pred": gen.arr_json(pred), "ref": gen.arr_json(ref), "cfg": cfg, "groups": groups,
                   "call": call, "src": f"grouped{k}"}
            ctx.case(inp, True)
            ctx.count("grouped_with_single_instance")
            if isinstance(res, str):
                ctx.violation(f"grouped evaluation raised {res}", inp, key={"kind": "raises"})
                break
            s = res["lesions"]
            p_g = np.where(np.isin(pred, [2, 3]), pred, 0).astype(np.uint8)
            r_g = np.where(np.isin(ref, [2, 3]), ref, 0).astype(np.uint8)
            spec = oracle.spec_pipeline(p_g, r_g, it, "scipy", ("IOU", (1, 5), False), ("IOU", (1, 2)), ["IOU", "DSC"])
            fails = E.check_bookkeeping(s, ["IOU", "DSC"])
            if spec is not None and s["tp"] != spec["tp"]:
                fails.append(f"group 'lesions' (evaluate call {call + 1}): tp={s['tp']} but {spec['tp']} instance(s) pass the decision threshold 1/2 "
                             f"(IoU values {[float(x) for x in spec['lists']['IOU']]} pass)")
            if fails:
                ctx.violation("result bookkeeping inconsistent: " + fails[0], inp, impl=s, key={"kind": "bookkeeping"})
                break


def corner_cubes(rng):
    """3-D matched pair in which one instance's prediction and reference are cubes sharing a single corner voxel:
    neither touches the other's centre line, so centre-line Dice is 0/0 for a pair that still counts as a true
    positive under a low IoU decision threshold"""
    n = rng.randint(12, 16)
    ref = np.zeros((n, n, n), np.uint8)
    pred = np.zeros((n, n, n), np.uint8)
    ref[1:4, 1:4, 1:4] = 1
    pred[3:6, 3:6, 3:6] = 1
    a = rng.randint(7, n - 4)
    ref[a:a + 3, a:a + 3, 1:4] = 2
    pred[a:a + 3, a:a + 3, 1:4 + rng.choice([0, 1])] = 2
    return pred, ref


def selection_cases(ctx, n):
    """every requested metric gets exactly tp list entries — also when a metric is named twice, when centre-line
    Dice is among them (3-D) and when a value is NaN; tp/fp/fn do not depend on the metric list"""
    rng = ctx.rng
    for i in range(n):
        if rng.random() < 0.3:
            pred, ref = corner_cubes(rng)
            it, three_d = "MATCHED", True
            ctx.count("cldsc_nan_candidate")
        else:
            three_d = rng.random() < 0.5
            pred, ref = gen.pair(rng, ndim=3 if three_d else rng.choice([1, 2]), hi=7, max_obj=4, allow_empty=False)
            it = rng.choice(["MATCHED", "UNMATCHED"])
        base = rng.sample(["IOU", "DSC", "RVD", "ASSD"], rng.randint(2, 4))
        if "IOU" not in base:
            base.append("IOU")
        dec = ["IOU", {"q": list(rng.choice([(1, 100), (1, 10), (1, 2)]))}] if rng.random() < 0.6 else None
        cfg = E.mk_cfg(it, base, matcher=None if it == "MATCHED" else E.naive("IOU", rng.choice([(1, 10), (1, 2)])), decision=dec)
        variants = E.selection_variants(rng, base, allow_cldsc=pred.ndim >= 2)
        inp = {"shape": list(pred.shape), "dtype": str(pred.dtype), "pred": gen.arr_json(pred), "ref": gen.arr_json(ref), "cfg": cfg,
               "variants": variants, "src": f"selection{i}"}
        inv, book, ran = E.selection_failures(cfg, pred, ref, variants)
        ctx.case(inp, ran > 0)
        ctx.count("metric_selection_variants", ran)
        inv = [f for f in inv if any(k in f for k in (".tp =", ".fp =", ".fn =", ".rq =", "num_"))]
        if book or inv:
            ctx.violation("C02 violated: " + (book + inv)[0], inp, impl=(book + inv)[:5], key={"kind": "metric-selection"})


def modular_cases(ctx, n):
    """the documented modular entry points: evaluate_matched_instance called directly (decision metric given / left at its
    documented default IoU with only a threshold given), and a matched pair taken out of the intermediate steps of one
    evaluation and evaluated again with panoptic_evaluate (e.g. to try another decision threshold)"""
    from panoptica.instance_evaluator import evaluate_matched_instance
    from panoptica.panoptica_evaluator import panoptic_evaluate
    from panoptica.utils.processing_pair import MatchedInstancePair
    from panoptica import Panoptica_Evaluator, InputType
    rng = ctx.rng
    for i in range(n):
        pred, ref = gen.matched_pair(rng, hi=8, max_obj=4)
        if rng.random() < 0.5:
            pads = [(rng.randint(3, 6), rng.randint(0, 3)) for _ in pred.shape]     # foreground well away from the array origin
            pred, ref = np.pad(pred, pads), np.pad(ref, pads)
        labs = sorted((set(np.unique(pred).tolist()) & set(np.unique(ref).tolist())) - {0})
        if not labs:
            continue
        t = rng.choice([(1, 4), (1, 2), (3, 4)])
        thr = t[0] / t[1]
        exp_tp = sum(1 for l in labs if oracle.mask_score("IOU", ref == l, pred == l) >= Fraction(*t))
        form = rng.choice(["direct+default-metric", "direct+metric", "re-evaluate-intermediate-pair"])
        inp = {"shape": list(pred.shape), "dtype": str(pred.dtype), "pred": gen.arr_json(pred), "ref": gen.arr_json(ref), "thr": list(t), "form": form,
               "src": f"modular{i}"}
        ctx.case(inp, 0 < exp_tp < len(labs))
        ctx.count("modular." + form)
        metrics = [Metric.DSC, Metric.IOU]
        try:
            with quiet(), np.errstate(all="ignore"):
                if form == "direct+default-metric":
                    r = evaluate_matched_instance(MatchedInstancePair(pred.copy(), ref.copy()), eval_metrics=metrics, decision_threshold=thr)
                    tp, lists = r.tp, {m.name: list(v) for m, v in r.list_metrics.items()}
                elif form == "direct+metric":
                    r = evaluate_matched_instance(MatchedInstancePair(pred.copy(), ref.copy()), eval_metrics=metrics, decision_metric=Metric.IOU, decision_threshold=thr)
                    tp, lists = r.tp, {m.name: list(v) for m, v in r.list_metrics.items()}
                else:
                    ev = Panoptica_Evaluator(expected_input=InputType.MATCHED_INSTANCE, instance_metrics=metrics, global_metrics=[], verbose=False)
                    _, steps = ev.evaluate(pred.copy(), ref.copy(), verbose=False)["ungrouped"]
                    pair = steps[InputType.MATCHED_INSTANCE.name]
                    if rng.random() < 0.5:
                        pair = pair.copy()
                    res, _ = panoptic_evaluate(pair, instance_metrics=metrics, global_metrics=[], decision_metric=Metric.IOU, decision_threshold=thr)
                    tp = res.tp
                    lists = {m.name: [float(x) for x in res.get_list_metric(m, MetricMode.ALL)] for m in metrics}
        except Exception as e:
            ctx.violation(f"C02 violated: modular call ({form}) raised {type(e).__name__}: {e}", inp, key={"kind": "modular-raises"})
            continue
        fails = []
        if tp != exp_tp:
            fails.append(f"tp = {tp}, but {exp_tp} of the {len(labs)} matched instances have IoU >= {thr}")
        for m, v in lists.items():
            if len(v) != tp:
                fails.append(f"list of {m} has {len(v)} entries but tp = {tp}")
        if fails:
            ctx.violation(f"C02 violated ({form}): " + fails[0], inp, impl={"tp": tp, "lists": lists}, key={"kind": "modular"})


def run(ctx):
    corpus(ctx)
    modular_cases(ctx, ctx.scale(120, 1200))
    selection_cases(ctx, ctx.scale(40, 400))
    grouped_cases(ctx, ctx.scale(10, 80))
    rng = ctx.rng
    for i in range(ctx.scale(700, 7000)):
        pred, ref = gen.pair(rng, hi=7, max_obj=4)
        pipeline_case(ctx, pred, ref, rand_cfg(ctx, pred, ref), f"rand{i}")
    h = E.default_handler_json()
    for i in range(ctx.scale(300, 3000)):
        n_ref, n_pred = rng.randint(0, 6), rng.randint(0, 6)
        tp = rng.randint(0, min(n_ref, n_pred)) if rng.random() < 0.8 else rng.randint(0, 7)
        lists = []
        for m in rng.sample(["IOU", "DSC", "RVD", "ASSD"], rng.randint(1, 3)):
            n = tp if rng.random() < 0.8 else rng.randint(0, 5)
            lists.append([m, [[rng.randint(0, 20), 20] for _ in range(n)]])
        direct_case(ctx, n_ref, n_pred, tp, lists, h, f"direct{i}")


def search(ctx):
    rng = ctx.rng
    for i in range(ctx.scale(1500, 5000)):
        pred, ref = gen.pair(rng, hi=7, max_obj=4)
        pipeline_case(ctx, pred, ref, rand_cfg(ctx, pred, ref), f"search{i}")


def replay(ctx, rec):
    i = rec["input"]
    if i.get("form") in ("direct+default-metric", "direct+metric", "re-evaluate-intermediate-pair"):
        modular_cases(ctx, 150)
        return
    if i.get("single_group_matched"):
        single_group_matched_case(ctx)
        return
    if "variants" in i:
        dt = np.dtype(i["dtype"])
        inv, book, ran = E.selection_failures(i["cfg"], np.array(i["pred"], dtype=dt).reshape(i["shape"]),
                                              np.array(i["ref"], dtype=dt).reshape(i["shape"]), i["variants"])
        ctx.case(i, True)
        inv = [f for f in inv if any(k in f for k in (".tp =", ".fp =", ".fn =", ".rq =", "num_"))]
        if book or inv:
            ctx.violation("C02 violated: " + (book + inv)[0], i, impl=(book + inv)[:5], key={"kind": "metric-selection"})
        return
    if "cfg" in i:
        dt = np.dtype(i.get("dtype", "uint8"))
        pipeline_case(ctx, np.array(i["pred"], dtype=dt).reshape(i["shape"]), np.array(i["ref"], dtype=dt).reshape(i["shape"]), i["cfg"], "replay")
    else:
        direct_case(ctx, i["n_ref"], i["n_pred"], i["tp"], i["lists"], i["handler"], "replay")
