"""C03 — instance matching is a sound, conflict-free, maximal best-first assignment."""
from __future__ import annotations
from fractions import Fraction
import numpy as np
import impl, gen, oracle, scale
from common import frac, score_matches, score_to_float
from impl import quiet, UnmatchedInstancePair, NaiveThresholdMatching, F

RULE = ("large-scale corpus (oracle only, exact integer counts): a 25M-voxel volume with a 2^24+1-voxel instance, a 2^24+65536-voxel volume with an eligible pair only in its C-order tail, a 2.25M-voxel slab, thresholds at a candidate's rounded score and one float above it; two references competing for one prediction with IoUs less than 1e-6 apart (instances of 1000-4000 voxels); overlap graphs built from 1-D run segmentations and 2-D/3-D object maps (predictions spanning k references, "
        "references split into k predictions, shifted/merged instances) x metric {IOU,DSC,ASSD} x thresholds from a "
        "rational grid plus exact-hit thresholds (threshold := exact score of a candidate) plus thresholds one float beyond a candidate score x allow_many_to_one {F,T}; "
        "exhaustive: all pairs of {0,1,2}-label 1x4 (quick) / 1x5,2x2 (thorough) maps; "
        "non-trivial = at least 2 eligible candidates sharing a partner, or a score exactly at the threshold")

GRID = {"IOU": [(0, 1), (1, 10), (1, 5), (1, 4), (1, 3), (2, 5), (1, 2), (3, 5), (2, 3), (3, 4), (4, 5), (1, 1)],
        "DSC": [(0, 1), (1, 10), (1, 4), (1, 3), (1, 2), (11, 20), (3, 5), (5, 8), (2, 3), (3, 4), (4, 5), (9, 10), (1, 1)],
        "ASSD": [(0, 1), (1, 4), (1, 2), (1, 1), (3, 2), (2, 1), (3, 1), (5, 1), (10, 1)]}


def run_segments(rng, L, labels):
    """1-D labelled runs with gaps"""
    a = np.zeros(L, dtype=np.uint8)
    pos = 0
    for l in labels:
        pos += rng.choice([0, 0, 1, 2])
        ln = rng.randint(1, 5)
        a[pos:pos + ln] = l
        pos += ln
        if pos >= L:
            break
    return a


def gen_case(rng):
    r = rng.random()
    if r < 0.45:
        L = rng.randint(6, 24)
        nr, np_ = rng.randint(1, 5), rng.randint(1, 6)
        ref = run_segments(rng, L, rng.sample(range(1, 9), nr)).reshape(1, L)
        pred = run_segments(rng, L, rng.sample(range(1, 9), np_)).reshape(1, L)
        if rng.random() < 0.5:
            ref, pred = ref.reshape(L), pred.reshape(L)
    else:
        pred, ref = gen.pair(rng, hi=8, max_obj=5, allow_empty=False)
    # the same maps stored in any unsigned width (a 64-bit map is the one dtype that `astype(np.uint64)` need not copy)
    dt = rng.choice([np.uint8, np.uint8, np.uint16, np.uint32, np.uint64, np.uint64])
    return pred.astype(dt), ref.astype(dt)


def matcher_cfg(metric, thr, m2o):
    return {"kind": "naive", "metric": metric, "thr": {"q": list(thr)}, "m2o": m2o}


def run_impl(pred, ref, metric, thr, m2o):
    m = NaiveThresholdMatching(matching_metric=impl.METRICS[metric], matching_threshold=thr[0] / thr[1],
                               allow_many_to_one=m2o)
    up = UnmatchedInstancePair(pred, ref)
    with quiet():
        try:
            pairs = F._calc_matching_metric_of_overlapping_labels(pred, ref, up.ref_labels, impl.METRICS[metric])
        except Exception as e:
            return [], "ERR:" + type(e).__name__, None
        try:
            lm = m._match_instances(up)
            lmap = {int(k): int(v) for k, v in lm.labelmap.items()}
            order = [[int(k), int(v)] for k, v in lm.labelmap.items()]
        except Exception as e:
            lmap, order = "ERR:" + type(e).__name__, None
    return [(float(s), int(r), int(p)) for s, (r, p) in pairs], lmap, order


def reported_assignment(pred, ref, metric, thr, m2o, lmap):
    """the assignment as a caller sees it: in the pair returned by match_instances() a prediction carries a reference's label
    exactly if the label map assigns it to that reference; unassigned predictions carry labels no reference uses, one each"""
    m = NaiveThresholdMatching(matching_metric=impl.METRICS[metric], matching_threshold=thr[0] / thr[1], allow_many_to_one=m2o)
    try:
        with quiet():
            mp = m.match_instances(UnmatchedInstancePair(pred.copy(), ref.copy()))
    except Exception as e:
        return f"match_instances raised {type(e).__name__}"
    out_p, out_r = np.asarray(mp.prediction_arr), np.asarray(mp.reference_arr)
    if out_p.shape != pred.shape or not np.array_equal(out_r.astype(np.int64), ref.astype(np.int64)):
        return "match_instances changed the reference map"
    if np.any((out_p != 0) != (pred != 0)):
        return "match_instances changed the prediction foreground"
    rl = set(int(x) for x in np.unique(ref) if x)
    fresh = {}
    for p_ in (int(x) for x in np.unique(pred) if x):
        new = np.unique(out_p[pred == p_])
        if len(new) != 1:
            return f"prediction {p_} comes back with several labels {new.tolist()}"
        n = int(new[0])
        if p_ in lmap:
            if n != lmap[p_]:
                return f"prediction {p_} is assigned to reference {lmap[p_]} but comes back labelled {n}"
        elif n in rl:
            return (f"prediction {p_} is not assigned to any reference but comes back carrying the label of reference {n} "
                    f"(reported as matched to it)")
        elif n in fresh:
            return f"unassigned predictions {fresh[n]} and {p_} come back with the same label {n}"
        else:
            fresh[n] = p_
    return None


def one_case(ctx, pred, ref, metric, thr, m2o, src, check_monotone=True):
    inp = {"shape": list(pred.shape), "dtype": str(pred.dtype), "pred": gen.arr_json(pred), "ref": gen.arr_json(ref), "metric": metric,
           "thr": list(thr), "m2o": m2o, "src": src}
    if not pred.any() or not ref.any():
        return
    thr_f = Fraction(thr[0], thr[1])
    # the library is called with the caller's array objects every time (results keyed by object identity must still be right);
    # the oracle judges copies taken beforehand (a call that writes into its arguments must not reach them)
    lib_pred, lib_ref = pred, ref
    pred, ref = pred.copy(), ref.copy()
    pairs, lmap, order = run_impl(lib_pred, lib_ref, metric, thr, m2o)
    # ---- property oracle on the implementation's answer
    if isinstance(lmap, str):
        ctx.case(inp, True)
        ctx.violation(f"matching raised {lmap} instead of terminating with a result", inp, impl=lmap,
                      key={"kind": "raises", "m2o": m2o})
        return
    thr_o = thr_f if metric != "ASSD" else thr[0] / thr[1]
    fails, fragile, info = oracle.check_matching(pred, ref, metric, thr_o, m2o, lmap)
    nontriv = info["competing"] >= 1 or info["exact_hit"]
    ctx.case(inp, nontriv, sample=inp if pred.size <= 12 else None)
    ctx.count(f"metric.{metric}")
    ctx.count("m2o" if m2o else "one2one")
    ctx.count("tie" if info["tie"] else "no_tie")
    if info["exact_hit"]:
        ctx.count("exact_threshold_hit")
    if info["competing"]:
        ctx.count("competing")
    if fragile:
        ctx.count("float_fragile_skipped")
    if fails and not fragile:
        ctx.violation("matching violates C03: " + fails[0], inp, impl={"lmap": lmap, "cands": pairs},
                      key={"kind": "invalid-matching"})
    elif pred.size <= 4096:
        bad = reported_assignment(pred, ref, metric, thr, m2o, lmap)
        if bad:
            ctx.violation("matching violates C03: " + bad, inp, impl={"lmap": lmap}, key={"kind": "reported-assignment"})
    # monotonicity (metamorphic pair): a stricter threshold only removes matches
    if check_monotone and not fragile:
        grid = GRID[metric]
        stricter = [t for t in grid if (Fraction(*t) < thr_f if oracle.DECREASING[metric] else Fraction(*t) > thr_f)]
        if stricter:
            t2 = ctx.rng.choice(stricter)
            _, lmap2, _ = run_impl(lib_pred, lib_ref, metric, t2, m2o)
            if isinstance(lmap2, dict) and not set(lmap2.items()) <= set(lmap.items()):
                ctx.violation(f"stricter threshold {t2} added matches {set(lmap2.items()) - set(lmap.items())}", inp,
                              impl={"lmap": lmap, "lmap_stricter": lmap2, "thr2": list(t2)}, key={"kind": "non-monotone"})
    # ---- correspondence with the model
    mod = ctx.driver().ask({"op": "match", "shape": list(pred.shape), "pred": inp["pred"], "ref": inp["ref"],
                            "matcher": matcher_cfg(metric, thr, m2o)})
    ms = mod["sorted"]
    if sorted((r, p) for _, r, p in pairs) != sorted((c[1], c[2]) for c in ms):
        ctx.disagree("candidate pairs", inp, pairs, ms)
        return
    by = {(c[1], c[2]): c[0] for c in ms}
    for s, r, p in pairs:
        if not score_matches(by[(r, p)], s):
            ctx.disagree("candidate score", inp, [s, r, p], by[(r, p)])
            return
    if fragile or info["tie"]:
        return  # order/outcome legitimately depends on tie-breaking or on float rounding at the threshold
    vals = [x for x, _, _ in pairs]
    float_tie = metric == "ASSD" and any(a == b or oracle.near(a, b) for i, a in enumerate(vals) for b in vals[i + 1:])
    if float_tie:
        ctx.count("assd_equal_scores_order_not_compared")
    elif [(r, p) for _, r, p in pairs] != [(c[1], c[2]) for c in ms]:
        ctx.disagree("best-first candidate order", inp, pairs, ms)
    ml = mod["lmap"]
    if "error" in ml:
        ctx.disagree("label map (model raises)", inp, order, ml)
    elif ml["ok"] != order:
        ctx.disagree("label map", inp, order, ml["ok"])


def thresholds(ctx, pred, ref, metric):
    rng = ctx.rng
    ts = [rng.choice(GRID[metric])]
    # exact hit: threshold := exact score of a candidate
    cands = oracle.overlap_pairs(pred, ref)
    if cands and metric != "ASSD":
        r, p = rng.choice(cands)
        s = oracle.mask_score(metric, ref == r, pred == p)
        ts.append((s.numerator, s.denominator))
    elif cands:
        r, p = rng.choice(cands)
        s = oracle.mask_score(metric, ref == r, pred == p)
        if s == s and float(s).is_integer():
            ts.append((int(s), 1))
    if cands and metric != "ASSD" and rng.random() < 0.5:
        # a threshold one float beyond a candidate's score on the failing side (must NOT match)
        import math
        r, p = rng.choice(cands)
        sf = float(oracle.mask_score(metric, ref == r, pred == p))
        t = math.nextafter(sf, math.inf)
        if 0.0 < t <= 1.0:
            ts.append(tuple(t.as_integer_ratio()))
    return ts


def near_tie_case(rng):
    """one prediction run against two reference runs whose IoUs differ by less than 1e-6 (instances of
    ~1000-4000 voxels on a 1-D array); the lower-scoring reference gets the smaller label half of the time"""
    from fractions import Fraction
    for _ in range(20000):
        p = rng.randint(1500, 3500)
        a, b = rng.randint(800, 2500), rng.randint(800, 2500)
        ha, hb = min(a, p // 2) - 1, min(b, p // 2) - 1
        if ha < a // 3 or hb < b // 3:
            continue
        ia, ib = rng.randint(a // 3, ha), rng.randint(b // 3, hb)
        fa, fb = Fraction(ia, p + a - ia), Fraction(ib, p + b - ib)
        if fa != fb and abs(fa - fb) < Fraction(1, 2_000_000) and fa > Fraction(3, 10):
            L = (a - ia) + p + (b - ib) + 4
            ref = np.zeros(L, np.uint16)
            pred = np.zeros(L, np.uint16)
            la, lb = (1, 2) if rng.random() < 0.5 else (2, 1)
            s0 = 2
            ref[s0:s0 + a] = la
            ps = s0 + a - ia
            pred[ps:ps + p] = 7
            ref[ps + p - ib:ps + p - ib + b] = lb
            return pred.reshape(1, L), ref.reshape(1, L)
    return None


def corpus(ctx):
    for k in range(3 if ctx.quick else 20):
        sc = oracle.near_tie_scene(ctx.rng)
        if sc is not None:
            build, better, gap = sc
            for la, lb in ((1, 2), (2, 1)):      # the lower-scoring reference carries the smaller label in one of them
                pred, ref = build(la, lb)
                ctx.count("near_tie_large_instances")
                one_case(ctx, pred, ref, "IOU", (1, 5), False, f"corpus.near-tie{k}.{la}{lb}", check_monotone=False)
    # repaired defect: prediction eligible for two references with many-to-one (used to raise)
    ref = np.array([[1, 1, 1, 2, 2, 2]], np.uint8)
    pred = np.array([[1, 1, 1, 1, 1, 1]], np.uint8)
    for m2o in (False, True):
        one_case(ctx, pred, ref, "IOU", (1, 10), m2o, "corpus.m2o-two-refs")
        one_case(ctx, pred, ref, "DSC", (1, 10), m2o, "corpus.m2o-two-refs")
    # exact threshold: IoU 2/4 at 1/2
    ref = np.array([[1, 1, 1, 1, 0, 0]], np.uint8)
    pred = np.array([[0, 0, 3, 3, 0, 0]], np.uint8)
    one_case(ctx, pred, ref, "IOU", (1, 2), False, "corpus.exact-half")
    one_case(ctx, pred, ref, "DSC", (2, 3), False, "corpus.exact-dsc")
    # every prediction matched, a missed reference with the largest label (>= 2^8 / 2^16): the reported pair must keep the reference
    for p, r in gen.missed_large_reference_scenes():
        ctx.count("missed_reference_with_the_largest_label")
        for m2o in (False, True):
            one_case(ctx, p, r, "IOU", (1, 2), m2o, "corpus.missed-large-reference", check_monotone=False)
    # instances on both sides and not one overlapping pair: the matching is empty, and it is a result (not an exception)
    ref = np.zeros((4, 12), np.uint8)
    pred = np.zeros((4, 12), np.uint8)
    ref[0:2, 0:3], ref[2:4, 8:11] = 1, 2
    pred[0:2, 5:7], pred[3, 0:4] = 1, 2
    for metric, thr in (("IOU", (1, 2)), ("DSC", (1, 10)), ("ASSD", (5, 1))):
        for m2o in (False, True):
            ctx.count("no_overlapping_pair")
            one_case(ctx, pred, ref, metric, thr, m2o, "corpus.no-overlap", check_monotone=False)
    # labels near dtype limits in the pair encoding
    ref = np.zeros((1, 40), np.uint8)
    pred = np.zeros((1, 40), np.uint8)
    for k in range(9):
        ref[0, 4 * k:4 * k + 3] = k + 1
        pred[0, 4 * k:4 * k + 3] = 17 + k
    one_case(ctx, pred, ref, "IOU", (1, 2), False, "corpus.uint8-codes")
    ref16 = np.zeros((1, 8), np.uint16)
    pred16 = np.zeros((1, 8), np.uint16)
    ref16[0, :4] = 9
    pred16[0, :4] = 6553
    one_case(ctx, pred16, ref16, "IOU", (1, 2), False, "corpus.uint16-codes")
    ref32 = np.zeros((1, 8), np.uint32)
    pred32 = np.zeros((1, 8), np.uint32)
    ref32[0, :4] = 70000
    pred32[0, :4] = 70000
    one_case(ctx, pred32, ref32, "IOU", (1, 2), False, "corpus.uint32-codes")


def exhaustive(ctx, shape):
    arrs = [a for a in gen.all_small_arrays(shape)]
    n = 0
    for ref in arrs:
        for pred in arrs:
            for metric, thr in (("IOU", (1, 2)), ("IOU", (1, 3)), ("DSC", (2, 3)), ("ASSD", (1, 2))):
                for m2o in (False, True):
                    one_case(ctx, pred, ref, metric, thr, m2o, "exh", check_monotone=False)
                    n += 1
    ctx.exhaustive = True
    ctx.extra["exhaustive_space"] = f"all pairs of {{0,1,2}}-maps of shape {shape} x 4 (metric,threshold) x m2o: {n} cases"


def random_cases(ctx, n):
    rng = ctx.rng
    for i in range(n):
        pred, ref = gen_case(rng)
        metric = rng.choice(["IOU", "IOU", "DSC", "ASSD"])
        for thr in thresholds(ctx, pred, ref, metric):
            one_case(ctx, pred, ref, metric, thr, rng.random() < 0.4, f"rand{i}")


def scale_recipes():
    """volumes beyond 2^24 voxels (not a multiple of 2^24), instances beyond 2^24 voxels, an eligible pair that
    lives only in the C-order tail of the volume; thresholds at the rounded score (must match) and one float above it (must not)"""
    B = 2 ** 24
    out = []
    # one reference fills the volume, prediction 1 covers 2^24+1 voxels: IoU = (2^24+1)/25165824
    out.append({"kind": "runs", "shape": [3, 2048, 4096], "dtype": "uint8", "ref_runs": [[0, 3 * 2048 * 4096, 1]],
                "pred_runs": [[0, B + 1, 1]]})
    # 257x256x256 = 2^24 + 65536 voxels: one pair at the start, one pair only in the tail, a competing fragment in the tail
    out.append({"kind": "runs", "shape": [257, 256, 256], "dtype": "uint8", "ref_runs": [[10, 4000, 1], [B + 100, 3000, 2]],
                "pred_runs": [[10, 3000, 4], [B + 100, 2400, 5], [B + 2500, 600, 6]]})
    # a 2-D slab just above 2^21 voxels with instances straddling the 2^20 / 2^21 marks
    out.append({"kind": "runs", "shape": [1500, 1500], "dtype": "uint16", "ref_runs": [[2 ** 20 - 700, 1500, 300], [2 ** 21 - 50, 400, 7]],
                "pred_runs": [[2 ** 20 - 500, 1500, 1000], [2 ** 21 - 10, 300, 2]]})
    return out


def scale_case(ctx, rec, src):
    """oracle only (exact integer counts); IoU and Dice, both values of allow_many_to_one"""
    pred, ref = scale.build(rec)
    psize, rsize, inter = scale.contingency(pred, ref)
    big = pred.size > 2 ** 23
    for metric in (("IOU",) if (ctx.quick and big) else ("IOU", "DSC")):
        scores = sorted({scale.pair_score(metric, psize, rsize, inter, r, [p]) for (p, r) in inter})
        plan = []
        for q in scores[:1 if (ctx.quick and big) else 2]:
            plan += [(scale.float_at(q), False), (scale.float_above(q), False)]
        plan.append((0.5, True))
        if not ctx.quick:
            plan += [(0.5, False), (scale.float_at(scores[0]), True)]
        for t, m2o in plan:
            thr = tuple(float(t).as_integer_ratio())
            inp = {"recipe": rec, "metric": metric, "thr": list(thr), "m2o": m2o, "src": src}
            ctx.case(inp, True)
            ctx.count("scale_oracle_only")
            _, lmap, _ = run_impl(pred, ref, metric, thr, m2o)
            if isinstance(lmap, str):
                ctx.violation(f"matching raised {lmap} on a large volume", inp, impl=lmap, key={"kind": "raises", "m2o": m2o})
                continue
            fails, cands = scale.check_matching_counts(pred, ref, metric, float(t), m2o, lmap)
            if fails:
                ctx.violation("matching violates C03 on a large volume: " + fails[0], inp,
                              impl={"lmap": lmap, "exact_scores": {f"{p}/{r}": str(v) for (p, r), v in cands.items()}},
                              key={"kind": "invalid-matching"})


def scale_cases(ctx):
    for k, rec in enumerate(scale_recipes()):
        scale_case(ctx, rec, f"scale{k}")


def run(ctx):
    corpus(ctx)
    scale_cases(ctx)
    exhaustive(ctx, (1, 4) if ctx.quick else (1, 5))
    random_cases(ctx, ctx.scale(800, 12000))


def search(ctx):
    random_cases(ctx, ctx.scale(2000, 10000))


def replay(ctx, rec):
    i = rec["input"]
    if "recipe" in i:
        scale_case(ctx, i["recipe"], "replay")
        return
    dt = np.dtype(i.get("dtype", "uint32"))
    pred = np.array(i["pred"], dtype=dt).reshape(i["shape"])
    ref = np.array(i["ref"], dtype=dt).reshape(i["shape"])
    one_case(ctx, pred, ref, i["metric"], tuple(i["thr"]), i["m2o"], "replay")
