"""C04 — relabelling after matching preserves both segmentations."""
from __future__ import annotations
import numpy as np
import impl, gen, scale, forms
from impl import quiet, UnmatchedInstancePair, NaiveThresholdMatching, MaximizeMergeMatching
from impl import IM
from panoptica.utils.instancelabelmap import InstanceLabelMap

RULE = ("pairs built from views of one buffer / read-only arrays / an ndarray subclass; the same relabellings in a child interpreter started with -O; large-scale corpus (oracle only): arrays of 1.3M-2.25M voxels whose size is not a multiple of 2^20 with relabelled foreground in the C-order tail; the same property through Panoptica_Evaluator.evaluate (label histograms of the reported matched pair), incl. uint8/uint16 scenes with an outlying overlap voxel whose labels add up to 2^bits; memory layouts {C, Fortran, transposed view, negative strides} chosen independently for the two maps; labels of 4*10^7 with relabelling chains; unmatched instance-map pairs x dtype {uint8,16,32,64} x label sets placed at 2^k-1-j (k=8,16) and with gaps x "
        "{label map of the real matchers (threshold, many-to-one, merge), random functional label maps}; "
        "non-trivial = at least one unmatched prediction, or max reference label + #unmatched >= 2^bits - 2")

DT = {8: np.uint8, 16: np.uint16, 32: np.uint32, 64: np.uint64}


def check_relabel(pred, ref, out_pred, out_ref, lmap: dict):
    f = []
    if out_ref.shape != ref.shape or not np.array_equal(out_ref.astype(np.uint64), ref.astype(np.uint64)):
        f.append("reference map changed by matching")
    if out_pred.shape != pred.shape:
        return f + ["prediction shape changed"]
    if not np.array_equal(out_pred != 0, pred != 0):
        f.append("prediction foreground changed by matching")
        return f
    ref_labels = set(np.unique(ref).tolist()) - {0}
    new_of = {}
    for p in np.unique(pred).tolist():
        if p == 0:
            continue
        vals = np.unique(out_pred[pred == p]).tolist()
        if len(vals) != 1:
            f.append(f"prediction instance {p} was split into labels {vals}")
            return f
        new_of[p] = int(vals[0])
    for p, n in new_of.items():
        if p in lmap:
            if n != lmap[p]:
                f.append(f"matched prediction {p} carries label {n} instead of its reference's label {lmap[p]}")
        else:
            if n in ref_labels:
                f.append(f"unmatched prediction {p} received label {n} which collides with a reference label")
    inv = {}
    for p, n in new_of.items():
        inv.setdefault(n, []).append(p)
    for n, ps in inv.items():
        if len(ps) > 1:
            refs = {lmap.get(p) for p in ps}
            if None in refs or len(refs) != 1:
                f.append(f"predictions {ps} were merged into label {n} without being assigned to the same reference")
    return f


def one_case(ctx, pred, ref, lmap_order, src, via="map_instance_labels"):
    bits = pred.dtype.itemsize * 8
    inp = {"shape": list(pred.shape), "bits": bits, "pred": gen.arr_json(pred), "ref": gen.arr_json(ref),
           "lmap": lmap_order, "src": src}
    lm = InstanceLabelMap()
    for p, r in lmap_order:
        lm.add_labelmap_entry(int(p), int(r))
    up = UnmatchedInstancePair(pred.copy(), ref.copy())
    try:
        with quiet():
            mp = IM.map_instance_labels(up.copy(), lm)
        out_pred, out_ref = mp.prediction_arr, mp.reference_arr
    except Exception as e:
        ctx.case(inp, True)
        ctx.violation(f"relabelling raised {type(e).__name__}: {e}", inp, key={"kind": "raises"})
        return
    lmap = {int(p): int(r) for p, r in lmap_order}
    pl = [int(x) for x in np.unique(pred) if x]
    rl = [int(x) for x in np.unique(ref) if x]
    unmatched = [p for p in pl if p not in lmap]
    nontriv = len(unmatched) >= 1 or (max(rl) + len(unmatched) >= 2 ** bits - 2)
    ctx.case(inp, nontriv, sample=inp if pred.size <= 16 else None)
    ctx.count(f"bits.{bits}")
    ctx.count("unmatched>0" if unmatched else "all_matched")
    if max(rl) + len(unmatched) >= 2 ** bits:
        ctx.count("fresh_label_beyond_dtype")
    fails = check_relabel(pred, ref, out_pred, out_ref, lmap)
    if fails:
        ctx.violation("C04 violated: " + fails[0], inp, impl={"pred": gen.arr_json(out_pred), "dtype": str(out_pred.dtype)},
                      key={"kind": "relabel"})
    mod = ctx.driver().ask({"op": "relabel", "pred": inp["pred"], "ref_labels": rl, "pred_labels": pl,
                            "lmap": lmap_order, "bits": bits})
    if mod["pred"] != gen.arr_json(out_pred):
        ctx.disagree("relabelled prediction", inp, gen.arr_json(out_pred), mod["pred"])
    elif out_pred.dtype.itemsize * 8 != mod["bits"]:
        ctx.disagree("dtype of relabelled prediction", inp, str(out_pred.dtype), mod["bits"])
    if out_pred.dtype != out_ref.dtype:
        ctx.disagree("dtype of matched pair", inp, str(out_pred.dtype), str(out_ref.dtype))


def gen_case(rng):
    bits = rng.choice([8, 8, 16, 16, 32, 64])
    dt = DT[bits]
    pred, ref = gen.pair(rng, hi=7, max_obj=5, allow_empty=False)
    if not pred.any() or not ref.any():
        return None
    pl = [int(x) for x in np.unique(pred) if x]
    rl = [int(x) for x in np.unique(ref) if x]
    top = {8: 255, 16: 65535, 32: 2 ** 20, 64: 2 ** 22}[bits]
    mode = rng.random()
    if mode < 0.45:
        new_r = [top - j for j in rng.sample(range(0, max(4, len(rl) + 2)), len(rl))]
    elif mode < 0.7:
        new_r = rng.sample(range(1, min(top, 40)), len(rl))
    else:
        new_r = rl
    new_p = rng.sample(range(1, min(top, 60)), len(pl)) if rng.random() < 0.6 else pl
    r2 = np.zeros(ref.shape, dt)
    p2 = np.zeros(pred.shape, dt)
    for a, b in zip(rl, new_r):
        r2[ref == a] = b
    for a, b in zip(pl, new_p):
        p2[pred == a] = b
    return p2, r2


def relayout(rng, a):
    k = rng.choice(["C", "C", "F", "T", "neg"])
    if k == "F":
        return np.asfortranarray(a)
    if k == "T" and a.ndim >= 2:
        return np.ascontiguousarray(a.T).T          # transposed view of a C array with the same logical content
    if k == "neg":
        return np.ascontiguousarray(a[::-1])[::-1]
    return a


def big_label_cases(ctx):
    """labels beyond 2^25 in uint32/uint64 with relabelling chains (pred 1 -> ref 2 while pred 2 -> ref 1; an
    unmatched prediction whose own label equals the first fresh label)"""
    big = 40_000_000
    for dt in (np.uint32, np.uint64):
        ref = np.zeros((1, 12), dt)
        pred = np.zeros((1, 12), dt)
        ref[0, 0:3] = 1
        ref[0, 4:7] = 2
        ref[0, 8:10] = big
        pred[0, 0:3] = 2
        pred[0, 4:7] = 1
        pred[0, 8:10] = big
        one_case(ctx, pred, ref, [[2, 1], [1, 2], [big, big]], "corpus.big-swap")
        ref = np.zeros((1, 12), dt)
        pred = np.zeros((1, 12), dt)
        ref[0, 0:3] = big
        pred[0, 0:3] = 5
        pred[0, 4:6] = big + 1
        pred[0, 7:9] = 3
        one_case(ctx, pred, ref, [[5, big]], "corpus.big-fresh")
        ctx.count("labels>=2^25")


def run_cases(ctx, n, tag):
    rng = ctx.rng
    for i in range(n):
        c = gen_case(rng)
        if c is None:
            continue
        pred, ref = c
        pred, ref = relayout(rng, pred), relayout(rng, ref)
        pl = [int(x) for x in np.unique(pred) if x]
        rl = [int(x) for x in np.unique(ref) if x]
        r = rng.random()
        if r < 0.5:
            # label map of a real matcher
            kind = rng.choice(["naive", "m2o", "merge"])
            thr = rng.choice([0.1, 0.3, 0.5])
            m = {"naive": NaiveThresholdMatching(matching_threshold=thr),
                 "m2o": NaiveThresholdMatching(matching_threshold=thr, allow_many_to_one=True),
                 "merge": MaximizeMergeMatching(matching_threshold=thr)}[kind]
            try:
                with quiet():
                    lm = m._match_instances(UnmatchedInstancePair(pred, ref))
            except Exception as e:
                inp = {"shape": list(pred.shape), "dtype": str(pred.dtype), "pred": gen.arr_json(pred), "ref": gen.arr_json(ref), "matcher": kind, "thr": thr, "src": f"{tag}{i}"}
                ctx.case(inp, True)
                ctx.violation(f"C04 violated: matching a valid unmatched pair ({kind}, threshold {thr}, {pred.dtype}) raised {type(e).__name__}: {str(e)[:120]}", inp,
                              key={"kind": "raises"})
                continue
            order = [[int(k), int(v)] for k, v in lm.labelmap.items()]
        else:
            # random functional label map (many-to-one allowed)
            ps = rng.sample(pl, rng.randint(0, len(pl)))
            order = [[p, rng.choice(rl)] for p in ps]
        one_case(ctx, pred, ref, order, f"{tag}{i}")


def corpus(ctx):
    # repaired defect: fresh label 256 in uint8 wrapped to 0
    ref = np.zeros((1, 8), np.uint8)
    pred = np.zeros((1, 8), np.uint8)
    ref[0, 0:2] = 255
    pred[0, 0:2] = 7
    pred[0, 5:7] = 9
    one_case(ctx, pred, ref, [[7, 255]], "corpus.uint8-wrap")
    ref16 = ref.astype(np.uint16)
    ref16[ref16 == 255] = 65535
    one_case(ctx, pred.astype(np.uint16), ref16, [[7, 65535]], "corpus.uint16-wrap")
    # many unmatched predictions pushing the fresh labels across 255
    ref = np.zeros((1, 30), np.uint8)
    pred = np.zeros((1, 30), np.uint8)
    ref[0, 0:2] = 249
    for k in range(10):
        pred[0, 2 + 2 * k:4 + 2 * k] = k + 1
    one_case(ctx, pred, ref, [], "corpus.uint8-many-unmatched")
    # more unmatched predictions than labels left below the dtype maximum, next to a matched high reference label and a missed
    # low one: whatever labels the strays receive, none may be a reference label (matched or not) and no two may coincide
    for dt, hi in ((np.uint8, 250), (np.uint16, 65530)):
        ref = np.zeros((1, 40), dt)
        pred = np.zeros((1, 40), dt)
        ref[0, 0:2] = 1                # missed reference with a low label
        ref[0, 3:6] = hi               # matched reference with a high label
        pred[0, 3:6] = 40
        for k in range(11):
            pred[0, 8 + 2 * k:10 + 2 * k] = k + 1          # eleven stray predictions (one of them labelled 1)
        one_case(ctx, pred, ref, [[40, hi]], "corpus.more-strays-than-labels-left")
    # a missed reference whose label is larger than every label the relabelled prediction needs (no stray prediction, so no fresh
    # label either): the reference map must come back unchanged whatever width the relabelled prediction is given
    for dt, big in ((np.uint16, 256), (np.uint16, 300), (np.uint32, 65536), (np.uint32, 70000), (np.uint64, 2 ** 24)):
        ref = np.zeros((1, 12), dt)
        pred = np.zeros((1, 12), dt)
        ref[0, 0:3] = 2
        pred[0, 0:3] = 7               # matched: 7 -> 2
        ref[0, 6:9] = big              # missed, the largest label anywhere
        ctx.count("missed_reference_with_the_largest_label")
        one_case(ctx, pred, ref, [[7, 2]], "corpus.missed-large-reference")
    # reference labels with gaps: fresh labels must not land on an existing reference label
    ref = np.zeros((1, 12), np.uint8)
    pred = np.zeros((1, 12), np.uint8)
    ref[0, 0:2] = 2
    ref[0, 2:4] = 5
    ref[0, 4:6] = 9
    pred[0, 0:2] = 1
    pred[0, 6:8] = 2
    pred[0, 8:10] = 3
    pred[0, 10:12] = 4
    one_case(ctx, pred, ref, [[1, 2]], "corpus.gaps")


def scale_recipes():
    """arrays beyond 2^20 / 2^21 voxels whose size is not a multiple of 2^20, with prediction foreground in the
    C-order tail and a non-identity relabelling (matched, unmatched, merged predictions; an instance straddling a
    2^20 boundary)"""
    out = []
    for shape in ([130, 100, 100], [1500, 1500], [3, 700, 1001]):
        n = int(np.prod(shape))
        tail = n - 5000
        out.append(({"kind": "runs", "shape": shape, "dtype": "uint8",
                     "ref_runs": [[100, 900, 1], [2 ** 20 - 400, 900, 2], [tail, 800, 3], [tail + 2000, 500, 4]],
                     "pred_runs": [[100, 800, 3], [2 ** 20 - 300, 900, 4], [tail, 700, 2], [tail + 2000, 300, 1], [tail + 2300, 200, 7], [tail + 3000, 100, 9]]},
                    [[3, 1], [4, 2], [2, 3], [1, 4], [7, 4]]))
    return out


def scale_case(ctx, rec, lmap_order, src):
    pred, ref = scale.build(rec)
    inp = {"recipe": rec, "lmap": lmap_order, "src": src}
    ctx.case(inp, True)
    ctx.count("scale_oracle_only")
    lm = InstanceLabelMap()
    for p, r in lmap_order:
        lm.add_labelmap_entry(int(p), int(r))
    try:
        with quiet():
            mp = IM.map_instance_labels(UnmatchedInstancePair(pred.copy(), ref.copy()), lm)
    except Exception as e:
        ctx.violation(f"relabelling raised {type(e).__name__}: {e} on a large array", inp, key={"kind": "raises"})
        return
    fails = check_relabel(pred, ref, mp.prediction_arr, mp.reference_arr, {int(p): int(r) for p, r in lmap_order})
    if fails:
        ctx.violation("C04 violated on a large array: " + fails[0], inp, impl={"dtype": str(mp.prediction_arr.dtype)}, key={"kind": "relabel"})


def histogram(a):
    v, c = np.unique(a, return_counts=True)
    return {int(x): int(y) for x, y in zip(v, c) if x != 0}


def evaluate_case(ctx, pred, ref, matcher_kind, thr, src):
    """the same property observed through the public entry point: the matched pair reported by
    Panoptica_Evaluator.evaluate (cropped to the joint bounding box, hence compared by label histograms) has the
    reference's label histogram, the prediction's foreground size and the prediction's multiset of instance sizes
    up to merging of predictions assigned to one reference"""
    from panoptica import Panoptica_Evaluator, InputType
    inp = {"shape": list(pred.shape), "dtype": str(pred.dtype), "pred": gen.arr_json(pred), "ref": gen.arr_json(ref),
           "matcher": matcher_kind, "thr": thr, "src": src, "via": "evaluate"}
    m = {"naive": NaiveThresholdMatching(matching_threshold=thr),
         "m2o": NaiveThresholdMatching(matching_threshold=thr, allow_many_to_one=True),
         "merge": MaximizeMergeMatching(matching_threshold=thr)}[matcher_kind]
    ctx.case(inp, True)
    ctx.count("via_evaluate")
    try:
        with quiet(), np.errstate(all="ignore"):
            ev = Panoptica_Evaluator(expected_input=InputType.UNMATCHED_INSTANCE, instance_matcher=m, verbose=False)
            res, inter = ev.evaluate(pred.copy(), ref.copy(), verbose=False)["ungrouped"]
            mp_pred = inter.prediction_arr(InputType.MATCHED_INSTANCE)
            mp_ref = inter.reference_arr(InputType.MATCHED_INSTANCE)
    except Exception as e:
        ctx.count("evaluate_raised." + type(e).__name__)
        return
    if histogram(mp_ref) != histogram(ref):
        ctx.violation(f"reference map changed by matching (through evaluate): label histogram {histogram(ref)} -> {histogram(mp_ref)}",
                      inp, impl={"ref_hist": histogram(mp_ref)}, key={"kind": "relabel-evaluate"})
    elif int(np.count_nonzero(mp_pred)) != int(np.count_nonzero(pred)):
        ctx.violation(f"prediction foreground changed by matching (through evaluate): {int(np.count_nonzero(pred))} -> {int(np.count_nonzero(mp_pred))} voxels",
                      inp, impl={"pred_hist": histogram(mp_pred)}, key={"kind": "relabel-evaluate"})
    elif res.num_ref_instances != len(histogram(ref)):
        ctx.violation(f"number of reference instances changed by matching (through evaluate): {len(histogram(ref))} -> {res.num_ref_instances}",
                      inp, key={"kind": "relabel-evaluate"})


def complementary_scene(rng, bits):
    """a scene in a narrow unsigned dtype in which an outlying overlap voxel carries labels that add up to 2^bits
    (and others that add up to 2^bits - 1 / + 1)"""
    dt = DT[bits]
    top = 2 ** bits
    shape = (rng.randint(14, 22), rng.randint(14, 22))
    pred, ref = np.zeros(shape, dt), np.zeros(shape, dt)
    a = rng.randint(1, top - 1)
    ref[2:7, 2:7] = 3
    pred[3:8, 2:7] = 5 if a != 5 else 6
    y, x = shape[0] - 2 - rng.randint(0, 1), shape[1] - 2 - rng.randint(0, 1)
    delta = rng.choice([0, 0, 0, 1, -1])
    pa, ra = a, top - a + delta
    if not (0 < ra < top) or ra == 3 or pa in (5, 6):
        return None
    pred[y, x], ref[y, x] = pa, ra
    if rng.random() < 0.5:
        pred[y - 1, x], ref[y - 1, x] = pa, ra
    return pred, ref


def evaluate_cases(ctx, n):
    rng = ctx.rng
    for i in range(n):
        if rng.random() < 0.5:
            sc = complementary_scene(rng, rng.choice([8, 8, 16]))
            if sc is None:
                continue
            pred, ref = sc
            ctx.count("labels_adding_up_to_2^bits")
        else:
            c = gen_case(rng)
            if c is None:
                continue
            pred, ref = c
        evaluate_case(ctx, pred, ref, rng.choice(["naive", "m2o", "merge"]), rng.choice([0.1, 0.5]), f"eval{i}")


def form_cases(ctx, n):
    """the pair built directly from two views of one buffer (channels-last, even/odd, adjacent windows), from read-only
    arrays or from an ndarray subclass: the relabelling must be what it is for separately allocated arrays"""
    rng = ctx.rng
    for i in range(n):
        c = gen_case(rng)
        if c is None:
            continue
        pred, ref = c
        pl = [int(x) for x in np.unique(pred) if x]
        rl = [int(x) for x in np.unique(ref) if x]
        ps = rng.sample(pl, rng.randint(0, max(0, len(pl) - 1)))
        order = [[p, rng.choice(rl)] for p in ps]
        lmap = {int(p): int(r) for p, r in order}
        which = None if i < 12 else [rng.choice(["channels_last", "even_odd", "window", "readonly", "subclass"])]     # the first cases in every form
        if i < 12:
            # small label values shared crosswise between the two maps, more predictions than references, one prediction matched
            sc = gen.shared_value_scene(rng, dtype=rng.choice([np.uint8, np.uint16]))
            if sc is not None:
                pred, ref = sc
                k2 = rng.choice([0, 1])
                vals = sorted(set(np.unique(pred).tolist()) - {0})
                ren = dict(zip(vals, [1, 2, 3][k2:] + [1, 2, 3][:k2]))
                pred = np.vectorize(lambda v: ren.get(int(v), 0))(pred).astype(pred.dtype)
                rv = sorted(set(np.unique(ref).tolist()) - {0})
                ref = np.vectorize(lambda v: {rv[0]: 1, rv[1]: 2}.get(int(v), 0))(ref).astype(ref.dtype)
                pl = [int(x) for x in np.unique(pred) if x]
                rl = [int(x) for x in np.unique(ref) if x]
                first = int(pred[ref != 0][pred[ref != 0] != 0][0])
                order = [[first, int(ref[pred == first][ref[pred == first] != 0][0])]]
                lmap = {int(p): int(r) for p, r in order}
        for name, p2, r2 in forms.pair_forms(pred, ref, which=which):
            inp = {"shape": list(pred.shape), "bits": pred.dtype.itemsize * 8, "pred": gen.arr_json(pred), "ref": gen.arr_json(ref), "lmap": order,
                   "form": name, "src": f"form{i}"}
            ctx.case(inp, True)
            ctx.count("form." + name)
            lm = InstanceLabelMap()
            for p, r in order:
                lm.add_labelmap_entry(int(p), int(r))
            try:
                with quiet():
                    mp = IM.map_instance_labels(UnmatchedInstancePair(p2, r2), lm)
            except Exception as e:
                ctx.violation(f"relabelling raised {type(e).__name__} for a pair given as {name}", inp, key={"kind": "raises"})
                continue
            fails = check_relabel(pred, ref, np.asarray(mp.prediction_arr), np.asarray(mp.reference_arr), lmap)
            if fails:
                ctx.violation(f"C04 violated for a pair given as {name.replace('_', ' ')}: " + fails[0], inp, key={"kind": "relabel-form"})


def optimized_interpreter_cases(ctx, n):
    """the same relabellings in a child interpreter started with -O (assert statements are not executed): the
    result must be the same as in this process"""
    rng = ctx.rng
    tasks, here = [], []
    for i in range(n):
        c = gen.shared_value_scene(rng) if i % 3 == 0 else gen_case(rng)
        if c is None:
            continue
        pred, ref = c
        pl = [int(x) for x in np.unique(pred) if x]
        rl = [int(x) for x in np.unique(ref) if x]
        ps = rng.sample(pl, rng.randint(0, max(0, len(pl) - 1)))
        order = [[p, rng.choice(rl)] for p in ps]
        j = lambda a: {"data": gen.arr_json(a), "dtype": str(a.dtype), "shape": list(a.shape)}
        tasks.append({"kind": "relabel", "pred": j(pred), "ref": j(ref), "lmap": order})
        here.append((pred, ref, order))
    res = forms.run_child([{"kind": "info"}] + tasks, optimize=True)
    if isinstance(res, dict) or not isinstance(res[0], dict) or res[0].get("debug") is not False:
        ctx.notes.append("child interpreter with -O could not be started: " + str(res)[:200])
        return
    for (pred, ref, order), out in zip(here, res[1:]):
        inp = {"shape": list(pred.shape), "bits": pred.dtype.itemsize * 8, "pred": gen.arr_json(pred), "ref": gen.arr_json(ref), "lmap": order,
               "mode": "python -O", "src": "optimized"}
        ctx.case(inp, True)
        ctx.count("python_-O")
        if isinstance(out, str):
            ctx.violation(f"relabelling raised {out} in an interpreter started with -O", inp, key={"kind": "raises"})
            continue
        fails = check_relabel(pred, ref, np.array(out["pred"]).reshape(pred.shape), np.array(out["ref"]).reshape(ref.shape), {int(p): int(r) for p, r in order})
        if fails:
            ctx.violation("C04 violated in an interpreter started with -O (assert statements stripped): " + fails[0], inp, key={"kind": "relabel-optimized"})


def run(ctx):
    corpus(ctx)
    form_cases(ctx, ctx.scale(150, 1500))
    optimized_interpreter_cases(ctx, ctx.scale(60, 400))
    for k, (rec, lm) in enumerate(scale_recipes()):
        scale_case(ctx, rec, lm, f"scale{k}")
    evaluate_cases(ctx, ctx.scale(120, 1200))
    big_label_cases(ctx)
    run_cases(ctx, ctx.scale(1200, 12000), "rand")


def search(ctx):
    run_cases(ctx, ctx.scale(2000, 8000), "search")


def replay(ctx, rec):
    i = rec["input"]
    if "recipe" in i:
        scale_case(ctx, i["recipe"], i["lmap"], "replay")
        return
    if i.get("mode") == "python -O":
        optimized_interpreter_cases(ctx, 60)
        return
    if i.get("form"):
        form_cases(ctx, 200)
        return
    if i.get("via") == "evaluate":
        dt = np.dtype(i["dtype"])
        evaluate_case(ctx, np.array(i["pred"], dtype=dt).reshape(i["shape"]), np.array(i["ref"], dtype=dt).reshape(i["shape"]),
                      i["matcher"], i["thr"], "replay")
        return
    dt = DT[i["bits"]]
    one_case(ctx, np.array(i["pred"], dtype=dt).reshape(i["shape"]), np.array(i["ref"], dtype=dt).reshape(i["shape"]),
             i["lmap"], "replay")
