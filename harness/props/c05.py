"""C05 — instance approximation yields exactly the connected components."""
from __future__ import annotations
import numpy as np
import forms, impl, gen, oracle
from impl import quiet, SemanticPair, ConnectedComponentsInstanceApproximator, CCABackend

RULE = ("the public attribute cca_backend re-assigned after construction; the two maps as views of one buffer / read-only / ndarray subclass; maps without any background voxel; backend given as enum member or by member name (incl. requests that differ from the dimensionality default); int64 maps using the largest int64 value as a label next to multiples of 256; half of the cases through long-lived approximator objects shared across inputs of different dimensionality; pairs with the same foreground divided into different semantic labels; 1-D/2-D/3-D semantic maps built from objects with 1-3 semantic labels (incl. labels >= 256 and 65536), diagonal "
        "(edge/corner) contacts and multi-label adjacency, dtypes {uint8,uint16,int32,int64}, negatives (must be rejected) x "
        "backend {default, cc3d, scipy}; exhaustive {0,1,2}-maps of shape 2x3 (quick) / 3x3, 2x2x2 (thorough); "
        "non-trivial = face and full connectivity, or label-aware and label-blind reading, give different partitions")


_SHARED = {}
_HIST = []


def approx(pred, ref, backend, shared=False, form="enum", first_backend="same"):
    """`shared`: reuse one long-lived approximator object per backend setting across inputs of different
    dimensionality (an approximator must not remember anything from earlier calls)"""
    be = backend if (form == "name" and backend is not None) else impl.BACKEND[backend]     # by member name or as enum member
    if first_backend != "same":
        # the object is constructed with another backend and the public attribute is re-assigned afterwards
        ap = ConnectedComponentsInstanceApproximator(cca_backend=impl.BACKEND[first_backend])
        ap.cca_backend = be
        with quiet():
            return ap.approximate_instances(SemanticPair(pred, ref))
    if shared:
        ap = _SHARED.setdefault((backend, form), ConnectedComponentsInstanceApproximator(cca_backend=be))
    else:
        ap = ConnectedComponentsInstanceApproximator(cca_backend=be)
    with quiet():
        return ap.approximate_instances(SemanticPair(pred, ref))


def check_side(arr, out, n_reported, backend_eff):
    f = []
    full = backend_eff == "cc3d"
    comps = oracle.components(arr, full=full, label_aware=full)
    if not np.array_equal(out != 0, arr != 0):
        return ["foreground changed by instance approximation"], comps
    part = oracle.partition_of(out)
    n = len(comps)
    if sorted(part) != list(range(1, n + 1)):
        f.append(f"labels are {sorted(part)[:8]}, expected exactly 1..{n}")
    if set(map(frozenset, part.values())) != set(comps):
        got = set(map(frozenset, part.values()))
        if len(got) > len(comps):
            f.append(f"voxels that are connected under the backend's connectivity were left in separate instances "
                     f"(expected {n} components, library produced {len(got)})")
        else:
            f.append(f"an instance is not a connected set / joins different components (expected {n}, got {len(got)})")
    if n_reported != n:
        f.append(f"reported instance count {n_reported} != {n}")
    return f, comps


def one_case(ctx, pred, ref, backend, src, shared=False, form="enum", first_backend="same"):
    inp = {"shape": list(pred.shape), "dtype": str(pred.dtype), "pred": gen.arr_json(pred.astype(np.int64)),
           "ref": gen.arr_json(ref.astype(np.int64)), "backend": backend, "backend_form": form, "first_backend": first_backend, "src": src, "shared_approximator": shared,
           "history": list(_HIST[-3:]) if shared else []}
    if shared:
        _HIST.append([list(pred.shape), backend])
        ctx.count("shared_approximator_object")
    eff = backend or ("cc3d" if pred.ndim >= 3 else "scipy")
    neg = (pred < 0).any() or (ref < 0).any()
    try:
        up = approx(pred, ref, backend, shared, form, first_backend)
        if first_backend != "same":
            ctx.count("backend_reassigned_after_construction")
        if form == "name":
            ctx.count("backend_given_by_name")
    except AssertionError:
        ctx.case(inp, False)
        ctx.count("rejected_negative" if neg else "rejected_other")
        if not neg:
            ctx.violation("valid semantic input rejected", inp, key={"kind": "rejects-valid"})
        return
    except Exception as e:
        ctx.case(inp, False)
        ctx.violation(f"approximation raised {type(e).__name__}: {e}", inp, key={"kind": "raises"})
        return
    if neg:
        ctx.case(inp, False)
        ctx.violation("negative semantic values were not rejected", inp, key={"kind": "negatives-accepted"})
        return
    nontriv = False
    for side, arr, out, n in (("pred", pred, up.prediction_arr, up.n_prediction_instance),
                              ("ref", ref, up.reference_arr, up.n_reference_instance)):
        fails, comps = check_side(arr, out, n, eff)
        alt = {(True, True), (False, False), (True, False)}
        parts = {k: set(oracle.components(arr, full=k[0], label_aware=k[1])) for k in alt}
        if len({frozenset(v) for v in parts.values()}) > 1:
            nontriv = True
        if fails:
            ctx.violation(f"C05 violated ({side}, backend={backend}, ndim={arr.ndim}): " + fails[0], inp,
                          impl={"out": gen.arr_json(out), "n": int(n)}, key={"kind": "cc"})
        mod = ctx.driver().ask({"op": "cc", "shape": list(arr.shape), "arr": gen.arr_json(arr.astype(np.int64)), "backend": eff})
        if mod["n"] != int(n):
            ctx.disagree(f"instance count ({side})", inp, int(n), mod["n"])
        elif mod["data"] != gen.arr_json(out):
            mp = oracle.partition_of(np.array(mod["data"]).reshape(arr.shape))
            if set(map(frozenset, mp.values())) == set(map(frozenset, oracle.partition_of(out).values())):
                ctx.count("numbering_differs_same_partition")
            else:
                ctx.disagree(f"component partition ({side})", inp, gen.arr_json(out), mod["data"])
    mx = max(int(up.prediction_arr.max()), int(up.reference_arr.max()))
    want = np.uint8 if mx < 256 else np.uint16 if mx < 65536 else np.uint32
    if up.prediction_arr.dtype != want or up.reference_arr.dtype != want:
        ctx.disagree("output dtype", inp, str(up.prediction_arr.dtype), str(np.dtype(want)))
    ctx.case(inp, nontriv, sample=inp if pred.size <= 12 else None)
    ctx.count(f"ndim.{pred.ndim}")
    ctx.count(f"backend.{backend}")


def sem_map(rng, shape, dtype):
    a = np.zeros(shape, np.int64)
    labs = rng.choice([[1], [1, 2], [1, 2, 3], [1, 256], [3, 257, 65536], [255, 256]])
    for _ in range(rng.randint(0, 5)):
        gen.put_object(rng, a, rng.choice(labs), kind=rng.choice(["voxel", "voxel", "box", "line", "diag", "L"]))
    if np.dtype(dtype).itemsize == 1:
        a[a > 255] = 2
    elif np.dtype(dtype).itemsize == 2 and np.dtype(dtype).kind == "u":
        a[a > 65535] = 7
    return a.astype(dtype)


def run_cases(ctx, n, tag):
    rng = ctx.rng
    for i in range(n):
        dtype = rng.choice([np.uint8, np.uint16, np.int32, np.int64])
        shape = gen.rand_shape(rng, hi=6)
        pred, ref = sem_map(rng, shape, dtype), sem_map(rng, shape, dtype)
        if np.dtype(dtype).kind == "i" and rng.random() < 0.05:
            (pred if rng.random() < 0.5 else ref)[tuple(rng.randrange(s) for s in shape)] = -1
        backend = rng.choice([None, None, "cc3d", "scipy"])
        if rng.random() < 0.25:
            # same foreground, different division into semantic labels
            fg = pred != 0
            ref = np.zeros_like(pred)
            ref[fg] = [rng.choice([1, 2, 3]) for _ in range(int(fg.sum()))]
            ctx.count("same_foreground_different_labels")
        if rng.random() < 0.12:
            # no background voxel at all, several class values
            labs = rng.choice([[1, 2], [1, 2, 3], [5, 9]])
            pred = np.array([rng.choice(labs) for _ in range(int(np.prod(shape)))], dtype).reshape(shape)
            if rng.random() < 0.5:
                ref = np.array([rng.choice(labs) for _ in range(int(np.prod(shape)))], dtype).reshape(shape)
            ctx.count("no_background_voxel")
        r2 = rng.random()
        if r2 < 0.15:
            fb = rng.choice([b for b in (None, "cc3d", "scipy") if b != backend])
            one_case(ctx, pred, ref, backend, f"{tag}{i}.reassigned", first_backend=fb)
        elif r2 < 0.3 and pred.dtype == ref.dtype:
            for name, p2, q2 in forms.pair_forms(pred, ref, which=[rng.choice(["channels_last", "even_odd", "window", "readonly", "subclass"])]):
                ctx.count("form." + name)
                one_case(ctx, p2, q2, backend, f"{tag}{i}.{name}")
        else:
            one_case(ctx, pred, ref, backend, f"{tag}{i}", shared=rng.random() < 0.5,
                     form="name" if backend is not None and rng.random() < 0.35 else "enum")


def exhaustive(ctx, shape):
    arrs = list(gen.all_small_arrays(shape))
    z = np.zeros(shape, np.uint8)
    n = 0
    for a in arrs:
        for backend in (None, "cc3d", "scipy"):
            one_case(ctx, a, z if n % 2 else a[::-1].copy(), backend, "exh")
            n += 1
    ctx.exhaustive = True
    ctx.extra["exhaustive_space"] = f"all {{0,1,2}}-maps of shape {shape} x 3 backends ({n} cases)"


def sentinel_cases(ctx):
    """signed 64-bit maps that use the largest representable value as a label (an ignore / void marker) next to
    ordinary labels that are multiples of 256 or congruent to it modulo 256"""
    top = int(np.iinfo(np.int64).max)
    for shape in ((1, 9), (3, 4), (2, 3, 3)):
        for labs in ((top, 256), (top, 511, 512), (top, 255), (2 ** 32 - 1, 256, 2 ** 32)):
            a = np.zeros(shape, np.int64)
            b = np.zeros(shape, np.int64)
            fa, fb = a.reshape(-1), b.reshape(-1)
            for k in range(fa.size):
                fa[k] = labs[k % len(labs)] if k % 4 != 3 else 0
                fb[k] = labs[(k // 2) % len(labs)] if k % 5 != 4 else 0
            for backend in (None, "cc3d", "scipy"):
                ctx.count("largest_int64_label")
                one_case(ctx, a, b, backend, "corpus.sentinel")


def corpus(ctx):
    sentinel_cases(ctx)
    a = np.zeros((3, 3, 3), np.uint8)
    a[0, 0, 0] = 1
    a[1, 1, 1] = 1      # corner contact
    a[2, 2, 1] = 2      # different label, face-adjacent to nothing, corner-adjacent to (1,1,1)... edge contact
    a[1, 1, 2] = 2      # face contact with a different label
    for b in (None, "cc3d", "scipy"):
        one_case(ctx, a, a.copy(), b, "corpus.3d-contacts")
    # class values whose sum over the map is a multiple of 2^64 (four voxels of 2^62; two of 2^62 and four of 2^61): the map is not empty
    for dt in (np.uint64, np.int64):
        big = np.zeros((3, 6), dt)
        big[0, 0] = big[0, 2] = big[2, 1] = big[2, 4] = 2 ** 62
        mixed = np.zeros((3, 6), dt)
        mixed[0, 0] = mixed[0, 1] = 2 ** 62
        mixed[2, 0] = mixed[2, 2] = mixed[2, 4] = mixed[1, 5] = 2 ** 61
        other = np.zeros((3, 6), dt)
        other[1, 2:4] = 3
        for b in (None, "cc3d", "scipy"):
            ctx.count("class_values_summing_to_a_multiple_of_2^64")
            one_case(ctx, big, other, b, "corpus.wrapping-sum")
            one_case(ctx, other, mixed, b, "corpus.wrapping-sum")
    r = np.zeros((4, 4), np.uint16)
    r[0, 0] = 1
    r[0, 1] = 256
    r[2, 2] = 257
    r[3, 3] = 1
    p = np.zeros((4, 4), np.uint16)
    p[1, 1] = 5
    for b in (None, "cc3d", "scipy"):
        one_case(ctx, p, r, b, "corpus.large-ref-labels")


def singleton_axis_corpus(ctx):
    """a 2-D scene in which the two backends disagree (diagonal contact of one label; two labels face to face), stored as a
    3-D volume with an axis of length one: the default backend for three axes is cc3d whatever their lengths"""
    s2 = np.zeros((5, 6), np.uint8)
    s2[0, 0] = 1
    s2[1, 1] = 1          # diagonal contact, same label
    s2[3, 1:3] = 1
    s2[3, 3:5] = 2        # two labels face to face
    s2[0, 5] = 2
    t2 = np.roll(s2, 1, axis=0)
    for ax in (0, 1, 2):
        a, b = np.expand_dims(s2, ax), np.expand_dims(t2, ax)
        for backend in (None, "cc3d", "scipy"):
            ctx.count("singleton_axis_volume")
            one_case(ctx, a, b, backend, f"corpus.singleton-axis-{ax}")


def many_components(ctx):
    """more than 255 components on one side, few on the other (label dtype must fit both)"""
    a = np.zeros((41, 41), np.uint8)
    a[::2, ::2] = 1                      # 441 isolated pixels
    a[0:4, :] = 0
    b = np.zeros((41, 41), np.uint8)
    b[10:14, 10:14] = 1
    b[30, 30] = 2
    for backend in (None, "cc3d"):
        one_case(ctx, a, b, backend, "corpus.many-pred-components")
        one_case(ctx, b, a, backend, "corpus.many-ref-components")
    ctx.count("more_than_255_components")


def run(ctx):
    corpus(ctx)
    singleton_axis_corpus(ctx)
    many_components(ctx)
    exhaustive(ctx, (2, 3) if ctx.quick else (3, 3))
    if not ctx.quick:
        exhaustive(ctx, (2, 2, 2))
    run_cases(ctx, ctx.scale(700, 7000), "rand")


def search(ctx):
    run_cases(ctx, ctx.scale(1500, 6000), "search")


def replay(ctx, rec):
    i = rec["input"]
    dt = np.dtype(i["dtype"])
    one_case(ctx, np.array(i["pred"]).reshape(i["shape"]).astype(dt), np.array(i["ref"]).reshape(i["shape"]).astype(dt), i["backend"], "replay",
             form=i.get("backend_form", "enum"), first_backend=i.get("first_backend", "same"))
