"""C06 — Dice, IoU, RVD, clDice equal their set-theoretic definitions."""
from __future__ import annotations
from fractions import Fraction
import numpy as np
import impl, gen, scale, forms
from common import frac, float_is_quotient, close, score_matches
from impl import Metric, quiet

RULE = ("one array object passed for both roles with the reference label among the prediction labels; the same arrays as views of one buffer / read-only / ndarray subclass; centre-line Dice on 3-D arrays with an axis of length one; centre-line Dice in memory layouts {C, Fortran, transposed view, slice of a larger array, negative strides}, with and without label selection; large-scale corpus (oracle only): masks of 2^22+1 .. 2^24+3 voxels in a 25M-voxel array, identical / shifted / two-label unions, judged by exact integer counts; fragmented predictions with 8-60 sparse/dense instance ids and label lists of up to 80 entries; the same array objects scored repeatedly with in-place edits in between; object-based 1-3-D label maps x dtypes {bool,uint8..64,int32,int64} x reference label (present/absent) x "
        "prediction label or list of 1-4 labels (present/absent, non-consecutive) x with/without selection; "
        "exhaustive {0,1,2}-arrays of 4 cells x all (r, ps); non-trivial = both selected masks non-empty and different; "
        "distinct = hash of (arrays, selection, metric)")

DT = [np.uint8, np.uint16, np.uint32, np.uint64, np.int32, np.int64]


def spec(metric, X: set, Y: set):
    """the set-theoretic definition (None = quotient undefined)"""
    if metric == "IOU":
        u = len(X | Y)
        return Fraction(len(X & Y), u) if u else Fraction(0)
    if metric == "DSC":
        s = len(X) + len(Y)
        return Fraction(2 * len(X & Y), s) if s else Fraction(0)
    if metric == "RVD":
        if len(X) == 0:
            return Fraction(0) if len(Y) == 0 else None
        return Fraction(len(Y) - len(X), len(X))


def call_impl(metric, ref, pred, r, ps):
    try:
        with quiet():
            if r is None:
                return impl.METRICS[metric](ref, pred)
            return impl.METRICS[metric](ref, pred, r, ps)
    except ZeroDivisionError:
        return "ZeroDivisionError"
    except Exception as e:           # any other exception on a well-formed call: reported by the caller
        return "RAISED:" + type(e).__name__ + ": " + str(e)[:100]


def one_case(ctx, ref, pred, r, ps, metric, src, before=None, layouts=None):
    """before: earlier states [ref, pred] of the same two array objects, scored with the same call before in-place edits
    (recorded so that a replay can rebuild the history on one pair of array objects)"""
    flat_r, flat_p = ref.ravel(), pred.ravel()
    if r is None:
        X = set(np.flatnonzero(flat_r != 0).tolist())
        Y = set(np.flatnonzero(flat_p != 0).tolist())
        psl = None
    else:
        psl = [ps] if isinstance(ps, int) else list(ps)
        X = set(np.flatnonzero(flat_r == r).tolist())
        Y = set(np.flatnonzero(np.isin(flat_p, psl)).tolist())
    inp = {"shape": list(ref.shape), "dtype": str(ref.dtype), "ref": gen.arr_json(ref.astype(np.int64)),
           "pred": gen.arr_json(pred.astype(np.int64)), "r": r, "ps": ps, "m": metric, "src": src}
    if before:
        inp["before"] = [[gen.arr_json(a.astype(np.int64)), gen.arr_json(b.astype(np.int64))] for a, b in before]
    if layouts:
        # the same logical arrays, each stored in a memory layout of its own
        inp["layouts"] = list(layouts)
        ref, pred = relayout(ref, layouts[0]), relayout(pred, layouts[1])
        ctx.count(f"layouts.{layouts[0]}.{layouts[1]}")
    nontriv = bool(X) and bool(Y) and X != Y
    ctx.case(inp, nontriv, sample=inp if ref.size <= 16 else None)
    ctx.count(f"metric.{metric}")
    ctx.count("sel" if r is not None else "nosel")
    ctx.count("nontrivial" if nontriv else "trivial")
    ps_given = list(ps) if isinstance(ps, list) else ps
    got = call_impl(metric, ref, pred, r, ps)
    if isinstance(got, str) and got.startswith("RAISED:"):
        ctx.violation(f"{metric} on a well-formed call (reference label {r}, prediction labels {ps_given}) raised {got[7:]} instead of returning the value of its definition", inp,
                      impl=got, key={"metric": metric, "kind": "raises"})
        return None
    if isinstance(ps, list) and ps != ps_given:
        ctx.violation(f"the metric call changed the caller's list of prediction labels from {ps_given} to {ps} (the next call with that list scores other voxels)", inp,
                      key={"metric": metric, "kind": "caller-list"})
        ps[:] = ps_given
    # model
    req = {"op": "metric", "m": metric, "shape": list(ref.shape), "ref": inp["ref"], "pred": inp["pred"]}
    if r is not None:
        req["r"] = r
        req["ps"] = psl
    mod = ctx.driver().ask(req)
    # --- correspondence
    if "err" in mod:
        if got != "ZeroDivisionError":
            ctx.disagree("metric value (model raises)", inp, repr(got), mod)
    elif got == "ZeroDivisionError" or not score_matches(mod, float(got)):
        ctx.disagree("metric value", inp, repr(got), mod)
    # --- property oracle on the implementation's own answer (independent of the model)
    want = spec(metric, X, Y)
    if want is None:
        ctx.count("undefined_quotient")
        return
    if isinstance(got, str) or not float_is_quotient(float(got), want):
        ctx.violation(f"{metric} differs from its set-theoretic definition: got {got!r}, definition gives {want}",
                      inp, impl=repr(got), model=str(want), key={"metric": metric}, observable="Metric value")
        return
    g = float(got)
    if metric in ("IOU", "DSC"):
        if not (0.0 <= g <= 1.0):
            ctx.violation(f"{metric} outside [0,1]: {g}", inp, impl=g)
        if (g == 1.0) != (bool(X) and X == Y):
            ctx.violation(f"{metric}==1 iff identical non-empty masks violated: value {g}", inp, impl=g)


def relayout(a, k):
    """the same logical array in another memory layout"""
    if k == "F":
        return np.asfortranarray(a)
    if k == "T":
        return np.ascontiguousarray(a.T).T
    if k == "slice":
        big = np.zeros(tuple(n + 2 for n in a.shape), a.dtype)
        big[tuple(slice(1, -1) for _ in a.shape)] = a
        return big[tuple(slice(1, -1) for _ in a.shape)]
    if k == "neg":
        return np.ascontiguousarray(a[::-1])[::-1]
    return a


def cldice_case(ctx, ref, pred, src, layout="C", sel=None):
    """ref / pred: 0-1 arrays (or label arrays with `sel` = (reference label, prediction label))"""
    from skimage.morphology import skeletonize, skeletonize_3d
    sk = skeletonize if ref.ndim == 2 else skeletonize_3d
    R = (ref == sel[0]).astype(np.uint8) if sel else (ref != 0).astype(np.uint8)
    P = (pred == sel[1]).astype(np.uint8) if sel else (pred != 0).astype(np.uint8)
    sr = (sk(np.ascontiguousarray(R)) != 0).astype(np.uint8)
    sp = (sk(np.ascontiguousarray(P)) != 0).astype(np.uint8)
    inp = {"shape": list(ref.shape), "dtype": str(ref.dtype), "ref": gen.arr_json(ref), "pred": gen.arr_json(pred), "m": "clDSC", "src": src,
           "layout": layout, "sel": list(sel) if sel else None}
    ctx.case(inp, bool(R.any() and P.any() and (R != P).any()))
    ctx.count("metric.clDSC")
    ctx.count("cldsc.layout." + layout)
    a, b = relayout(ref, layout), relayout(pred, layout)
    try:
        with quiet(), np.errstate(all="ignore"):
            got = float(Metric.clDSC(a, b, sel[0], sel[1])) if sel else float(Metric.clDSC(a, b))
    except Exception as e:
        ctx.violation(f"clDice raised {type(e).__name__}: {e} for a {ref.ndim}-D pair in memory layout {layout!r}"
                      f"{' with label selection' if sel else ''} (the same arrays in C order evaluate)", inp, key={"kind": "cldice-raises"})
        return
    mod = ctx.driver().ask({"op": "cldice", "ref": gen.arr_json(R), "pred": gen.arr_json(P),
                            "skel_ref": gen.arr_json(sr), "skel_pred": gen.arr_json(sp)})
    tp = (P * sr).sum() / sr.sum() if sr.sum() else None
    ts = (R * sp).sum() / sp.sum() if sp.sum() else None
    if mod is None:
        if not np.isnan(got):
            ctx.disagree("clDice (model undefined)", inp, got, mod)
        return
    q = frac(mod)
    if not close(got, q.numerator / q.denominator):
        ctx.disagree("clDice value", inp, got, str(q))
    if tp is not None and ts is not None and tp + ts > 0:
        hm = 2 * tp * ts / (tp + ts)
        if not close(got, float(hm)):
            ctx.violation(f"clDice {got} is not the harmonic mean {hm} of skeleton coverages", inp, impl=got)


def random_cases(ctx, n):
    rng = ctx.rng
    for i in range(n):
        dtype = rng.choice(DT)
        shape = gen.rand_shape(rng, hi=7)
        labs = rng.sample(range(1, 12), 5)
        ref = gen.instance_map(rng, shape, rng.randint(0, 4), labels=labs[:], dtype=np.int64).astype(dtype)
        if rng.random() < 0.6:
            pred = gen.perturb(rng, ref.astype(np.int64), relabel=False)
            lut = {l: rng.choice(labs) for l in np.unique(pred) if l}
            p2 = np.zeros_like(pred)
            for a, b in lut.items():
                p2[pred == a] = b
            pred = p2.astype(dtype)
        else:
            pred = gen.instance_map(rng, shape, rng.randint(0, 4), labels=labs[:], dtype=np.int64).astype(dtype)
        present_r = [int(x) for x in np.unique(ref) if x]
        present_p = [int(x) for x in np.unique(pred) if x]
        r = rng.choice(present_r) if present_r and rng.random() < 0.8 else rng.randint(1, 13)
        k = rng.choice([0, 1, 1, 2, 3, 4])
        if k == 0:
            ps = rng.choice(present_p) if present_p and rng.random() < 0.8 else rng.randint(1, 13)
        else:
            pool = present_p + [rng.randint(1, 13)]
            ps = [rng.choice(pool) for _ in range(k)]
        for metric in ("IOU", "DSC", "RVD"):
            one_case(ctx, ref, pred, r, ps, metric, f"rand{i}")
        if rng.random() < 0.15 and present_r:
            # ONE label map passed for both roles (the same object), reference label among the prediction labels
            r1 = rng.choice(present_r)
            others = [x for x in present_r if x != r1] + [rng.randint(1, 13)]
            lst = [r1] + rng.sample(others, rng.randint(0, min(2, len(others))))
            rng.shuffle(lst)
            ctx.count("same_object_both_roles")
            for metric in ("IOU", "DSC", "RVD"):
                one_case(ctx, ref, ref, r1, lst if rng.random() < 0.8 else r1, metric, f"rand{i}.same-object")
        if rng.random() < 0.15:
            psl = [ps] if isinstance(ps, int) else list(ps)
            for name, p2, r2 in forms.pair_forms(pred, ref):
                ctx.count("form." + name)
                for metric in ("IOU", "DSC", "RVD"):
                    a0, a1 = call_impl(metric, ref, pred, r, ps), call_impl(metric, r2, p2, r, ps)
                    same = (a0 == a1) or (isinstance(a0, float) and isinstance(a1, float) and a0 != a0 and a1 != a1)
                    try:
                        same = same or float(a0) == float(a1) or (float(a0) != float(a0) and float(a1) != float(a1))
                    except (TypeError, ValueError):
                        pass
                    if not same:
                        inp = {"shape": list(ref.shape), "dtype": str(ref.dtype), "ref": gen.arr_json(ref.astype(np.int64)), "pred": gen.arr_json(pred.astype(np.int64)),
                               "r": r, "ps": ps, "m": metric, "form": name, "src": f"rand{i}.{name}"}
                        ctx.case(inp, True)
                        ctx.violation(f"{metric} of the same arrays passed as {name.replace('_', ' ')} is {a1!r}, but {a0!r} for separately allocated arrays",
                                      inp, impl=[repr(a0), repr(a1)], key={"metric": metric, "kind": "form"})
        if rng.random() < 0.3:
            b_r = (ref != 0).astype(rng.choice([np.uint8, np.bool_, np.int64]))
            b_p = (pred != 0).astype(b_r.dtype)
            for metric in ("IOU", "DSC", "RVD"):
                one_case(ctx, b_r, b_p, None, None, metric, f"rand{i}.bin")


def sparse_list_cases(ctx, n):
    """heavily fragmented prediction with many (sparse or dense) instance ids, long label lists"""
    rng = ctx.rng
    for i in range(n):
        side = rng.choice([12, 16, 20])
        shape = (side, side) if rng.random() < 0.7 else (6, 6, rng.randint(4, 8))
        dtype = rng.choice([np.uint16, np.uint32, np.int64])
        k = rng.randint(8, 60)
        ids = rng.sample(range(1, 60000 if rng.random() < 0.6 else k + 5), k)
        pred = np.zeros(shape, dtype)
        flat = pred.reshape(-1)
        pos = rng.sample(range(flat.size), min(flat.size, rng.randint(k, 3 * k)))
        for j, q in enumerate(pos):
            flat[q] = ids[j % k]
        ref = np.zeros(shape, dtype)
        rflat = ref.reshape(-1)
        for q in rng.sample(range(flat.size), rng.randint(1, flat.size // 2)):
            rflat[q] = 1
        ps = rng.sample(ids, rng.randint(max(1, k // 2), k))
        if rng.random() < 0.3:
            ps = ps + [rng.randint(1, 70000) for _ in range(rng.randint(1, 20))]
        for metric in ("IOU", "DSC", "RVD"):
            one_case(ctx, ref, pred, 1, ps, metric, f"sparse{i}")
        ctx.count("long_label_list")


def out_of_range_label_cases(ctx):
    """a requested prediction label (alone or inside a list) that is absent and does not even fit the array's dtype — 257 on
    uint8, 65541 on uint16, 255 / 257 on int8: it selects nothing, whatever it is congruent to"""
    for dt, absent in ((np.uint8, [257, 258, 513]), (np.uint16, [65537, 65541]), (np.int8, [255, 257])):
        ref = np.zeros((4, 6), dt)
        pred = np.zeros((4, 6), dt)
        ref[0:3, 0:3] = 1
        pred[0:3, 1:4] = 1
        pred[3, 0:4] = 2
        pred[0:2, 5] = 5
        for a in absent:
            for ps in ([a], [a, 2], [2, a]):
                for metric in ("IOU", "DSC", "RVD"):
                    ctx.count("requested_label_beyond_array_dtype")
                    one_case(ctx, ref, pred, 1, ps, metric, "corpus.label-beyond-dtype")


def history_cases(ctx, n):
    """the same array objects scored repeatedly with in-place edits in between (no hidden state allowed)"""
    rng = ctx.rng
    for i in range(n):
        shape = gen.rand_shape(rng, hi=7)
        ref = gen.instance_map(rng, shape, rng.randint(1, 3), dtype=np.uint8)
        pred = gen.instance_map(rng, shape, rng.randint(1, 3), dtype=np.uint8)
        for step in range(rng.randint(2, 5)):
            r = rng.randint(1, 3)
            ps = [rng.randint(1, 3) for _ in range(rng.randint(1, 2))]
            for metric in ("IOU", "DSC", "RVD"):
                one_case(ctx, ref, pred, r, ps, metric, f"hist{i}.{step}")
            # edit in place
            tgt = ref if rng.random() < 0.5 else pred
            gen.put_object(rng, tgt, rng.randint(0, 3), kind=rng.choice(["box", "voxel", "line"]))
        ctx.count("in_place_edit_histories")


def repeat_cases(ctx, n):
    """the very same call (same metric, same array objects, same labels) repeated with an in-place edit of one array in
    between and nothing else in between: the second answer must be that of the edited arrays"""
    rng = ctx.rng
    for i in range(n):
        shape = gen.rand_shape(rng, hi=7)
        ref = gen.instance_map(rng, shape, rng.randint(1, 3), dtype=np.uint8)
        pred = gen.instance_map(rng, shape, rng.randint(1, 3), dtype=np.uint8)
        metric = ("IOU", "DSC", "RVD")[i % 3]
        r, ps = (None, None) if i % 4 == 3 else (rng.randint(1, 3), [rng.randint(1, 3)])
        before = []
        for step in range(3):
            one_case(ctx, ref, pred, r if r is not None else 1, ps if ps is not None else [1], metric, f"repeat{i}.{step}", before=list(before))
            before.append((ref.copy(), pred.copy()))
            tgt = pred if step % 2 == 0 else ref
            if r is not None and (tgt == (ps[0] if tgt is pred else r)).any() and rng.random() < 0.6:
                lab = ps[0] if tgt is pred else r
                idx = np.argwhere(tgt == lab)
                tgt[tuple(idx[rng.randrange(len(idx))])] = 0          # remove one voxel of the scored instance
            else:
                gen.put_object(rng, tgt, rng.randint(0, 3), kind=rng.choice(["box", "voxel", "line"]))
        ctx.count("same_call_repeated_after_in_place_edit")


def exhaustive_cases(ctx, shape):
    arrs = list(gen.all_small_arrays(shape))
    sels = [(1, 1), (1, [1, 2]), (2, [1]), (1, 2), (2, [2, 1]), (3, [3])]
    for ref in arrs:
        for pred in arrs:
            for (r, ps) in sels:
                for metric in ("IOU", "DSC", "RVD"):
                    one_case(ctx, ref, pred, r, ps, metric, "exh")
    ctx.exhaustive = True
    ctx.extra["exhaustive_space"] = f"all pairs of {{0,1,2}}-arrays of shape {shape} x {len(sels)} selections x 3 metrics"


def corpus(ctx):
    # non-consecutive label list with an unrequested label in between; empty prediction vs non-empty reference
    ref = np.array([[1, 1, 1, 0, 0, 0]], np.uint8)
    pred = np.array([[1, 2, 3, 3, 0, 0]], np.uint8)
    for metric in ("IOU", "DSC", "RVD"):
        one_case(ctx, ref, pred, 1, [1, 3], metric, "corpus.gap")
        one_case(ctx, ref, pred, 1, 9, metric, "corpus.absent")
        one_case(ctx, ref, pred, 1, [8, 9], metric, "corpus.absentlist")
        one_case(ctx, ref, np.zeros_like(ref), None, None, metric, "corpus.emptypred")
        one_case(ctx, np.zeros_like(ref), np.zeros_like(ref), None, None, metric, "corpus.bothempty")
    # label 0 and the empty list are labels like any other when they are asked for (background against background, nothing selected)
    ref0 = np.array([[0, 0, 1, 1, 2, 0, 0, 3]], np.uint8)
    pred0 = np.array([[0, 1, 1, 0, 0, 0, 2, 3]], np.uint8)
    for metric in ("IOU", "DSC", "RVD"):
        for r_, ps_ in ((0, 0), (0, [0]), (1, 0), (0, 1), (1, []), (0, []), (0, [0, 3]), (3, [0, 3])):
            ctx.count("falsy_label_requested")
            one_case(ctx, ref0, pred0, r_, ps_, metric, "corpus.falsy-labels")
    # ready-made masks (no label selection) whose two arrays are stored in different memory layouts
    rng = ctx.rng
    for shape in ((7, 11), (5, 6), (3, 4, 5), (2, 9)):
        a = (np.arange(int(np.prod(shape))).reshape(shape) % 3 == 0).astype(np.uint8)
        b = (np.arange(int(np.prod(shape))).reshape(shape) % 4 < 2).astype(np.uint8)
        for lay in (("C", "F"), ("F", "C"), ("T", "C"), ("C", "T"), ("F", "F"), ("neg", "F"), ("slice", "T")):
            for metric in ("DSC", "IOU", "RVD"):
                one_case(ctx, a, b, None, None, metric, "corpus.mixed-layouts", layouts=lay)
                one_case(ctx, a.astype(bool), b.astype(bool), None, None, metric, "corpus.mixed-layouts", layouts=lay)
    big = np.zeros((1, 600), np.uint16)
    big[0, :300] = 300
    p = np.zeros_like(big)
    p[0, 100:400] = 300
    for metric in ("IOU", "DSC", "RVD"):
        one_case(ctx, big, p, 300, 300, metric, "corpus.uint16")


BIG = 2 ** 24


def scale_recipes():
    """masks whose sizes / overlaps straddle 2^24 voxels (where float32 counting stops being exact) and 2^20-2^22"""
    out = []
    shape = [3, 2048, 4096]                                   # 25 165 824 voxels
    for n, shift in ((BIG + 1, 0), (BIG + 1, 5), (BIG + 3, 2 ** 22 + 1), (2 ** 22 + 1, 3)):
        out.append(({"kind": "runs", "shape": shape, "dtype": "uint8", "ref_runs": [[0, n, 1]], "pred_runs": [[shift, n, 1]]}, 1, [1]))
    # two prediction labels whose union is the reference; a third label elsewhere
    out.append(({"kind": "runs", "shape": shape, "dtype": "uint16", "ref_runs": [[7, BIG + 9, 300]],
                 "pred_runs": [[7, BIG // 2 + 4, 40000], [7 + BIG // 2 + 4, BIG // 2 + 5, 2], [BIG + 100, 999, 9]]}, 300, [40000, 2]))
    return out


def scale_case(ctx, rec, r, ps, src):
    """oracle-only (arrays far too large for the line protocol): exact integer counts with numpy"""
    pred, ref = scale.build(rec)
    for sel in (True, False):
        if sel:
            R, P = (ref == r), np.isin(pred, ps)
        else:
            R, P = (ref != 0), (pred != 0)
        i, nr, np_ = int(np.count_nonzero(R & P)), int(np.count_nonzero(R)), int(np.count_nonzero(P))
        for metric in ("IOU", "DSC", "RVD"):
            want = {"IOU": Fraction(i, nr + np_ - i), "DSC": Fraction(2 * i, nr + np_), "RVD": Fraction(np_ - nr, nr)}[metric]
            inp = {"recipe": rec, "r": r if sel else None, "ps": ps if sel else None, "m": metric, "src": src}
            ctx.case(inp, True)
            ctx.count("scale_oracle_only")
            got = call_impl(metric, ref, pred, r, ps) if sel else call_impl(metric, (ref != 0).astype(np.uint8), (pred != 0).astype(np.uint8), None, None)
            if isinstance(got, str) or not float_is_quotient(float(got), want):
                ctx.violation(f"{metric} differs from its set-theoretic definition on a large mask: got {got!r}, definition gives {want} "
                              f"(|X|={nr}, |Y|={np_}, |X∩Y|={i})", inp, impl=repr(got), model=str(want), key={"metric": metric},
                              observable="Metric value")
            elif metric in ("IOU", "DSC") and (float(got) == 1.0) != (i == nr == np_):
                ctx.violation(f"{metric}==1 iff identical masks violated on a large mask: {got!r}", inp, impl=repr(got))


def scale_cases(ctx):
    recs = scale_recipes()
    for k, (rec, r, ps) in enumerate(recs if not ctx.quick else recs[:3] + recs[-1:]):
        scale_case(ctx, rec, r, ps, f"scale{k}")
    # volumes just beyond 2^20 voxels whose first axis is not a multiple of any power-of-two slab, with foreground in the last slices
    for shape in ([300, 64, 64], [155, 96, 96], [1100, 1000]):
        n = int(np.prod(shape))
        rec = {"kind": "runs", "shape": shape, "dtype": "uint8", "ref_runs": [[n - 70000, 65000, 1], [5, 4000, 2]], "pred_runs": [[n - 60000, 59990, 1], [5, 3000, 2]]}
        ctx.count("volume_beyond_2^20_with_foreground_in_the_tail")
        scale_case(ctx, rec, 1, [1], f"scale.tail.{'x'.join(map(str, shape))}")


def run(ctx):
    corpus(ctx)
    scale_cases(ctx)
    exhaustive_cases(ctx, (1, 3) if ctx.quick else (2, 2))
    random_cases(ctx, ctx.scale(400, 4000))
    sparse_list_cases(ctx, ctx.scale(40, 400))
    history_cases(ctx, ctx.scale(60, 600))
    out_of_range_label_cases(ctx)
    repeat_cases(ctx, ctx.scale(45, 450))
    rng = ctx.rng
    for i in range(ctx.scale(25, 250)):
        shape = gen.rand_shape(rng, ndim=rng.choice([2, 3]), lo=3, hi=8)
        if i < 6 or rng.random() < 0.2:
            # a 3-D array with an axis of length one (a single slice stored as a volume): still 3-D
            sh2 = gen.rand_shape(rng, ndim=2, lo=5, hi=12)
            k = i % 3 if i < 6 else rng.randint(0, 2)
            shape = tuple(sh2[:k]) + (1,) + tuple(sh2[k:])
            ctx.count("cldsc.singleton_axis")
        ref = (gen.instance_map(rng, shape, rng.randint(1, 3)) != 0).astype(np.uint8)
        pred = (gen.perturb(rng, ref) != 0).astype(np.uint8)
        if ref.any() and pred.any():
            cldice_case(ctx, ref, pred, f"cl{i}", layout=rng.choice(["C", "C", "F", "T", "slice", "neg"]))
            if rng.random() < 0.5:
                # label arrays with selection
                lr, lp = rng.randint(1, 9), rng.randint(1, 9)
                cldice_case(ctx, (ref * lr).astype(np.uint8), (pred * lp).astype(np.uint8), f"cl{i}.sel",
                            layout=rng.choice(["C", "F", "T", "slice"]), sel=(lr, lp))


def search(ctx):
    random_cases(ctx, ctx.scale(600, 3000))
    sparse_list_cases(ctx, ctx.scale(100, 500))
    history_cases(ctx, ctx.scale(150, 600))


def replay(ctx, rec):
    inp = rec["input"]
    if inp.get("m") == "clDSC":
        dt = np.dtype(inp.get("dtype", "uint8"))
        cldice_case(ctx, np.array(inp["ref"]).reshape(inp["shape"]).astype(dt), np.array(inp["pred"]).reshape(inp["shape"]).astype(dt), "replay",
                    layout=inp.get("layout", "C"), sel=tuple(inp["sel"]) if inp.get("sel") else None)
        return
    if "recipe" in inp:
        scale_case(ctx, inp["recipe"], inp.get("r") or 1, inp.get("ps") or [1], "replay")
        return
    dt = np.dtype(inp.get("dtype", "int64"))
    ref = np.array(inp["ref"]).reshape(inp["shape"]).astype(dt)
    pred = np.array(inp["pred"]).reshape(inp["shape"]).astype(dt)
    if inp.get("before"):
        # rebuild the history on one pair of array objects: same call, in-place edits in between
        a, b = ref.copy(), pred.copy()
        for ra, pa in inp["before"]:
            a[...] = np.array(ra).reshape(inp["shape"]).astype(dt)
            b[...] = np.array(pa).reshape(inp["shape"]).astype(dt)
            call_impl(inp["m"], a, b, inp.get("r"), inp.get("ps"))
        a[...] = ref
        b[...] = pred
        one_case(ctx, a, b, inp.get("r"), inp.get("ps"), inp["m"], "replay")
        return
    one_case(ctx, ref, pred, inp.get("r"), inp.get("ps"), inp["m"], "replay", layouts=tuple(inp["layouts"]) if inp.get("layouts") else None)
