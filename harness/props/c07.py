"""C07 — ASSD equals the mean of the two directed average surface distances."""
from __future__ import annotations
import math
import numpy as np
import impl, gen, oracle, forms
from impl import quiet, Metric
from common import close, score_to_float

RULE = ("the same masks as views of one buffer (channels-last, even/odd, adjacent windows), read-only, as an ndarray subclass, and with an axis of length one; through the evaluator with metric lists in which a metric is named twice before ASSD; pairs of non-empty binary masks in 1-3-D: single voxels, one-voxel-thick lines/sheets, rings/shells with enclosed "
        "cavities, objects on the array border, nested and disjoint objects, far-apart objects (offsets up to 600, and single voxels 50000-70000 apart, along one axis); every case also embedded at a random offset in a larger array and cropped tight; with and without "
        "label selection; non-trivial = the two borders differ and an object is thin, has a cavity, or touches the array border")


def assd_impl(ref, pred, r=None, p=None):
    with quiet(), np.errstate(all="ignore"):
        return float(Metric.ASSD(ref, pred) if r is None else Metric.ASSD(ref, pred, r, p))


def one_case(ctx, ref, pred, src, sel=None):
    R, P = (ref != 0, pred != 0) if sel is None else (ref == sel[0], np.isin(pred, sel[1]))
    if not R.any() or not P.any():
        return None
    inp = {"shape": list(ref.shape), "ref": gen.arr_json(ref), "pred": gen.arr_json(pred), "sel": sel, "src": src}
    bR, bP = oracle.border_coords(R), oracle.border_coords(P)
    same_border = set(map(tuple, bR)) == set(map(tuple, bP))
    touches = any((c == 0).any() or (c == np.array(R.shape) - 1).any() for c in list(bR) + list(bP))
    thin = len(bR) == R.sum() or len(bP) == P.sum()
    nontriv = (not same_border) and (touches or thin or len(bR) < R.sum() - 1)
    ctx.case(inp, nontriv, sample=inp if ref.size <= 20 else None)
    ctx.count(f"ndim.{ref.ndim}")
    ctx.count("same_border" if same_border else "different_border")
    got = assd_impl(ref, pred) if sel is None else assd_impl(ref, pred, sel[0], sel[1])
    want = oracle.assd_brute(R, P)
    if not close(got, want):
        ctx.violation(f"ASSD = {got}, but the mean of the two directed average border distances is {want}", inp, impl=got,
                      model=want, key={"kind": "assd-value"})
    else:
        if got < 0 or math.isnan(got):
            ctx.violation(f"ASSD negative or NaN: {got}", inp, impl=got, key={"kind": "assd-sign"})
        if (got == 0.0) != same_border:
            ctx.violation(f"ASSD is {got} but borders {'coincide' if same_border else 'differ'}", inp, impl=got, key={"kind": "assd-zero"})
        if sel is None:
            back = assd_impl(pred, ref)
            if not close(got, back):
                ctx.violation(f"ASSD not symmetric: {got} vs {back}", inp, impl=[got, back], key={"kind": "assd-symm"})
    req = {"op": "assd", "shape": list(ref.shape), "ref": gen.arr_json(R.astype(np.uint8)), "pred": gen.arr_json(P.astype(np.uint8))}
    mod = ctx.driver().ask(req)
    mval = score_to_float({"surf": [mod["pred_to_ref"], mod["ref_to_pred"]]})
    if not close(got, mval):
        ctx.disagree("ASSD value", inp, got, mval)
    if mod["border_ref"] != len(bR) or mod["border_pred"] != len(bP):
        ctx.disagree("border size (model vs brute force)", inp, [len(bR), len(bP)], [mod["border_ref"], mod["border_pred"]])
    return got


def embed(rng, a, b):
    pads = [(rng.randint(0, 3), rng.randint(0, 3)) for _ in a.shape]
    return np.pad(a, pads), np.pad(b, pads)


def tight(a, b):
    m = (a != 0) | (b != 0)
    idx = np.argwhere(m)
    sl = tuple(slice(lo, hi + 1) for lo, hi in zip(idx.min(0), idx.max(0)))
    return a[sl], b[sl]


def gen_masks(rng):
    r = rng.random()
    if r < 0.12:
        # far apart along one axis
        L = rng.randint(200, 600)
        shape = (L,) if rng.random() < 0.4 else ((rng.randint(1, 3), L) if rng.random() < 0.7 else (2, 2, L))
        a, b = np.zeros(shape, np.uint8), np.zeros(shape, np.uint8)
        i0 = tuple(0 for _ in shape[:-1])
        a[i0 + (slice(0, rng.randint(1, 4)),)] = 1
        off = rng.randint(150, L - 4)
        b[i0 + (slice(off, off + rng.randint(1, 4)),)] = 1
        return a, b
    shape = gen.rand_shape(rng, hi=9)
    a, b = np.zeros(shape, np.uint8), np.zeros(shape, np.uint8)
    kinds = ["voxel", "line", "box", "ring", "ring", "border", "diag", "L"]
    for _ in range(rng.randint(1, 2)):
        gen.put_object(rng, a, 1, kind=rng.choice(kinds))
    mode = rng.random()
    if mode < 0.2:
        b = a.copy()
    elif mode < 0.5:
        b = (gen.perturb(rng, a, relabel=False) != 0).astype(np.uint8)
    else:
        for _ in range(rng.randint(1, 2)):
            gen.put_object(rng, b, 1, kind=rng.choice(kinds))
    return a, b


def run_cases(ctx, n, tag):
    rng = ctx.rng
    for i in range(n):
        ref, pred = gen_masks(rng)
        if ref.ndim <= 2 and rng.random() < 0.15:
            # the same masks stored with an axis of length one (a single slice of a volume, a column vector)
            ax = rng.randint(0, ref.ndim)
            ref, pred = np.expand_dims(ref, ax), np.expand_dims(pred, ax)
            ctx.count("singleton_axis")
        v = one_case(ctx, ref, pred, f"{tag}{i}")
        if v is None:
            continue
        if ref.size < 400:
            r2, p2 = embed(rng, ref, pred)
            v2 = one_case(ctx, r2, p2, f"{tag}{i}.embedded")
            r3, p3 = tight(ref, pred)
            v3 = one_case(ctx, r3, p3, f"{tag}{i}.tight")
            for name, w, arrs in (("embedding in a larger array", v2, (r2, p2)), ("tight crop", v3, (r3, p3))):
                if w is not None and not close(v, w):
                    inp = {"shape": list(arrs[0].shape), "ref": gen.arr_json(arrs[0]), "pred": gen.arr_json(arrs[1]), "sel": None,
                           "base_shape": list(ref.shape), "base_ref": gen.arr_json(ref), "base_pred": gen.arr_json(pred)}
                    ctx.violation(f"ASSD changes under {name}: {v} vs {w}", inp, impl=[v, w], key={"kind": "assd-embedding"})
        if rng.random() < 0.25:
            # other forms of the same two masks: views of one buffer, read-only arrays, an ndarray subclass
            for name, r2, p2 in forms.pair_forms(ref, pred):
                try:
                    w = assd_impl(r2, p2)
                except Exception as e:
                    w = "ERR:" + type(e).__name__
                ctx.count("form." + name)
                if isinstance(w, str) or not close(v, w):
                    inp = {"shape": list(ref.shape), "ref": gen.arr_json(ref), "pred": gen.arr_json(pred), "sel": None, "form": name, "src": f"{tag}{i}.{name}"}
                    ctx.case(inp, True)
                    ctx.violation(f"ASSD of the same two masks passed as {name.replace('_', ' ')} views/copies is {w}, but {v} for separately allocated arrays",
                                  inp, impl=[v, w], key={"kind": "assd-form"})
        if rng.random() < 0.3:
            lr, lp = ref * rng.choice([1, 3]), pred * rng.choice([2, 5])
            extra = np.zeros_like(lp)
            gen.put_object(rng, extra, 9, kind="voxel")
            lp = np.where((lp == 0), extra, lp)
            one_case(ctx, lr, lp, f"{tag}{i}.sel", sel=[int(lr.max()), [int(pred.max() * (lp.max() if False else 1)) or 1] if False else [int(x) for x in np.unique(lp) if x and x != 9][:1] or [9]])


def corpus(ctx):
    ring = np.zeros((7, 7), np.uint8)
    ring[1:6, 1:6] = 1
    ring[2:5, 2:5] = 0
    full = np.zeros((7, 7), np.uint8)
    full[1:6, 1:6] = 1
    one_case(ctx, ring, full, "corpus.ring-vs-square")
    cav = full.copy()
    cav[3, 3] = 0
    one_case(ctx, cav, full, "corpus.cavity")
    a = np.zeros(300, np.uint8)
    b = np.zeros(300, np.uint8)
    a[0:2] = 1
    b[298:300] = 1
    one_case(ctx, a, b, "corpus.far-1d")
    a = np.zeros((2, 2, 260), np.uint8)
    b = a.copy()
    a[0, 0, 0] = 1
    b[0, 0, 256] = 1
    one_case(ctx, a, b, "corpus.far-3d")
    s1 = np.zeros(9, np.uint8)
    s1[1:3] = 1
    s1[5:7] = 1
    s2 = np.zeros(9, np.uint8)
    s2[1:7] = 1
    one_case(ctx, s1, s2, "corpus.1d-gap")


def same_bytes_corpus(ctx):
    """the same 36 values laid out as (36,), (6, 6), (4, 9), (2, 3, 6), (1, 36), (36, 1) and, byte-identically, as uint16 [1, 0, 257, ...] next to
    its uint8 view: consecutive calls in one process whose arguments have equal raw buffers and different meaning"""
    rng = ctx.rng
    base_r = np.zeros(36, np.uint8)
    base_p = np.zeros(36, np.uint8)
    base_r[[3, 4, 9, 10, 15, 16, 20, 21]] = 1
    base_p[[4, 5, 10, 11, 16, 22, 23, 28]] = 1
    shapes = [(36,), (6, 6), (4, 9), (2, 3, 6), (1, 36), (36, 1), (9, 4), (3, 12)]
    rng.shuffle(shapes)
    for sh in shapes:
        ctx.count("same_buffer_other_shape")
        one_case(ctx, base_r.reshape(sh), base_p.reshape(sh), "corpus.same-bytes")
    wide_r = np.array([1, 0, 257, 0, 0, 1, 1, 0], np.uint16)
    wide_p = np.array([0, 1, 257, 257, 0, 0, 1, 0], np.uint16)
    one_case(ctx, wide_r, wide_p, "corpus.same-bytes")
    one_case(ctx, wide_r.view(np.uint8), wide_p.view(np.uint8), "corpus.same-bytes")


def inplace_history_corpus(ctx):
    """the caller's two buffers are refilled in place between calls (one instance after the other written into the same arrays, the way a
    loop over labels with `np.equal(labels, k, out=buf)` does): every call is judged on the contents at the time of the call"""
    rng = ctx.rng
    for dt in (np.uint8, bool):
        lab_r = np.zeros((9, 12), np.uint8)
        lab_p = np.zeros((9, 12), np.uint8)
        lab_r[1:4, 1:5], lab_p[1:4, 2:6] = 1, 1
        lab_r[5:8, 1:4], lab_p[5:8, 1:4] = 2, 2          # identical masks: ASSD 0
        lab_r[1:7, 7:11], lab_p[2:8, 8:11] = 3, 3
        lab_r[8, 0:3], lab_p[8, 1:5] = 4, 4
        buf_r, buf_p = np.zeros((9, 12), dt), np.zeros((9, 12), dt)
        order = [1, 2, 3, 4, 2, 1]
        for k in order:
            buf_r[...] = (lab_r == k)
            buf_p[...] = (lab_p == k)
            ctx.count("buffers_refilled_in_place")
            one_case(ctx, buf_r, buf_p, "corpus.inplace-history")


def very_far(ctx, n):
    """single voxels tens of thousands of voxels apart (squared distances beyond 2^31)"""
    rng = ctx.rng
    for k in range(n):
        L = rng.choice([50001, 60001, 70001])
        shape = (L,) if rng.random() < 0.6 else (2, L)
        a, b = np.zeros(shape, np.uint8), np.zeros(shape, np.uint8)
        a[(0,) * (len(shape) - 1) + (0,)] = 1
        b[(0,) * (len(shape) - 1) + (L - 1 - rng.randint(0, 3),)] = 1
        ctx.count("very_far_apart")
        one_case(ctx, a, b, f"veryfar{k}")


def pipeline_cases(ctx, n):
    """get_list_metric(ASSD, ALL) of matched pairs vs brute force on the uncropped instance masks; label values incl.
    pairs that sum to 2^bits, instances far (> crop padding) from all other foreground"""
    import evalutil as E
    rng = ctx.rng
    for k in range(n):
        H, W = rng.randint(8, 14), rng.randint(16, 28)
        ref = np.zeros((H, W), np.int64)
        pred = np.zeros((H, W), np.int64)
        dt, labs = rng.choice([(np.uint8, [128, 3]), (np.uint8, [100, 7]), (np.uint16, [32768, 5]), (np.uint8, [255, 1]), (np.uint16, [65535, 2])])
        y0, x0 = rng.randint(0, 2), rng.randint(0, 2)
        h, w = rng.randint(3, H - 3), rng.randint(3, 8)
        ref[y0:y0 + h, x0:x0 + w] = labs[0]
        pred[y0:y0 + h, x0:x0 + w + rng.choice([0, 1, 1])] = labs[0]
        ref[H - 2:H, W - 3:W - 1] = labs[1]
        pred[H - 2:H, W - 3:W - 1] = labs[1]
        ref, pred = ref.astype(dt), pred.astype(dt)
        mlist = rng.choice([["ASSD", "IOU"], ["ASSD", "IOU"], ["IOU", "ASSD"], ["DSC", "DSC", "ASSD", "IOU"], ["IOU", "DSC", "IOU", "ASSD"],
                            ["DSC", "IOU", "DSC", "IOU", "ASSD"], ["RVD", "ASSD", "ASSD"], ["ASSD"]])
        cfg = E.mk_cfg("MATCHED", mlist)
        if len(set(mlist)) != len(mlist):
            ctx.count("pipeline_metric_named_twice")
        res = E.run_impl(cfg, pred, ref)
        inp = {"shape": [H, W], "dtype": str(np.dtype(dt)), "ref": gen.arr_json(ref), "pred": gen.arr_json(pred), "sel": None, "pipeline": True,
               "metrics": mlist, "src": f"pipe{k}"}
        ctx.case(inp, True)
        ctx.count("pipeline_assd")
        if isinstance(res, str):
            ctx.violation(f"evaluation raised {res}", inp, key={"kind": "raises"})
            continue
        got = sorted(res["ungrouped"]["list_ASSD"]) if not isinstance(res["ungrouped"]["list_ASSD"], str) else res["ungrouped"]["list_ASSD"]
        want = sorted(oracle.assd_brute(ref == l, pred == l) for l in labs)
        if isinstance(got, str) or len(got) != len(want) or any(not close(a, b) for a, b in zip(got, want)):
            ctx.violation(f"per-instance ASSD through the evaluator is {got}, but the definition on the instance masks gives {want} "
                          f"(the crop must not change ASSD)", inp, impl=got, model=want, key={"kind": "assd-embedding"})


def sibling_metrics_corpus(ctx):
    """ASSD evaluated after other metrics on the same instance masks (centre-line Dice, Dice, IoU, RVD before it in the metric list; and
    direct calls one after the other on the caller's boolean masks): ASSD is a function of the two masks it is given"""
    import evalutil as E
    scenes = []
    ref = np.zeros((6, 9, 9), np.uint8)
    pred = np.zeros_like(ref)
    ref[1:5, 1:5, 1:5], pred[1:5, 1:5, 2:6] = 1, 1
    ref[1:4, 6:8, 5:8], pred[2:5, 6:8, 5:8] = 2, 2
    scenes.append((ref, pred, [1, 2]))
    ref2 = np.zeros((9, 12), np.uint8)
    pred2 = np.zeros_like(ref2)
    ref2[2:7, 2:9], pred2[3:8, 3:10] = 1, 1
    scenes.append((ref2, pred2, [1]))
    for ref, pred, labs in scenes:
        for mlist in (["DSC", "clDSC", "ASSD"], ["clDSC", "ASSD"], ["ASSD", "clDSC"], ["IOU", "RVD", "DSC", "ASSD"], ["clDSC", "IOU", "ASSD", "DSC"]):
            cfg = E.mk_cfg("MATCHED", mlist)
            res = E.run_impl(cfg, pred, ref)
            inp = {"shape": list(ref.shape), "dtype": "uint8", "ref": gen.arr_json(ref), "pred": gen.arr_json(pred), "sel": None, "pipeline": True,
                   "metrics": mlist, "src": "corpus.sibling-metrics"}
            ctx.case(inp, True)
            ctx.count("assd_after_sibling_metrics")
            if isinstance(res, str):
                ctx.violation(f"evaluation with metrics {mlist} raised {res}", inp, key={"kind": "raises"})
                continue
            got = res["ungrouped"]["list_ASSD"]
            want = sorted(oracle.assd_brute(ref == l, pred == l) for l in labs)
            if isinstance(got, str) or len(got) != len(want) or any(not close(a, b) for a, b in zip(sorted(got), want)):
                ctx.violation(f"per-instance ASSD with the metric list {mlist} is {got}, the definition on the instance masks gives {want}", inp, impl=got, model=want,
                              key={"kind": "assd-embedding"})
        # direct calls on the caller's masks
        for l in labs:
            r, p = (ref == l), (pred == l)
            rb, pb = r.tobytes(), p.tobytes()
            with quiet(), np.errstate(all="ignore"):
                for other in ("clDSC", "DSC", "IOU"):
                    try:
                        impl.METRICS[other](r, p)
                    except Exception:
                        pass
            inp = {"shape": list(ref.shape), "ref": gen.arr_json(r.astype(np.uint8)), "pred": gen.arr_json(p.astype(np.uint8)), "sel": None, "src": "corpus.sibling-metrics.direct"}
            ctx.case(inp, True)
            if r.tobytes() != rb or p.tobytes() != pb:
                ctx.violation("a metric called on the caller's boolean masks changed them (ASSD computed afterwards sees other masks)", inp, key={"kind": "assd-value"})
                continue
            one_case(ctx, r.astype(np.uint8), p.astype(np.uint8), "corpus.sibling-metrics.direct")


def run(ctx):
    corpus(ctx)
    sibling_metrics_corpus(ctx)
    same_bytes_corpus(ctx)
    inplace_history_corpus(ctx)
    very_far(ctx, ctx.scale(2, 8))
    pipeline_cases(ctx, ctx.scale(25, 250))
    run_cases(ctx, ctx.scale(600, 6000), "rand")


def search(ctx):
    run_cases(ctx, ctx.scale(1200, 5000), "search")


def replay(ctx, rec):
    i = rec["input"]
    if i.get("form"):
        ref = np.array(i["ref"], dtype=np.uint8).reshape(i["shape"])
        pred = np.array(i["pred"], dtype=np.uint8).reshape(i["shape"])
        v = assd_impl(ref, pred)
        ctx.case(i, True)
        for name, r2, p2 in forms.pair_forms(ref, pred, which=[i["form"]]):
            try:
                w = assd_impl(r2, p2)
            except Exception as e:
                w = "ERR:" + type(e).__name__
            if isinstance(w, str) or not close(v, w):
                ctx.violation(f"ASSD depends on the form of the input ({name}): {w} vs {v}", i, key={"kind": "assd-form"})
        return
    if i.get("pipeline"):
        import evalutil as E
        dt = np.dtype(i["dtype"])
        ref = np.array(i["ref"], dtype=dt).reshape(i["shape"])
        pred = np.array(i["pred"], dtype=dt).reshape(i["shape"])
        res = E.run_impl(E.mk_cfg("MATCHED", i.get("metrics", ["ASSD", "IOU"])), pred, ref)
        ctx.case(i, True)
        labs = sorted(set(np.unique(ref).tolist()) - {0})
        want = sorted(oracle.assd_brute(ref == l, pred == l) for l in labs)
        got = sorted(res["ungrouped"]["list_ASSD"]) if isinstance(res, dict) else res
        if isinstance(got, str) or len(got) != len(want) or any(not close(a, b) for a, b in zip(got, want)):
            ctx.violation(f"per-instance ASSD through the evaluator is {got}, definition gives {want}", i, key={"kind": "assd-embedding"})
        return
    if i.get("src") == "corpus.inplace-history":
        inplace_history_corpus(ctx)      # the failing call needs the calls before it (same array objects, other contents)
        return
    if i.get("src") == "corpus.same-bytes":
        same_bytes_corpus(ctx)          # the failing call needs the calls before it (same process, same buffers)
        return
    one_case(ctx, np.array(i["ref"], dtype=np.uint8).reshape(i["shape"]), np.array(i["pred"], dtype=np.uint8).reshape(i["shape"]),
             "replay", sel=i.get("sel"))
