"""C08 — zero-true-positive cases report exactly what the edge-case handler prescribes."""
from __future__ import annotations
import math
import numpy as np
import forms, impl, gen, evalutil as E
from common import same_value

RULE = ("the scenarios with log_times / verbose switched on (constructor option, call keyword, function keyword) and under a strict process state (numpy raising on every floating-point anomaly, warnings as errors); the scenarios also through other public forms (handler objects built positionally in the documented order; panoptic_evaluate called directly with keyword arguments); half of the cases on long-lived evaluators that see the four scenarios in random order; random edge-case handlers (per metric 4 scenario values drawn without replacement from the 5 possible results, "
        "random empty-list value) x scenario {no instances, empty prediction, empty reference, instances without a match} "
        "x input type {SEMANTIC, UNMATCHED, MATCHED} x metric selections; plus tp>0 cases under two different handlers; "
        "non-trivial = handler with pairwise distinct scenario values for some evaluated metric and a zero-TP scenario")

VALS = ["INF", "NAN", "ZERO", "ONE", "NONE"]


def rand_handler(rng, metrics):
    tbl = []
    for m in ["DSC", "clDSC", "IOU", "ASSD", "RVD"]:
        if rng.random() < 0.85:
            v = rng.sample(VALS, 4)
        else:
            v = [rng.choice(VALS) for _ in range(4)]
        tbl.append([m, {"NO_INSTANCES": v[0], "EMPTY_PRED": v[1], "EMPTY_REF": v[2], "NORMAL": v[3]}])
    rng.shuffle(tbl)
    return {"table": tbl, "empty_list_std": rng.choice(VALS)}


def scenario_arrays(rng, scen, input_type, counts=None):
    shape = gen.rand_shape(rng, ndim=rng.choice([2, 2, 3]), lo=4, hi=7)
    z = np.zeros(shape, np.uint8)
    k_p, k_r = counts or (rng.randint(1, 3), rng.randint(1, 3))
    def objs(n, lo_half):
        a = np.zeros(shape, np.uint8)
        for l in range(1, n + 1):
            tmp = np.zeros(shape, np.uint8)
            gen.put_object(rng, tmp, 1, kind=rng.choice(["voxel", "box", "line"]))
            half = shape[0] // 2
            if lo_half:
                tmp[half:] = 0
            else:
                tmp[:half] = 0
            a[(tmp == 1) & (a == 0)] = l
        return a
    if scen == "NO_INSTANCES":
        return z, z.copy()
    if scen == "EMPTY_PRED":
        r = objs(rng.randint(1, 3), True)
        return (z, r) if r.any() else None
    if scen == "EMPTY_REF":
        p = objs(rng.randint(1, 3), True)
        return (p, z) if p.any() else None
    if scen == "TP":
        # the reference predicted exactly (thin objects included: single voxels, lines, one-slice boxes)
        r = objs(k_r, True)
        return (r.copy(), r) if r.any() else None
    # NORMAL: instances on both sides, none matched (disjoint halves; different labels for matched input)
    p, r = objs(k_p, True), objs(k_r, False)
    if not p.any() or not r.any():
        return None
    if input_type == "MATCHED":
        p = np.where(p > 0, p + 10, 0).astype(np.uint8)
    return p, r


def one_case(ctx, pred, ref, cfg, scen, src, evaluator=None, history=None):
    inp = {"shape": list(pred.shape), "pred": gen.arr_json(pred), "ref": gen.arr_json(ref), "cfg": cfg, "scenario": scen, "src": src,
           "history": history or []}
    res = E.run_impl(cfg, pred, ref, evaluator=evaluator)
    h = {m: z for m, z in cfg["handler"]["table"]}
    distinct = any(len(set(h[m].values())) == 4 for m in cfg["eval_metrics"] if m in h)
    ctx.case(inp, distinct and scen != "TP", sample={k: inp[k] for k in ("shape", "pred", "ref", "scenario")} | {"handler": cfg["handler"]} if pred.size <= 30 else None)
    ctx.count("scenario." + scen)
    ctx.count("input." + cfg["input"])
    if isinstance(res, str):
        ctx.violation(f"evaluation raised {res} in a zero-TP scenario {scen}", inp, impl=res, key={"kind": "raises"})
        return
    s = res["ungrouped"]
    if scen != "TP":
        fails = []
        if s["tp"] != 0:
            fails.append(f"tp={s['tp']} in scenario {scen}")
        if s["fp"] != s["num_pred_instances"] or s["fn"] != s["num_ref_instances"]:
            fails.append(f"fp/fn {s['fp']},{s['fn']} are not the instance counts {s['num_pred_instances']},{s['num_ref_instances']}")
        n_pred_exp = 0 if scen in ("NO_INSTANCES", "EMPTY_PRED") else None
        n_ref_exp = 0 if scen in ("NO_INSTANCES", "EMPTY_REF") else None
        if n_pred_exp is not None and s["num_pred_instances"] != 0:
            fails.append("prediction instances reported for an empty prediction")
        if n_ref_exp is not None and s["num_ref_instances"] != 0:
            fails.append("reference instances reported for an empty reference")
        for m in cfg["eval_metrics"]:
            sqn, stdn, _ = E.NAMES[m]
            want = E.edge_py(h[m][scen])
            if isinstance(s[sqn], str) or not same_value(s[sqn], want, exact=True):
                fails.append(f"{sqn} = {s[sqn]}, but the handler prescribes {h[m][scen]} for {scen}")
            want_std = E.edge_py(cfg["handler"]["empty_list_std"])
            if isinstance(s[stdn], str) or not same_value(s[stdn], want_std, exact=True):
                fails.append(f"{stdn} = {s[stdn]}, but the configured empty-list value is {cfg['handler']['empty_list_std']}")
        if fails:
            ctx.violation("C08 violated: " + fails[0], inp, impl=s, key={"kind": "zero-tp"})
    mod = E.run_model(ctx, cfg, pred, ref)
    if "error" in mod:
        ctx.disagree("model raises", inp, s, mod)
        return
    diffs = E.compare_result(ctx, inp, s, mod["ok"], cfg)
    if diffs:
        ctx.disagree("result field " + diffs[0][0], inp, str(diffs[0][1]), str(diffs[0][2]), note=str(diffs[:3]))
    return s


def tp_independent_of_handler(ctx, pred, ref, cfg, got, history):
    """with a true positive the handler has no influence: the same scene under a fresh evaluator whose handler prescribes other
    values everywhere gives the same result as `got` (obtained from a possibly long-lived evaluator)"""
    other = {"table": [[m, {k: VALS[(VALS.index(v) + 1) % len(VALS)] for k, v in z.items()}] for m, z in cfg["handler"]["table"]],
             "empty_list_std": cfg["handler"]["empty_list_std"]}
    cfg2 = dict(cfg, handler=other)
    r2 = E.run_impl(cfg2, pred, ref)
    inp = {"shape": list(pred.shape), "pred": gen.arr_json(pred), "ref": gen.arr_json(ref), "cfg": cfg, "cfg2": cfg2, "scenario": "TP", "history": history}
    ctx.case(inp, False)
    ctx.count("tp>0.handler-swap")
    b = r2["ungrouped"] if isinstance(r2, dict) else r2
    if not isinstance(b, dict):
        ctx.violation(f"evaluation raised {b} on a scene with true positives", inp, key={"kind": "raises"})
        return
    if b["tp"] == 0:
        ctx.violation("C08 violated: a prediction identical to the reference is reported with tp = 0 (so that the edge-case handler decides the result)", inp,
                      impl={"result": b}, key={"kind": "handler-influence"})
        return
    sq_keys = [n for m in cfg["eval_metrics"] for n in E.NAMES[m][:1]]      # with tp >= 1 the std may still be the empty-list value (one sample) -- not compared
    bad = [k for k in got if k in b and (k in sq_keys or not k.startswith("sq")) and not isinstance(got[k], (str, list)) and not same_value(got[k], b[k])]
    if bad:
        ctx.violation(f"C08 violated: with tp > 0 the result depends on the edge-case handler or on what the evaluator saw before ({bad[0]}: {got[bad[0]]} vs {b[bad[0]]})", inp,
                      impl={"shared": got, "fresh_other_handler": b}, key={"kind": "handler-influence"})


def run_cases(ctx, n, tag):
    rng = ctx.rng
    for i in range(n):
        it = rng.choice(["SEMANTIC", "UNMATCHED", "MATCHED"])
        metrics = rng.sample(["IOU", "DSC", "RVD", "ASSD"], rng.randint(1, 4))
        hnd = rand_handler(rng, metrics)
        if i % 4 == 1:
            # a handler that defines exactly the evaluated metrics (not all five), with its own empty-list value
            hnd = {"table": [e for e in hnd["table"] if e[0] in metrics], "empty_list_std": hnd["empty_list_std"]}
            ctx.count("handler_defines_only_the_evaluated_metrics")
        scen = rng.choice(["NO_INSTANCES", "EMPTY_PRED", "EMPTY_REF", "NORMAL", "NORMAL"])
        arrs = scenario_arrays(rng, scen, it)
        if arrs is None:
            continue
        cfg = E.mk_cfg(it, metrics, matcher=E.naive("IOU", (1, 2)) if it != "MATCHED" else None, handler=hnd,
                       backend=rng.choice([None, "cc3d", "scipy"]) if it == "SEMANTIC" else None)
        if rng.random() < 0.5:
            one_case(ctx, arrs[0], arrs[1], cfg, scen, f"{tag}{i}")
        else:
            # a long-lived evaluator (and handler object) sees several scenarios in sequence
            with impl.quiet():
                ev = impl.mk_evaluator(cfg)
            hist = []
            # zero-TP scenarios interleaved with scenes that do have true positives and the *same instance counts*
            k = rng.randint(1, 2)
            order = ["NO_INSTANCES", "EMPTY_PRED", "EMPTY_REF", "NORMAL", "TP", "NORMAL", "TP"]
            rng.shuffle(order)
            for sc in order:
                a2 = scenario_arrays(rng, sc, it, counts=(k, k))
                if a2 is None:
                    continue
                s_seq = one_case(ctx, a2[0], a2[1], cfg, sc, f"{tag}{i}.seq", evaluator=ev,
                                 history=list(hist))
                if sc == "TP" and isinstance(s_seq, dict):
                    tp_independent_of_handler(ctx, a2[0], a2[1], cfg, s_seq, list(hist))
                hist.append([sc, gen.arr_json(a2[0]), gen.arr_json(a2[1]), list(a2[0].shape)])
            ctx.count("shared_evaluator_sequences")
        if rng.random() < 0.25:
            # tp > 0: the handler has no influence
            pred, ref = gen.pair(rng, hi=6, max_obj=3, allow_empty=False)
            it2 = rng.choice(["MATCHED", "UNMATCHED", "SEMANTIC"])
            if rng.random() < 0.5:
                thin = scenario_arrays(rng, "TP", it2)
                if thin is not None:
                    pred, ref = thin
                    ctx.count("tp>0.thin-identical-objects")
            mt = E.naive("IOU", (1, 2)) if it2 != "MATCHED" else None
            cfg1 = E.mk_cfg(it2, metrics, matcher=mt, handler=hnd)
            cfg2 = E.mk_cfg(it2, metrics, matcher=mt, handler=rand_handler(rng, metrics))
            r1, r2 = E.run_impl(cfg1, pred, ref), E.run_impl(cfg2, pred, ref)
            if isinstance(r1, dict) and r1["ungrouped"]["tp"] > 0:
                ctx.count("tp>0.handler-swap")
                a, b = r1["ungrouped"], r2["ungrouped"] if isinstance(r2, dict) else r2
                inp = {"shape": list(pred.shape), "pred": gen.arr_json(pred), "ref": gen.arr_json(ref), "cfg": cfg1, "cfg2": cfg2, "scenario": "TP"}
                ctx.case(inp, False)
                if not isinstance(b, dict) or any(not same_value(a[k], b[k]) if not isinstance(a[k], (str, list)) else a[k] != b[k] for k in a):
                    ctx.violation("with tp > 0 the result depends on the edge-case handler", inp, impl={"h1": a, "h2": b}, key={"kind": "handler-influence"})


def single_group_cases(ctx, n):
    """a single-instance class group whose class is absent from the prediction, the reference or both"""
    rng = ctx.rng
    for k in range(n):
        metrics = rng.sample(["IOU", "DSC", "RVD", "ASSD"], rng.randint(1, 3))
        hnd = rand_handler(rng, metrics)
        it = rng.choice(["SEMANTIC", "UNMATCHED"])
        scen = rng.choice(["NO_INSTANCES", "EMPTY_PRED", "EMPTY_REF"])
        z = np.zeros((5, 5), np.uint8)
        o = z.copy()
        o[1:3, 1:4] = 1
        other = z.copy()
        other[4, 0:2] = 2
        pred = (z if scen in ("NO_INSTANCES", "EMPTY_PRED") else o) + other
        ref = (z if scen in ("NO_INSTANCES", "EMPTY_REF") else o) + (other if rng.random() < 0.5 else z)
        groups = [{"name": "organ", "labels": [1], "merge": False, "single": True}, {"name": "rest", "labels": [2], "merge": False, "single": False}]
        cfg = E.mk_cfg(it, metrics, matcher=E.naive("IOU", (1, 2)), handler=hnd)
        res = E.run_impl(cfg, pred.astype(np.uint8), ref.astype(np.uint8), groups=groups)
        inp = {"shape": [5, 5], "pred": gen.arr_json(pred), "ref": gen.arr_json(ref), "cfg": cfg, "scenario": scen, "groups": groups, "src": f"single{k}"}
        ctx.case(inp, True)
        ctx.count("single_instance_group." + scen)
        if isinstance(res, str):
            ctx.violation(f"evaluation raised {res} in a zero-TP scenario {scen} (single-instance group)", inp, key={"kind": "raises"})
            continue
        s = res["organ"]
        h = {m: zz for m, zz in hnd["table"]}
        n_pred = 0 if scen in ("NO_INSTANCES", "EMPTY_PRED") else 1
        n_ref = 0 if scen in ("NO_INSTANCES", "EMPTY_REF") else 1
        fails = []
        if (s["tp"], s["fp"], s["fn"]) != (0, n_pred, n_ref):
            fails.append(f"tp/fp/fn = {s['tp']}/{s['fp']}/{s['fn']}, but the class has {n_pred} predicted and {n_ref} reference instance(s)")
        for m in metrics:
            sqn, stdn, _ = E.NAMES[m]
            if isinstance(s[sqn], str) or not same_value(s[sqn], E.edge_py(h[m][scen]), exact=True):
                fails.append(f"{sqn} = {s[sqn]}, but the handler prescribes {h[m][scen]} for {scen}")
        if fails:
            ctx.violation("C08 violated (single-instance group): " + fails[0], inp, impl=s, key={"kind": "zero-tp"})


def zero_tp_fails(s, cfg, scen):
    """the property's demands on one result summary in a zero-TP scenario"""
    h = {m: z for m, z in cfg["handler"]["table"]}
    fails = []
    if s["tp"] != 0:
        fails.append(f"tp={s['tp']} in scenario {scen}")
    if s["fp"] != s["num_pred_instances"] or s["fn"] != s["num_ref_instances"]:
        fails.append(f"fp/fn {s['fp']},{s['fn']} are not the instance counts {s['num_pred_instances']},{s['num_ref_instances']}")
    for m in cfg["eval_metrics"]:
        sqn, stdn, _ = E.NAMES[m]
        want = E.edge_py(h[m][scen])
        if isinstance(s[sqn], str) or not same_value(s[sqn], want, exact=True):
            fails.append(f"{sqn} = {s[sqn]}, but the handler prescribes {h[m][scen]} for {scen}")
        want_std = E.edge_py(cfg["handler"]["empty_list_std"])
        if isinstance(s[stdn], str) or not same_value(s[stdn], want_std, exact=True):
            fails.append(f"{stdn} = {s[stdn]}, but the configured empty-list value is {cfg['handler']['empty_list_std']}")
    return fails


def handler_positional(h):
    """the same handler built with positional arguments in the documented order
    (default_result, no_instances_result, empty_prediction_result, empty_reference_result, normal)"""
    from panoptica.utils.edge_case_handling import MetricZeroTPEdgeCaseHandling, EdgeCaseHandler
    tbl = {}
    for m, z in h["table"]:
        tbl[impl.METRICS[m]] = MetricZeroTPEdgeCaseHandling(None, impl.EDGE[z["NO_INSTANCES"]], impl.EDGE[z["EMPTY_PRED"]],
                                                            impl.EDGE[z["EMPTY_REF"]], impl.EDGE[z["NORMAL"]])
    return EdgeCaseHandler(tbl, impl.EDGE[h["empty_list_std"]])


def entry_form_case(ctx, pred, ref, cfg, scen, form, src):
    """the same scenarios through other public forms: handler objects built positionally, and the function
    panoptic_evaluate called directly with keyword arguments"""
    from panoptica.panoptica_evaluator import panoptic_evaluate
    from panoptica import Panoptica_Evaluator
    from panoptica.utils.processing_pair import SemanticPair, UnmatchedInstancePair, MatchedInstancePair
    from panoptica import ConnectedComponentsInstanceApproximator
    inp = {"shape": list(pred.shape), "pred": gen.arr_json(pred), "ref": gen.arr_json(ref), "cfg": cfg, "scenario": scen, "form": form, "src": src}
    ctx.case(inp, True)
    ctx.count("entry_form." + form)
    hnd = handler_positional(cfg["handler"]) if "positional" in form else impl.mk_handler(cfg["handler"])
    metrics = [impl.METRICS[m] for m in cfg["eval_metrics"]]
    matcher = impl.mk_matcher(cfg["matcher"]) if cfg.get("matcher") else None
    import contextlib
    lt = "log_times" in form
    state = forms.strict_state() if "strict" in form else np.errstate(all="ignore")
    try:
        with impl.quiet(), state:
            if "function" in form:
                pair = {"SEMANTIC": SemanticPair, "UNMATCHED": UnmatchedInstancePair, "MATCHED": MatchedInstancePair}[cfg["input"]](pred.copy(), ref.copy())
                r, _ = panoptic_evaluate(pair, instance_approximator=ConnectedComponentsInstanceApproximator(), instance_matcher=matcher,
                                         instance_metrics=metrics, global_metrics=[], edge_case_handler=hnd, log_times=lt, verbose=lt)
            else:
                ev = Panoptica_Evaluator(expected_input=impl.INPUT[cfg["input"]], instance_approximator=ConnectedComponentsInstanceApproximator(),
                                         instance_matcher=matcher, edge_case_handler=hnd, instance_metrics=metrics, global_metrics=[],
                                         log_times=lt and "ctor" in form)
                r = ev.evaluate(pred.copy(), ref.copy(), **({"log_times": True, "verbose": True} if lt and "ctor" not in form else {}))["ungrouped"][0]
            s = impl.result_summary(r, cfg["eval_metrics"])
    except Exception as e:
        ctx.violation(f"evaluation ({form}) raised {type(e).__name__} in zero-TP scenario {scen}", inp, key={"kind": "raises"})
        return
    fails = zero_tp_fails(s, cfg, scen)
    if fails:
        ctx.violation(f"C08 violated ({form}): " + fails[0], inp, impl=s, key={"kind": "zero-tp"})


def entry_form_cases(ctx, n):
    rng = ctx.rng
    for i in range(n):
        it = rng.choice(["SEMANTIC", "UNMATCHED", "MATCHED"])
        metrics = rng.sample(["IOU", "DSC", "RVD", "ASSD"], rng.randint(1, 4))
        hnd = rand_handler(rng, metrics)
        scen = rng.choice(["NO_INSTANCES", "EMPTY_PRED", "EMPTY_REF", "NORMAL"])
        arrs = scenario_arrays(rng, scen, it)
        if arrs is None:
            continue
        cfg = E.mk_cfg(it, metrics, matcher=E.naive("IOU", (1, 2)) if it != "MATCHED" else None, handler=hnd)
        entry_form_case(ctx, arrs[0], arrs[1], cfg, scen, rng.choice(["evaluator+positional-handler", "function+keyword-handler", "function+positional-handler",
                                                                     "evaluator+log_times", "evaluator+ctor+log_times", "function+log_times",
                                                                     "evaluator+strict-numeric-state", "function+strict-numeric-state"]),
                        f"form{i}")


def many_components_corpus(ctx):
    """zero-TP scenes with 255 / 256 / 257 / 300 isolated one-pixel components on one side (semantic input, so the instance maps are
    made by the library and their dtype is its choice) and one disjoint blob on the other: fp / fn are the component counts"""
    rng = ctx.rng
    for n in ((256, 300) if ctx.quick else (255, 256, 257, 300, 399)):
        many = np.zeros((44, 42), np.uint8)
        k = 0
        for i in range(0, 38, 2):
            for j in range(0, 42, 2):
                if k < n:
                    many[i, j] = 1 + (k % 3)
                    k += 1
        n_many = int((many != 0).sum())
        blob = np.zeros((44, 42), np.uint8)
        blob[40:43, 3:9] = 1
        hnd = rand_handler(rng, ["IOU", "DSC"])
        for backend in (None, "scipy"):
            cfg = E.mk_cfg("SEMANTIC", ["IOU", "DSC"], matcher=E.naive("IOU", (1, 2)), handler=hnd, backend=backend)
            for pred, ref in ((many, blob), (blob, many)):
                ctx.count("zero_tp_with_hundreds_of_components")
                s = one_case(ctx, pred, ref, cfg, "NORMAL", f"corpus.many-components-{n_many}")
                want = (n_many, 1) if pred is many else (1, n_many)
                if isinstance(s, dict) and (s["num_pred_instances"], s["num_ref_instances"]) != want:
                    inp = {"shape": list(pred.shape), "pred": gen.arr_json(pred), "ref": gen.arr_json(ref), "cfg": cfg, "scenario": "NORMAL",
                           "src": "corpus.many-components", "history": []}
                    ctx.violation(f"C08 violated: {want[0]} isolated prediction and {want[1]} reference components without a match are reported as "
                                  f"{s['num_pred_instances']} and {s['num_ref_instances']} instances (fp = {s['fp']}, fn = {s['fn']})", inp, impl=s, key={"kind": "zero-tp"})


def all_rejected_corpus(ctx):
    """instances on both sides, every candidate pair evaluated and every one rejected by the decision threshold: zero true positives,
    so the handler's NORMAL value and the configured empty-list value are reported (not statistics of the rejected scores)"""
    rng = ctx.rng
    ref = np.zeros((4, 16), np.uint8)
    pred = np.zeros((4, 16), np.uint8)
    ref[0:2, 0:6], ref[2:4, 9:15] = 1, 2
    pred[0:2, 4:8], pred[2:4, 13:16] = 1, 2          # IoU 1/4 and 1/7
    for it in ("MATCHED", "UNMATCHED", "SEMANTIC"):
        for dm, t in (("IOU", (1, 2)), ("DSC", (3, 4))):
            hnd = rand_handler(rng, ["IOU", "DSC", "RVD"])
            cfg = E.mk_cfg(it, ["IOU", "DSC", "RVD"], matcher=E.naive("IOU", (1, 20)) if it != "MATCHED" else None, handler=hnd, decision=[dm, {"q": list(t)}])
            ctx.count("all_candidates_rejected_by_decision")
            one_case(ctx, pred, ref, cfg, "NORMAL", "corpus.all-rejected")


def default_arguments_history(ctx):
    """evaluators that rely on the constructor's default metric list, before and after another evaluator was constructed with a
    decision metric outside that list: a zero-TP scene under a handler that defines exactly the default metrics is reported, not refused"""
    M = impl.METRICS
    tbl = {m: z for m, z in rand_handler(ctx.rng, ["DSC", "IOU", "ASSD", "RVD"])["table"] if m != "clDSC"}
    hspec = {"table": [[m, z] for m, z in tbl.items()], "empty_list_std": "NAN"}
    z = np.zeros((4, 6), np.uint8)
    a = z.copy()
    a[1:3, 1:4] = 1
    inp = {"default_arguments_history": True, "handler": hspec}
    ctx.case(inp, True)
    ctx.count("default_argument_histories")
    res = []
    for stage in ("before", "after"):
        try:
            with impl.quiet():
                ev = impl.Panoptica_Evaluator(expected_input=impl.INPUT["MATCHED"], edge_case_handler=impl.mk_handler(dict(hspec, form="full")))
                out = ev.evaluate(z, a)["ungrouped"][0]
                res.append({k: getattr(out, k) for k in ("tp", "fp", "fn", "sq", "sq_dsc", "sq_rvd")})
                if stage == "before":
                    try:
                        impl.Panoptica_Evaluator(expected_input=impl.INPUT["MATCHED"], decision_metric=M["clDSC"], decision_threshold=0.5)
                    except Exception:
                        ctx.count("decision_metric_outside_metric_list_refused")
        except Exception as e:
            ctx.violation(f"C08 violated: an evaluator with the default metric list and a handler defining exactly those metrics cannot report a zero-TP scene "
                          f"({stage} another evaluator was constructed with a decision metric outside the list): {type(e).__name__}: {str(e)[:140]}", inp, key={"kind": "raises"})
            return
    if len(res) == 2 and any(not same_value(res[0][k], res[1][k]) for k in res[0]):
        ctx.violation(f"C08 violated: the zero-TP report of a default-metrics evaluator changed after another evaluator was constructed: {res[0]} -> {res[1]}", inp,
                      key={"kind": "zero-tp"})


def run(ctx):
    many_components_corpus(ctx)
    all_rejected_corpus(ctx)
    default_arguments_history(ctx)
    entry_form_cases(ctx, ctx.scale(150, 1500))
    single_group_cases(ctx, ctx.scale(40, 400))
    run_cases(ctx, ctx.scale(900, 9000), "rand")


def search(ctx):
    run_cases(ctx, ctx.scale(1500, 6000), "search")


def replay(ctx, rec):
    i = rec["input"]
    if i.get("form"):
        entry_form_case(ctx, np.array(i["pred"], dtype=np.uint8).reshape(i["shape"]), np.array(i["ref"], dtype=np.uint8).reshape(i["shape"]),
                        i["cfg"], i["scenario"], i["form"], "replay")
        return
    if i.get("groups"):
        single_group_cases(ctx, 60)
        return
    if i.get("default_arguments_history"):
        default_arguments_history(ctx)
        return
    ev = None
    if i.get("history"):
        with impl.quiet():
            ev = impl.mk_evaluator(i["cfg"])
        for sc, p, r, sh in i["history"]:
            E.run_impl(i["cfg"], np.array(p, dtype=np.uint8).reshape(sh), np.array(r, dtype=np.uint8).reshape(sh), evaluator=ev)
    pred, ref = np.array(i["pred"], dtype=np.uint8).reshape(i["shape"]), np.array(i["ref"], dtype=np.uint8).reshape(i["shape"])
    got = one_case(ctx, pred, ref, i["cfg"], i["scenario"], "replay", evaluator=ev)
    if i["scenario"] == "TP" and isinstance(got, dict):
        tp_independent_of_handler(ctx, pred, ref, i["cfg"], got, i.get("history") or [])
