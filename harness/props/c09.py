"""C09 — results do not depend on label values, label order or integer dtype."""
from __future__ import annotations
from fractions import Fraction
import numpy as np
import forms, impl, gen, oracle, evalutil as E
from impl import quiet, F
from props.c10 import summ_equal

RULE = ("the invariance re-checked in child interpreters (python -O; multiprocessing start method forkserver with the real worker pool) on pairs whose two sides share label values; class-group scenes under consistent renaming of array labels and group definitions (incl. label sets whose set-iteration order is not ascending or looks contiguous); base pairs x input types x matchers x injective relabellings of prediction and reference labels into [1, 2^24) "
        "biased to {2^k-1, 2^k, 2^k+1} (k = 7,8,15,16,23), to products around 2^32 and to label sums that are multiples of "
        "2^bits x dtypes uint8/16/32/64 (signed int32/int64 for semantic input); matched input relabelled jointly; "
        "non-trivial = relabelling is not the identity and hits a boundary class; cases with tied competing candidates "
        "are only checked for validity (C03), not equality")

BOUND = [127, 128, 129, 255, 256, 257, 512, 32767, 32768, 65280, 65535, 65536, 65537, 70000, 2 ** 23 - 1, 2 ** 23, 2 ** 24 - 1]


def relabel(a, mapping, dtype):
    out = np.zeros(a.shape, dtype)
    for k, v in mapping.items():
        out[a == k] = v
    return out


def pick_labels(rng, n, hi):
    pool = [b for b in BOUND if b <= hi]
    out = set()
    while len(out) < n:
        out.add(rng.choice(pool) if pool and rng.random() < 0.6 else rng.randint(1, min(hi, 300)))
    out = list(out)
    rng.shuffle(out)
    return out


def tie_or_fragile(cfg, pred, ref):
    if cfg["input"] != "UNMATCHED" or cfg["matcher"] is None:
        return False
    mc = cfg["matcher"]
    t = mc["thr"]["q"]
    _, fragile, info = oracle.check_matching(pred, ref, mc["metric"], Fraction(t[0], t[1]), mc.get("m2o", False), {})
    return info["tie"] or fragile


GM = ["DSC", "IOU"]          # global metrics are reported values too (computed from the label maps the result object receives)


def global_equal(a, b):
    from common import same_value
    for m in GM:
        k = "global_bin_" + m.lower()
        if k in a and k in b and not (isinstance(a[k], str) and isinstance(b[k], str)) and (isinstance(a[k], str) or isinstance(b[k], str) or not same_value(a[k], b[k])):
            return f"{k}: {a[k]} vs {b[k]}"
    return None


def one_case(ctx, pred, ref, cfg, src):
    rng = ctx.rng
    base = E.run_impl(cfg, pred, ref, global_metrics=GM)
    if isinstance(base, str):
        return
    base = base["ungrouped"]
    tie = tie_or_fragile(cfg, pred, ref) or (cfg["input"] == "SEMANTIC")
    # semantic input: relabelling semantic classes must not matter for scipy (label-blind); for cc3d an injective
    # renaming keeps the partition, and the component numbering (hence tie-breaking) is unchanged
    tie = tie and cfg["input"] != "SEMANTIC"
    pl = [int(x) for x in np.unique(pred) if x]
    rl = [int(x) for x in np.unique(ref) if x]
    for k in range(3):
        bits = rng.choice([8, 16, 32, 64]) if cfg["input"] != "SEMANTIC" else rng.choice([8, 16, 32, 64, -32, -64])
        dt = {8: np.uint8, 16: np.uint16, 32: np.uint32, 64: np.uint64, -32: np.int32, -64: np.int64}[bits]
        hi = {8: 255, 16: 65535}.get(abs(bits), 2 ** 24 - 1 if rng.random() < 0.15 else 2 ** 17)
        if cfg["input"] == "MATCHED":
            allp = sorted(set(pl) | set(rl))
            new = pick_labels(rng, len(allp), hi)
            sig = dict(zip(allp, new))
            tau = sig
        else:
            sig = dict(zip(pl, pick_labels(rng, len(pl), hi)))
            tau = dict(zip(rl, pick_labels(rng, len(rl), hi)))
            if abs(bits) in (8, 16) and pl and rl and rng.random() < 0.3:
                # a voxel where pred label + ref label is a multiple of 2^bits
                ov = oracle.overlap_pairs(pred, ref)
                if ov:
                    r0, p0 = rng.choice(ov)
                    a = rng.randint(1, 2 ** abs(bits) - 1)
                    b = 2 ** abs(bits) - a
                    if a not in sig.values() and b not in tau.values():
                        sig[p0], tau[r0] = a, b
        p2, r2 = relabel(pred, sig, dt), relabel(ref, tau, dt)
        inp = {"shape": list(pred.shape), "pred": gen.arr_json(pred), "ref": gen.arr_json(ref), "cfg": cfg,
               "dtype": str(np.dtype(dt)), "sigma": {str(k2): v for k2, v in sig.items()}, "tau": {str(k2): v for k2, v in tau.items()},
               "src": src}
        vals = list(sig.values()) + list(tau.values())
        boundary = any(v in BOUND for v in vals) or any((sig.get(p, 0) + tau.get(r, 0)) % (2 ** abs(bits)) == 0 for r, p in oracle.overlap_pairs(pred, ref))
        ident = all(k2 == v for k2, v in sig.items()) and all(k2 == v for k2, v in tau.items())
        ctx.case(inp, boundary and not ident, sample=inp if pred.size <= 16 else None)
        ctx.count(f"dtype.{np.dtype(dt)}")
        ctx.count("input." + cfg["input"])
        if max(vals, default=0) >= 2 ** 16:
            ctx.count("labels>=2^16")
        got = E.run_impl(cfg, p2, r2, global_metrics=GM)
        if isinstance(got, str):
            ctx.violation(f"evaluation of the relabelled pair raised {got}", inp, impl=got, key={"kind": "raises"})
            continue
        dg = global_equal(base, got["ungrouped"])          # the foregrounds are the same sets of voxels, ties or not
        if dg:
            ctx.violation(f"result changes under relabelling/dtype ({np.dtype(dt)}): {dg}", inp,
                          impl={"base": base, "relabelled": got["ungrouped"]}, key={"kind": "not-invariant"})
            continue
        if tie:
            ctx.count("tie_skipped")
            continue
        d = summ_equal(base, got["ungrouped"], cfg["eval_metrics"])
        if d:
            ctx.violation(f"result changes under relabelling/dtype ({np.dtype(dt)}): {d}", inp,
                          impl={"base": base, "relabelled": got["ungrouped"]}, key={"kind": "not-invariant"})
        # model on the relabelled input (correspondence at the boundary values themselves)
        if pred.size <= 80 and max(vals, default=0) < 2 ** 24:
            mod = E.run_model(ctx, cfg, p2, r2)
            if "error" in mod:
                ctx.disagree("model raises on relabelled input", inp, got["ungrouped"], mod)
            else:
                diffs = E.compare_result(ctx, inp, got["ungrouped"], mod["ok"], cfg)
                if diffs:
                    ctx.disagree("result field " + diffs[0][0] + " (relabelled input)", inp, str(diffs[0][1]), str(diffs[0][2]))


def encoding_case(ctx, src):
    """pair encoding and crop exercised directly with labels up to 2^32 (no look-up table involved); half of the
    cases place the prediction label exactly at floor((2^k - 1) / (max_ref + 1)) (+-1), k in {8, 16, 32}, i.e. where
    pred*(max_ref+1) just fits into k bits but pred*(max_ref+1)+ref does not"""
    rng = ctx.rng
    n = rng.randint(4, 12)
    dt = rng.choice([np.uint32, np.uint64, np.uint64])
    if rng.random() < 0.5:
        k = rng.choice([8, 16, 32, 32])
        top = 2 ** k - 1
        rmax = rng.choice([1, 2, 9, 15, 255, 256, 4095, 65535, 65536, 2 ** 20]) if k == 32 else rng.choice([1, 2, 9, 15] + ([255] if k == 16 else []))
        pb = top // (rmax + 1)
        pls = [max(1, pb + d) for d in (-1, 0, 1)]
        rls = [rmax, max(1, rmax - 1), rng.randint(1, rmax)]
        if k < 32:
            dt = {8: np.uint8, 16: np.uint16}[k] if max(pls + rls) <= top else np.uint32
        ctx.count("encoding_product_boundary")
    else:
        pls = [rng.choice([1, 255, 65535, 65536, 70000, 2 ** 24, 2 ** 31, 2 ** 32 - 1]) for _ in range(3)]
        rls = [rng.choice([1, 255, 65535, 65537, 70000, 2 ** 24 + 1, 2 ** 32 - 2]) for _ in range(3)]
    pred = np.array([rng.choice(pls + [0]) for _ in range(n)], dtype=dt).reshape(1, n)
    ref = np.array([rng.choice(rls + [0]) for _ in range(n)], dtype=dt).reshape(1, n)
    # make sure the boundary prediction label overlaps the largest reference label
    pred[0, 0], ref[0, 0] = pls[1] if len(pls) > 1 else pls[0], rls[0]
    if not ref.any():
        return
    inp = {"shape": [1, n], "dtype": str(pred.dtype), "pred": gen.arr_json(pred), "ref": gen.arr_json(ref), "src": src, "kind": "encoding"}
    ctx.case(inp, True)
    ctx.count("encoding_direct")
    rl = tuple(int(x) for x in np.unique(ref) if x)
    with quiet():
        got = sorted(F._calc_overlapping_labels(pred, ref, rl))
    want = sorted(oracle.overlap_pairs(pred, ref))
    if got != want:
        ctx.violation(f"overlapping label pairs {got} differ from the pairs that share a voxel {want}", inp, impl=got, key={"kind": "encoding"})
    mod = ctx.driver().ask({"op": "overlap", "pred": inp["pred"], "ref": inp["ref"]})
    if sorted(map(tuple, mod)) != got:
        ctx.disagree("overlap pairs", inp, got, mod)


def encoding_boundary_corpus(ctx):
    """deterministic: for k = 32 (uint32 / uint64 arrays) and k = 8, 16, prediction labels at floor((2^k - 1) / (max_ref + 1)) and its
    neighbours overlapping the largest reference label, for a range of max_ref — the place where pred*(max_ref+1) fits
    into k bits and pred*(max_ref+1)+ref does not"""
    for k, dts in ((32, (np.uint32, np.uint64)), (16, (np.uint16, np.uint32)), (8, (np.uint8, np.uint16))):
        top = 2 ** k - 1
        rmaxs = [1, 2, 9, 15, 255, 256, 4095, 65535, 65536, 2 ** 20] if k == 32 else ([1, 2, 9, 15, 255] if k == 16 else [1, 2, 9, 15])
        for rmax in rmaxs:
            pb = top // (rmax + 1)
            for d in (-1, 0, 1):
                p0 = pb + d
                if p0 < 1:
                    continue
                for dt in dts:
                    if max(p0, rmax) > np.iinfo(dt).max:
                        continue
                    pred = np.zeros((1, 8), dt)
                    ref = np.zeros((1, 8), dt)
                    pred[0, 0:3], ref[0, 0:2] = p0, rmax            # the boundary pair overlaps
                    ref[0, 2] = max(1, rmax - 1)
                    pred[0, 5:7], ref[0, 5:8] = 1, 1 if rmax > 1 else rmax
                    inp = {"shape": [1, 8], "dtype": str(pred.dtype), "pred": gen.arr_json(pred), "ref": gen.arr_json(ref), "src": "corpus.encoding-boundary",
                           "kind": "encoding"}
                    ctx.case(inp, True)
                    ctx.count("encoding_boundary_corpus")
                    rl = tuple(int(x) for x in np.unique(ref) if x)
                    with quiet():
                        got = sorted(F._calc_overlapping_labels(pred, ref, rl))
                    want = sorted(oracle.overlap_pairs(pred, ref))
                    if got != want:
                        ctx.violation(f"overlapping label pairs {got} differ from the pairs that share a voxel {want}", inp, impl=got, key={"kind": "encoding"})


def rand_cfg(rng):
    it = rng.choice(["MATCHED", "UNMATCHED", "UNMATCHED", "UNMATCHED", "SEMANTIC"])
    metrics = ["IOU", "DSC", "RVD"] + (["ASSD"] if rng.random() < 0.3 else [])
    if it == "MATCHED":
        return E.mk_cfg(it, metrics)
    mm = rng.choice(["IOU", "DSC"])
    thr = rng.choice([(1, 10), (1, 4), (1, 2), (1, 2)])
    mk = E.naive(mm, thr, rng.random() < 0.2) if rng.random() < 0.8 else E.merge(mm, thr)
    return E.mk_cfg(it, metrics, matcher=mk, backend=rng.choice([None, "cc3d", "scipy"]) if it == "SEMANTIC" else None)


def corpus(ctx):
    cfg = E.mk_cfg("UNMATCHED", ["IOU", "DSC"], matcher=E.naive("IOU", (1, 2)))
    ref = np.zeros((1, 30), np.uint8)
    pred = np.zeros((1, 30), np.uint8)
    ref[0, 0:4] = 1
    pred[0, 0:4] = 1
    ref[0, 20:24] = 2
    pred[0, 20:24] = 2
    pred[0, 27:29] = 3
    one_case(ctx, pred, ref, cfg, "corpus.far-objects")
    one_case(ctx, pred, ref, E.mk_cfg("MATCHED", ["IOU", "DSC"]), "corpus.far-objects")


def merge_label_corpus(ctx):
    """an over-segmented reference (two fragments whose union scores better) under the merge matcher, its reference and
    prediction labels renamed to values on either side of 2^8 and 2^16 and up to 2^24 - 1, the top of the range the property quantifies over (values an interpreter or dtype may treat
    differently from small ones)"""
    ref = np.zeros((6, 20), np.uint8)
    pred = np.zeros((6, 20), np.uint8)
    ref[1:5, 1:11] = 1
    pred[1:5, 1:8] = 1
    pred[1:5, 8:11] = 2
    ref[1:5, 15:18] = 2
    pred[1:5, 15:18] = 3
    for mm in ("IOU", "DSC"):
        cfg = E.mk_cfg("UNMATCHED", ["IOU", "DSC", "RVD"], matcher=E.merge(mm, (1, 2)))
        base = E.run_impl(cfg, pred, ref)["ungrouped"]
        for dt, vals in ((np.uint16, (257, 300, 1000)), (np.uint16, (256, 65535, 5)), (np.uint32, (70000, 257, 2 ** 23)), (np.uint64, (2 ** 20, 2 ** 24 - 1, 258)),
                         (np.uint16, (3, 1, 2)), (np.uint8, (255, 254, 128))):
            a, b, c = vals
            sig, tau = {1: a, 2: b, 3: c}, {1: c, 2: a}
            p2, r2 = relabel(pred, sig, dt), relabel(ref, tau, dt)
            inp = {"shape": [6, 20], "pred": gen.arr_json(pred), "ref": gen.arr_json(ref), "cfg": cfg, "dtype": str(np.dtype(dt)),
                   "sigma": {str(k): v for k, v in sig.items()}, "tau": {str(k): v for k, v in tau.items()}, "src": "corpus.merge-labels"}
            ctx.case(inp, True)
            ctx.count("merge_label_corpus")
            got = E.run_impl(cfg, p2, r2)
            d = "raised " + got if isinstance(got, str) else summ_equal(base, got["ungrouped"], cfg["eval_metrics"])
            if d:
                ctx.violation(f"result changes under relabelling/dtype ({np.dtype(dt)}, merge matcher, labels {vals}): {d}", inp,
                              impl={"base": base, "relabelled": got}, key={"kind": "not-invariant"})


def many_fragments_corpus(ctx):
    """a heavily over-segmented prediction: one reference instance covered by 24-36 predicted fragments of pairwise different
    sizes (every merge improves the score, so the merged set is all of them whatever the order), under the merge matcher;
    the fragments' labels compact (1..n) versus sparse (multiples of 1000, values beyond 2^16 and up to 2^24 - 1, shuffled).
    Library routines that take a *list of labels* may choose their algorithm by the length of the list and the spread of its
    values, which no scene with a handful of instances reaches."""
    rng = ctx.rng
    for n in ((24, 36) if ctx.quick else (20, 24, 30, 36, 48)):
        sizes = list(range(2, 2 + n))
        rng.shuffle(sizes)
        L = sum(sizes) + 6
        ref = np.zeros((3, L), np.uint8)
        pred = np.zeros((3, L), np.uint8)
        ref[1, 2:2 + sum(sizes)] = 1
        pos = 2
        for k, sz in enumerate(sizes):
            pred[1, pos:pos + sz] = k + 1
            pos += sz
        ref[0, 0:3] = 2
        pred[0, 0:2] = n + 1
        for mm in ("IOU", "DSC"):
            cfg = E.mk_cfg("UNMATCHED", ["IOU", "DSC", "RVD"], matcher=E.merge(mm, (1, 100)))
            base = E.run_impl(cfg, pred, ref)["ungrouped"]
            for dt, f in ((np.uint16, lambda k: 1000 * k), (np.uint32, lambda k: 65536 + 4099 * k), (np.uint32, lambda k: 2 ** 24 - 1 - 37 * (k - 1) ** 2),
                          (np.uint64, lambda k: (k * 7919) % 65521 + 1), (np.uint8, lambda k: 255 - 3 * (k - 1))):
                sig = {k: int(f(k)) for k in range(1, n + 2)}
                if len(set(sig.values())) != len(sig) or max(sig.values()) > np.iinfo(dt).max or min(sig.values()) < 1:
                    continue
                tau = {1: 5, 2: 3}
                p2, r2 = relabel(pred, sig, dt), relabel(ref, tau, dt)
                inp = {"shape": list(pred.shape), "pred": gen.arr_json(pred), "ref": gen.arr_json(ref), "cfg": cfg, "dtype": str(np.dtype(dt)),
                       "sigma": {str(k): v for k, v in sig.items()}, "tau": {str(k): v for k, v in tau.items()}, "src": "corpus.many-fragments"}
                ctx.case(inp, True)
                ctx.count("many_fragments_corpus")
                got = E.run_impl(cfg, p2, r2)
                d = "raised " + got if isinstance(got, str) else summ_equal(base, got["ungrouped"], cfg["eval_metrics"])
                if d:
                    ctx.violation(f"result changes when {n} merged fragments are relabelled sparsely ({np.dtype(dt)}, merge matcher on {mm}): {d}", inp,
                                  impl={"base": base, "relabelled": got}, key={"kind": "not-invariant"})
                    break


def wrap_sum_corpus(ctx):
    """an overlapping pair whose labels sum to 2^bits, far (> crop padding) from every other foreground voxel"""
    base_r = np.zeros((12, 24), np.uint8)
    base_p = np.zeros((12, 24), np.uint8)
    base_r[2:10, 2:10] = 1
    base_p[2:10, 2:11] = 1
    base_r[4:6, 20:22] = 2
    base_p[4:6, 20:22] = 2
    for it in ("MATCHED", "UNMATCHED"):
        cfg = E.mk_cfg(it, ["IOU", "DSC", "ASSD", "RVD"], matcher=E.naive("IOU", (1, 2)) if it != "MATCHED" else None)
        base = E.run_impl(cfg, base_p, base_r)["ungrouped"]
        for dt, (a, b) in ((np.uint8, (128, 128)), (np.uint8, (56, 200)), (np.uint16, (32768, 32768)), (np.uint16, (65000, 536)), (np.uint8, (100, 100))):
            if it == "MATCHED" and a != b:
                continue
            p2 = np.where(base_p == 1, a, np.where(base_p == 2, 3, 0)).astype(dt)
            r2 = np.where(base_r == 1, b, np.where(base_r == 2, 3, 0)).astype(dt)
            inp = {"shape": [12, 24], "pred": gen.arr_json(base_p), "ref": gen.arr_json(base_r), "cfg": cfg, "dtype": str(np.dtype(dt)),
                   "sigma": {"1": a, "2": 3}, "tau": {"1": b, "2": 3}, "src": "corpus.wrap-sum"}
            ctx.case(inp, True)
            ctx.count("wrap_sum_corpus")
            got = E.run_impl(cfg, p2, r2)
            d = "raised " + got if isinstance(got, str) else summ_equal(base, got["ungrouped"], cfg["eval_metrics"])
            if d:
                ctx.violation(f"result changes under relabelling/dtype ({np.dtype(dt)}, labels {a}/{b}): {d}", inp,
                              impl={"base": base, "relabelled": got}, key={"kind": "not-invariant"})


def run_cases(ctx, n, tag):
    rng = ctx.rng
    for i in range(n):
        pred, ref = gen.pair(rng, hi=7, max_obj=4, allow_empty=False)
        one_case(ctx, pred, ref, rand_cfg(rng), f"{tag}{i}")
        encoding_case(ctx, f"{tag}{i}.enc")


def near_tie_relabel(ctx, n):
    """two references competing for one prediction with IoUs ~1e-7 apart: exchanging the two reference labels (an
    injective renaming) must not change any metric"""
    for k in range(n):
        sc = oracle.near_tie_scene(ctx.rng)
        if sc is None:
            continue
        build, better, gap = sc
        cfg = E.mk_cfg("UNMATCHED", ["IOU", "DSC", "RVD"], matcher=E.naive("IOU", (1, 5)))
        p1, r1 = build(1, 2)
        p2, r2 = build(2, 1)
        a, b = E.run_impl(cfg, p1, r1), E.run_impl(cfg, p2, r2)
        inp = {"shape": list(p1.shape), "near_tie": True, "gap": gap, "better": better, "cfg": cfg, "src": f"neartie{k}",
               "pred": gen.arr_json(p1), "ref": gen.arr_json(r1), "dtype": "uint16", "sigma": {"7": 7}, "tau": {"1": 2, "2": 1}}
        ctx.case(inp, True)
        ctx.count("near_tie_relabel")
        d = (a if isinstance(a, str) else b) if isinstance(a, str) or isinstance(b, str) else summ_equal(a["ungrouped"], b["ungrouped"], cfg["eval_metrics"])
        if d:
            ctx.violation(f"result changes when the two reference labels are exchanged (IoUs {gap:.2e} apart): {d}", inp,
                          impl={"labels_1_2": a, "labels_2_1": b}, key={"kind": "not-invariant"})


def grouped_relabel_cases(ctx, n):
    """class groups: renaming the labels of the arrays and of the group definitions consistently (injectively,
    instance labels of one class renamed independently) must leave every group's result unchanged; the group label
    sets include sets whose Python set-iteration order is not ascending / looks like a contiguous block"""
    rng = ctx.rng
    for i in range(n):
        shape = (rng.randint(8, 14), rng.randint(8, 14))
        ka, kb = rng.randint(2, 4), rng.randint(1, 2)
        ref = np.zeros(shape, np.int64)
        pred = np.zeros(shape, np.int64)
        inst = list(range(1, ka + kb + 1))            # abstract instance ids: first ka belong to class a, rest to class b
        for l in inst:
            tmp = np.zeros(shape, np.uint8)
            gen.put_object(rng, tmp, 1, kind=rng.choice(["box", "box", "line", "L"]))
            ref[(tmp == 1) & (ref == 0)] = l
            tmp2 = np.roll(tmp, rng.choice([0, 0, 1]), axis=rng.choice([0, 1])) if rng.random() < 0.8 else np.zeros_like(tmp)
            pred[(tmp2 == 1) & (pred == 0)] = l
        results = []
        for v in range(3):
            mode = rng.choice(["plain", "setorder", "deceptive"]) if v else "identity"
            if mode == "identity":
                la, lb = inst[:ka], inst[ka:]
            else:
                got = gen.set_order_labels(rng, k=ka, hi=60, deceptive=(mode == "deceptive")) if mode != "plain" else None
                la = got[0] if got else rng.sample(range(1, 200), ka)
                lo, hi = min(la), max(la)
                inside = [x for x in range(lo, hi + 1) if x not in la]
                pool = inside if (inside and rng.random() < 0.7) else [x for x in range(1, 250) if x not in la]
                if len(pool) < kb:
                    pool = [x for x in range(1, 250) if x not in la]
                lb = rng.sample(pool, kb)
            rng.shuffle(la)
            m = dict(zip(inst, list(la) + list(lb)))
            dt = rng.choice([np.uint8, np.uint16, np.uint32])
            p2, r2 = relabel(pred, m, dt), relabel(ref, m, dt)
            groups = [{"name": "a", "labels": sorted(la) if rng.random() < 0.5 else list(la), "merge": False, "single": False},
                      {"name": "b", "labels": list(lb), "merge": False, "single": False}]
            cfg = E.mk_cfg("UNMATCHED", ["IOU", "DSC", "RVD"], matcher=E.naive("IOU", (1, 4)))
            inp = {"shape": list(shape), "pred": gen.arr_json(p2), "ref": gen.arr_json(r2), "dtype": str(np.dtype(dt)), "cfg": cfg,
                   "groups": groups, "labelling": mode, "src": f"grouped{i}.{v}"}
            ctx.case(inp, mode != "identity")
            ctx.count("grouped_relabel." + mode)
            res = E.run_impl(cfg, p2, r2, groups=groups)
            results.append((mode, inp, res))
        b = results[0][2]
        if isinstance(b, str):
            continue
        # the property speaks about uniquely determined matchings: a group in which two candidate pairs tie is skipped
        tied = set()
        for gname, labs in (("a", inst[:ka]), ("b", inst[ka:])):
            pg = np.where(np.isin(pred, labs), pred, 0)
            rg = np.where(np.isin(ref, labs), ref, 0)
            if tie_or_fragile(E.mk_cfg("UNMATCHED", ["IOU"], matcher=E.naive("IOU", (1, 4))), pg, rg):
                tied.add(gname)
                ctx.count("grouped_relabel.tie_skipped")
        for mode, inp, res in results[1:]:
            if isinstance(res, str):
                ctx.violation(f"evaluation with relabelled class groups raised {res}", inp, impl=res, key={"kind": "raises"})
                continue
            for g in ("a", "b"):
                if g in tied:
                    continue
                d = summ_equal(b[g], res[g], cfg["eval_metrics"])
                if d:
                    inp2 = dict(inp)
                    inp2["base"] = results[0][1]
                    ctx.violation(f"result of class group {g} changes when instance labels are renamed (group labels {inp['groups'][0]['labels']} / "
                                  f"{inp['groups'][1]['labels']}): {d}", inp2, impl={"base": b[g], "relabelled": res[g]}, key={"kind": "not-invariant"})
                    break


def environment_cases(ctx, n):
    """the relabelling invariance in other process states: a child interpreter started with -O, and one whose
    multiprocessing start method is forkserver (with the real worker pool); base pairs in which a prediction label value
    also occurs as a reference label value"""
    rng = ctx.rng
    j = lambda a: {"data": gen.arr_json(a), "dtype": str(a.dtype), "shape": list(a.shape)}
    tasks, meta = [], []
    for i in range(n):
        sc = gen.shared_value_scene(rng) if i % 2 == 0 else None
        pred, ref = sc if sc is not None else gen.pair(rng, ndim=rng.choice([1, 2]), hi=7, max_obj=3, allow_empty=False)
        pl = [int(x) for x in np.unique(pred) if x]
        rl = [int(x) for x in np.unique(ref) if x]
        cfg = E.mk_cfg("UNMATCHED", ["IOU", "DSC"], matcher=E.naive("IOU", (1, 2) if sc is not None else rng.choice([(1, 4), (1, 2)])))
        if tie_or_fragile(cfg, pred, ref):
            continue
        # variants: identity, swapped / shared label values between the two sides, fresh large values
        shared = list(range(1, max(len(pl), len(rl)) + 1))
        variants = [({l: l for l in pl}, {l: l for l in rl}),
                    (dict(zip(pl, rng.sample(shared, len(pl)))), dict(zip(rl, rng.sample(shared, len(rl))))),
                    (dict(zip(pl, pick_labels(rng, len(pl), 60000))), dict(zip(rl, pick_labels(rng, len(rl), 60000))))]
        for sig, tau in variants:
            p2, r2 = relabel(pred, sig, np.uint16), relabel(ref, tau, np.uint16)
            tasks.append({"kind": "evaluate", "cfg": cfg, "pred": j(p2), "ref": j(r2)})
        meta.append((pred, ref, cfg, variants))
    base = [E.run_impl(t["cfg"], np.array(t["pred"]["data"], dtype=np.uint16).reshape(t["pred"]["shape"]),
                       np.array(t["ref"]["data"], dtype=np.uint16).reshape(t["ref"]["shape"])) for t in tasks]
    for mode, kw in (("python -O", {"optimize": True}), ("start method forkserver", {"optimize": False})):
        doc = {"tasks": [{"kind": "info"}] + tasks}
        if mode.startswith("start"):
            # every evaluation starts two real worker pools through the fork server: a few cases only
            nvar = 3 * (3 if ctx.quick else 10)
            doc = {"tasks": [{"kind": "info"}] + tasks[:nvar], "start_method": "forkserver", "serial_pool": False}
        res = forms.run_child(doc, **kw)
        if isinstance(res, dict) or not isinstance(res[0], dict):
            ctx.notes.append(f"child interpreter ({mode}) could not be started: " + str(res)[:200])
            continue
        ctx.extra.setdefault("child_modes", {})[mode] = res[0]
        k = 0
        for pred, ref, cfg, variants in meta:
            if 1 + k + len(variants) > len(res):
                break
            outs = res[1 + k:1 + k + len(variants)]
            here = base[k:k + len(variants)]
            k += len(variants)
            inp = {"shape": list(pred.shape), "pred": gen.arr_json(pred), "ref": gen.arr_json(ref), "cfg": cfg, "mode": mode,
                   "variants": [[{str(a): b for a, b in s_.items()}, {str(a): b for a, b in t_.items()}] for s_, t_ in variants], "src": "environment"}
            ctx.case(inp, True)
            ctx.count("child." + mode.replace(" ", "_"))
            b0 = outs[0]
            for v, (o, h) in enumerate(zip(outs, here)):
                if isinstance(o, str) or isinstance(b0, str):
                    if o != b0:
                        ctx.violation(f"in a child interpreter ({mode}) the relabelled pair (variant {v}) gives {o}, the original {b0}", inp, key={"kind": "not-invariant-env"})
                    continue
                d = summ_equal(b0["ungrouped"], o["ungrouped"], cfg["eval_metrics"])
                if d:
                    ctx.violation(f"in a child interpreter ({mode}) the result changes under relabelling (variant {v}): {d}", inp,
                                  impl={"base": b0["ungrouped"], "relabelled": o["ungrouped"]}, key={"kind": "not-invariant-env"})
                    break
                if isinstance(h, dict):
                    d2 = summ_equal(h["ungrouped"], o["ungrouped"], cfg["eval_metrics"])
                    if d2:
                        ctx.violation(f"the same pair evaluates differently in a child interpreter ({mode}) than in this process: {d2}", inp,
                                      impl={"here": h["ungrouped"], "child": o["ungrouped"]}, key={"kind": "not-invariant-env"})
                        break


def run(ctx):
    corpus(ctx)
    encoding_boundary_corpus(ctx)
    environment_cases(ctx, ctx.scale(10, 60))
    grouped_relabel_cases(ctx, ctx.scale(60, 600))
    wrap_sum_corpus(ctx)
    merge_label_corpus(ctx)
    many_fragments_corpus(ctx)
    near_tie_relabel(ctx, ctx.scale(4, 30))
    run_cases(ctx, ctx.scale(250, 2500), "rand")


def search(ctx):
    run_cases(ctx, ctx.scale(600, 2500), "search")


def replay(ctx, rec):
    i = rec["input"]
    if i.get("mode") and i.get("variants"):
        environment_cases(ctx, 12)
        return
    if "groups" in i and "base" in i:
        def run(x):
            dt = np.dtype(x["dtype"])
            return E.run_impl(x["cfg"], np.array(x["pred"], dtype=dt).reshape(x["shape"]), np.array(x["ref"], dtype=dt).reshape(x["shape"]), groups=x["groups"])
        b, r = run(i["base"]), run(i)
        ctx.case(i, True)
        bx = i["base"]
        bp = np.array(bx["pred"], dtype=np.int64).reshape(bx["shape"])
        br = np.array(bx["ref"], dtype=np.int64).reshape(bx["shape"])
        for g, gd in zip(("a", "b"), bx["groups"]):
            pg, rg = np.where(np.isin(bp, gd["labels"]), bp, 0), np.where(np.isin(br, gd["labels"]), br, 0)
            if tie_or_fragile(E.mk_cfg("UNMATCHED", ["IOU"], matcher=E.naive("IOU", (1, 4))), pg, rg):
                continue        # two candidates tie: the matching is not uniquely determined
            d = "raised" if isinstance(b, str) or isinstance(r, str) else summ_equal(b[g], r[g], i["cfg"]["eval_metrics"])
            if d:
                ctx.violation(f"result of class group {g} changes when instance labels are renamed: {d}", i, key={"kind": "not-invariant"})
                break
        return
    if i.get("kind") == "encoding":
        dt = np.dtype(i.get("dtype", "uint64"))
        pred = np.array(i["pred"], dtype=dt).reshape(i["shape"])
        ref = np.array(i["ref"], dtype=dt).reshape(i["shape"])
        rl = tuple(int(x) for x in np.unique(ref) if x)
        with quiet():
            got = sorted(F._calc_overlapping_labels(pred, ref, rl))
        ctx.case(i, True)
        if got != sorted(oracle.overlap_pairs(pred, ref)):
            ctx.violation("overlapping label pairs differ from the pairs that share a voxel", i, impl=got, key={"kind": "encoding"})
        return
    pred = np.array(i["pred"], dtype=np.uint8).reshape(i["shape"])
    ref = np.array(i["ref"], dtype=np.uint8).reshape(i["shape"])
    dt = np.dtype(i["dtype"])
    p2 = relabel(pred, {int(k): v for k, v in i["sigma"].items()}, dt)
    r2 = relabel(ref, {int(k): v for k, v in i["tau"].items()}, dt)
    base = E.run_impl(i["cfg"], pred, ref, global_metrics=GM)["ungrouped"]
    got = E.run_impl(i["cfg"], p2, r2, global_metrics=GM)
    ctx.case(i, True)
    d = "raised " + got if isinstance(got, str) else (global_equal(base, got["ungrouped"]) or summ_equal(base, got["ungrouped"], i["cfg"]["eval_metrics"]))
    if d:
        ctx.violation(f"result changes under relabelling/dtype: {d}", i, impl={"base": base, "relabelled": got}, key={"kind": "not-invariant"})
