"""C10 — results are invariant under padding, translation, flips and axis permutation."""
from __future__ import annotations
import itertools
import numpy as np
import scale, impl, gen, oracle, evalutil as E
from impl import quiet, F
from common import close, same_value
from panoptica.utils.numpy_utils import _get_bbox_nd

RULE = ("semantic volumes with an axis of length one (diagonal contacts) and volumes without any background voxel, under the same transformations; large-scale corpus (implementation only, metamorphic): thin-instance scenes embedded in 2-D canvases of 2.1M-4.3M voxels at offsets of every parity, plain and mirrored; small scenes in 3-D volumes of 1.3M-4.35M voxels; one matched instance of 2060^2 voxels under even/odd padding and mirroring; base pairs (objects on every face of the array, thin/diagonal/split/merged instances) x input types x matchers "
        "(thresholds below and at 1/2) x {zero padding 0-3 per side per axis, cropping of shared empty margins, every "
        "subset of axis flips, every axis permutation} x memory layouts {C, Fortran, negative strides, non-contiguous view} chosen independently for the two maps; embedding in volumes of more than 2^20 voxels; "
        "plus model/implementation correspondence of the bounding box (all paddings) and of the whole-pair crop; "
        "non-trivial = transformation is not the identity and an object touches the array border before or after")

KEYS_EXACT = ("num_ref_instances", "num_pred_instances", "tp", "fp", "fn")


def layouts(rng, a, k=None):
    k = k or rng.choice(["C", "F", "neg", "view"])
    if k == "C":
        return np.ascontiguousarray(a), k
    if k == "F":
        return np.asfortranarray(a), k
    if k == "neg":
        b = np.ascontiguousarray(a[::-1])
        return b[::-1], k
    big = np.zeros(tuple(2 * s for s in a.shape), a.dtype)
    sl = tuple(slice(0, 2 * s, 2) for s in a.shape)
    big[sl] = a
    return big[sl], k


def transform(rng, pred, ref):
    desc = {}
    p, r = pred, ref
    if rng.random() < 0.6:
        pads = [(rng.randint(0, 3), rng.randint(0, 3)) for _ in p.shape]
        p, r = np.pad(p, pads), np.pad(r, pads)
        desc["pad"] = pads
    if rng.random() < 0.3:
        m = (p != 0) | (r != 0)
        if m.any():
            idx = np.argwhere(m)
            sl = tuple(slice(lo, hi + 1) for lo, hi in zip(idx.min(0), idx.max(0)))
            p, r = p[sl], r[sl]
            desc["tight"] = True
    flips = [ax for ax in range(p.ndim) if rng.random() < 0.4]
    if flips:
        p, r = np.flip(p, flips), np.flip(r, flips)
        desc["flip"] = flips
    if p.ndim > 1 and rng.random() < 0.5:
        perm = list(range(p.ndim))
        rng.shuffle(perm)
        p, r = np.transpose(p, perm), np.transpose(r, perm)
        desc["perm"] = perm
    p, lay = layouts(rng, p)
    r2, lay2 = layouts(rng, r)          # chosen independently: the two maps may differ in memory layout
    desc["layout"] = lay
    desc["layout_ref"] = lay2
    return p, r2, desc


def summ_equal(a, b, metrics, ordered=False):
    for k in KEYS_EXACT:
        if a[k] != b[k]:
            return f"{k}: {a[k]} vs {b[k]}"
    for m in metrics:
        la, lb = a.get("list_" + m), b.get("list_" + m)
        if isinstance(la, str) or isinstance(lb, str):
            if la != lb:
                return f"list_{m}: {la} vs {lb}"
            continue
        if ordered and (len(la) != len(lb) or any(not close(x, y) for x, y in zip(la, lb))):
            return f"list_{m} (as reported, in order): {la} vs {lb}"
        if len(la) != len(lb) or any(not close(x, y) for x, y in zip(sorted(la), sorted(lb))):
            return f"list_{m}: {sorted(la)} vs {sorted(lb)}"
        for n in E.NAMES[m]:
            if n and not (isinstance(a[n], str) or isinstance(b[n], str)) and not same_value(a[n], b[n]):
                return f"{n}: {a[n]} vs {b[n]}"
    return None


def has_tie(cfg, pred, ref):
    """for semantic input the component numbering depends on orientation; equal results are only claimed when
    the matching is uniquely determined"""
    if cfg["input"] != "SEMANTIC":
        return False
    try:
        with quiet():
            ev = impl.mk_evaluator(cfg)
            out = ev.evaluate(pred, ref)["ungrouped"][1]
            up, ur = out.prediction_arr(impl.InputType.UNMATCHED_INSTANCE), out.reference_arr(impl.InputType.UNMATCHED_INSTANCE)
    except Exception:
        return True
    mc = cfg["matcher"]
    t = mc["thr"]["q"]
    from fractions import Fraction
    _, fragile, info = oracle.check_matching(up, ur, mc["metric"], Fraction(t[0], t[1]), mc.get("m2o", False), {})
    return info["tie"] or fragile


def one_case(ctx, pred, ref, cfg, src, fixed=None):
    """fixed: a list of (prediction', reference', description) to use instead of three random transformations"""
    rng = ctx.rng
    base = E.run_impl(cfg, pred, ref)
    if isinstance(base, str):
        return
    base = base["ungrouped"]
    tie = has_tie(cfg, pred, ref)
    for k in range(3 if fixed is None else len(fixed)):
        p2, r2, desc = transform(rng, pred, ref) if fixed is None else fixed[k]
        inp = {"shape": list(pred.shape), "pred": gen.arr_json(pred), "ref": gen.arr_json(ref), "cfg": cfg,
               "transform": desc, "t_shape": list(p2.shape), "t_pred": gen.arr_json(p2), "t_ref": gen.arr_json(r2), "src": src}
        m = (pred != 0) | (ref != 0)
        touches = False
        if m.any():
            idx = np.argwhere(m)
            touches = bool((idx.min(0) == 0).any() or (idx.max(0) == np.array(pred.shape) - 1).any())
        ident = set(desc) <= {"layout", "layout_ref"} and desc["layout"] == "C" and desc["layout_ref"] == "C"
        ctx.case(inp, (not ident) and touches, sample={k2: inp[k2] for k2 in ("shape", "pred", "ref", "transform")} if pred.size <= 20 else None)
        for k2 in desc:
            ctx.count("t." + k2 + ("." + str(desc[k2]) if k2.startswith("layout") else ""))
        ctx.count("input." + cfg["input"])
        if tie:
            ctx.count("tie_skipped")
            continue
        got = E.run_impl(cfg, p2, r2)
        if isinstance(got, str):
            ctx.violation(f"evaluation of the transformed pair raised {got}", inp, impl=got, key={"kind": "raises"})
            continue
        d = summ_equal(base, got["ungrouped"], cfg["eval_metrics"])
        if d:
            ctx.violation(f"result changes under {desc}: {d}", inp, impl={"base": base, "transformed": got["ungrouped"]},
                          key={"kind": "not-invariant"})


def crop_case(ctx, pred, ref, src):
    """model/implementation correspondence of bounding box and whole-pair crop"""
    inp = {"shape": list(pred.shape), "pred": gen.arr_json(pred), "ref": gen.arr_json(ref), "src": src, "kind": "crop"}
    ctx.case(inp, bool(pred.any() or ref.any()))
    ctx.count("crop_correspondence")
    with quiet():
        crop = F._get_paired_crop(pred, ref)
    cp, cr = pred[crop], ref[crop]
    mod = ctx.driver().ask({"op": "paired_crop", "shape": list(pred.shape), "pred": inp["pred"], "ref": inp["ref"]})
    box = [[int(s.start), int(min(s.stop, n))] for s, n in zip(crop, pred.shape)]
    if mod["box"] != box:
        ctx.disagree("paired crop box", inp, box, mod["box"])
    elif mod["pred"] != gen.arr_json(cp) or mod["ref"] != gen.arr_json(cr) or mod["shape"] != list(cp.shape):
        ctx.disagree("cropped arrays", inp, gen.arr_json(cp), mod["pred"])
    # property on the implementation: the crop keeps every foreground voxel
    if int((cp != 0).sum()) != int((pred != 0).sum()) or int((cr != 0).sum()) != int((ref != 0).sum()):
        ctx.violation("whole-pair crop drops foreground voxels", inp, impl={"box": box}, key={"kind": "crop-loses-voxels"})
    a = pred if pred.any() else ref
    if a.any():
        for pad in (0, 1, 2, 3):
            with quiet():
                bb = _get_bbox_nd(a, px_dist=pad)
            got = [[int(s.start), int(min(s.stop, n))] for s, n in zip(bb, a.shape)]
            m2 = ctx.driver().ask({"op": "bbox", "shape": list(a.shape), "arr": gen.arr_json(a), "pad": pad})
            clipped = [[lo, min(hi, n)] for (lo, hi), n in zip(m2, a.shape)]
            if clipped != got:
                ctx.disagree(f"bounding box pad={pad}", inp, got, clipped)
            if int((a[bb] != 0).sum()) != int((a != 0).sum()):
                ctx.violation(f"bounding box with padding {pad} does not contain every non-zero voxel", inp, impl=got, key={"kind": "bbox"})


def huge_padding(ctx, n):
    """the same small scene embedded in a volume of more than 2^20 voxels at offsets one voxel apart
    (implementation only; the model never sees the large array)"""
    rng = ctx.rng
    for k in range(n):
        ref = np.zeros((6, 6, 6), np.uint8)
        pred = np.zeros((6, 6, 6), np.uint8)
        ref[0:3, 0:3, 0:3] = 1
        pred[0:3, 0:3, 1:4] = 1
        z = rng.randrange(6)
        ref[5, rng.randrange(6), z] = 2          # a one-voxel instance far from the block
        pred[5, rng.randrange(6), z] = 2
        cfg = rng.choice([E.mk_cfg("UNMATCHED", ["IOU", "DSC", "ASSD", "RVD"], matcher=E.naive("IOU", (1, 4))),
                          E.mk_cfg("MATCHED", ["IOU", "DSC", "ASSD", "RVD"])])
        base = E.run_impl(cfg, pred, ref)
        if isinstance(base, str):
            continue
        big_shape = rng.choice([(128, 128, 80), (160, 160, 90), (170, 160, 160)])      # 1.3M, 2.3M (> 2^21), 4.35M (> 2^22) voxels
        lim = [n - 7 for n in big_shape]
        for off in [tuple(rng.randint(0, l) for l in lim) for _ in range(2)] + [(41, 41, 41), (42, 41, 41)]:
            P = np.zeros(big_shape, np.uint8)
            R = np.zeros(big_shape, np.uint8)
            sl = tuple(slice(o, o + 6) for o in off)
            P[sl], R[sl] = pred, ref
            inp = {"shape": list(pred.shape), "pred": gen.arr_json(pred), "ref": gen.arr_json(ref), "cfg": cfg,
                   "transform": {"embed_in": list(big_shape), "offset": list(off)}, "huge": True, "src": f"huge{k}"}
            ctx.case(inp, True)
            ctx.count("huge_padding")
            got = E.run_impl(cfg, P, R)
            d = "raised " + got if isinstance(got, str) else summ_equal(base["ungrouped"], got["ungrouped"], cfg["eval_metrics"])
            if d:
                ctx.violation(f"result changes when the scene is embedded in a {big_shape} volume at offset {off}: {d}", inp,
                              impl={"base": base["ungrouped"], "embedded": got if isinstance(got, str) else got["ungrouped"]},
                              key={"kind": "not-invariant"})


def thin_scene(rng):
    """2-D scene with a block pair and thin outlying instances (single voxels, one-voxel-thick lines) whose
    coordinates are all odd or all even"""
    H, W = rng.randint(30, 44), rng.randint(30, 40)
    ref = np.zeros((H, W), np.uint8)
    pred = np.zeros((H, W), np.uint8)
    ref[2:9, 2:9] = 1
    pred[3:10, 2:9] = 1
    y, x = rng.randrange(15, H - 2), rng.randrange(15, W - 8)
    ref[y, x] = 2
    pred[y, x] = 2
    y2 = rng.randrange(12, H - 1)
    ref[y2, 20:27] = 3            # a one-voxel-thick line
    pred[y2, 20:26] = 3
    return pred, ref


def big_canvas(ctx, n):
    """a thin-instance scene embedded in 2-D canvases of more than 2^21 voxels at offsets of every parity,
    plain and mirrored; all three input types"""
    rng = ctx.rng
    for k in range(n):
        pred, ref = thin_scene(rng)
        it = rng.choice(["UNMATCHED", "SEMANTIC", "MATCHED"])
        cfg = E.mk_cfg(it, ["IOU", "DSC", "RVD"] + (["ASSD"] if rng.random() < 0.5 else []),
                       matcher=None if it == "MATCHED" else E.naive("IOU", (1, 4)))
        base = E.run_impl(cfg, pred, ref)
        if isinstance(base, str):
            continue
        canvas = rng.choice([(1600, 1500), (1450, 1449), (2100, 2050)])
        for off in [(rng.randint(0, 1300), rng.randint(0, 1300)), (400, 400), (401, 400), (400, 401), (401, 401)][: (3 if ctx.quick else 5)]:
            for flip in ([], [0], [0, 1])[: (2 if ctx.quick else 3)]:
                rec = {"kind": "embed", "small_pred": pred.tolist(), "small_ref": ref.tolist(), "canvas": list(canvas), "offset": list(off),
                       "flip": flip, "dtype": "uint8"}
                P, R = scale.build(rec)
                inp = {"recipe": rec, "cfg": cfg, "src": f"canvas{k}"}
                ctx.case(inp, True)
                ctx.count("big_canvas")
                got = E.run_impl(cfg, P, R)
                d = "raised " + got if isinstance(got, str) else summ_equal(base["ungrouped"], got["ungrouped"], cfg["eval_metrics"])
                if d:
                    ctx.violation(f"result changes when the scene is embedded in a {canvas} canvas at offset {off}, mirrored axes {flip}: {d}", inp,
                                  impl={"base": base["ungrouped"], "embedded": got if isinstance(got, str) else got["ungrouped"]},
                                  key={"kind": "not-invariant"})


def big_instance(ctx, n):
    """one matched instance whose crop exceeds 2^22 voxels, surfaces an odd number of voxels apart; ASSD and the
    counts must not change under zero padding (even / odd), mirroring and transposition"""
    rng = ctx.rng
    for k in range(n):
        side = rng.choice([2060, 2061, 2075])
        lo = 1                                        # the un-padded variant has its crop clipped at the array edge
        ref_box = [[lo, lo], [lo + side, lo + side], 1]
        d = rng.choice([1, 3])
        # the prediction lacks the first d rows of the reference except for a 40-voxel notch (no mirror symmetry)
        pred_box = [[lo + d, lo], [lo + side, lo + side], 1]
        notch = [[lo, lo], [lo + d, lo + 40], 1]
        shape = [lo + side + 3, lo + side + 2]
        cfg = E.mk_cfg("MATCHED", ["ASSD", "IOU"])
        results = []
        variants = [("base", [0, 0], []), ("pad6", [6, 6], []), ("pad7-5", [7, 5], []), ("mirror", [0, 0], [0])][: (3 if ctx.quick else 4)]
        for name, pad, flip in variants:
            rec = {"kind": "boxes", "shape": [shape[0] + 2 * pad[0], shape[1] + 2 * pad[1]], "dtype": "uint8",
                   "ref_boxes": [[[a + p for a, p in zip(ref_box[0], pad)], [a + p for a, p in zip(ref_box[1], pad)], 1]],
                   "pred_boxes": [[[a + p for a, p in zip(bx[0], pad)], [a + p for a, p in zip(bx[1], pad)], 1] for bx in (pred_box, notch)]}
            P, R = scale.build(rec)
            for ax in flip:
                P, R = np.ascontiguousarray(np.flip(P, ax)), np.ascontiguousarray(np.flip(R, ax))
            if name == "base":
                base_rec = rec
            inp = {"recipe": rec, "base_recipe": base_rec, "flip": flip, "cfg": cfg, "variant": name, "src": f"biginst{k}"}
            ctx.case(inp, True)
            ctx.count("big_instance")
            got = E.run_impl(cfg, P, R)
            results.append((name, inp, got))
        b = results[0][2]
        for name, inp, got in results[1:]:
            dd = "raised" if isinstance(got, str) or isinstance(b, str) else summ_equal(b["ungrouped"], got["ungrouped"], cfg["eval_metrics"])
            if dd:
                ctx.violation(f"result of a {side}x{side} instance changes under {name}: {dd}", inp,
                              impl={"base": b if isinstance(b, str) else b["ungrouped"], name: got if isinstance(got, str) else got["ungrouped"]},
                              key={"kind": "not-invariant"})


def rand_cfg(rng):
    it = rng.choice(["MATCHED", "UNMATCHED", "UNMATCHED", "SEMANTIC", "SEMANTIC"])
    metrics = ["IOU", "DSC", "RVD"] + (["ASSD"] if rng.random() < 0.6 else [])
    if it == "MATCHED":
        return E.mk_cfg(it, metrics)
    mm = rng.choice(["IOU", "IOU", "DSC"])
    thr = rng.choice([(1, 10), (1, 4), (3, 10), (1, 2), (1, 2)])
    mk = E.naive(mm, thr, rng.random() < 0.2) if rng.random() < 0.8 else E.merge(mm, thr)
    return E.mk_cfg(it, metrics, matcher=mk, backend=rng.choice([None, "cc3d", "scipy"]) if it == "SEMANTIC" else None)


def border_pair(rng):
    pred, ref = gen.pair(rng, hi=7, max_obj=4, allow_empty=False)
    if rng.random() < 0.6:
        tmp = np.zeros_like(ref)
        gen.put_object(rng, tmp, 1, kind="border")
        l = int(ref.max()) + 1
        ref[(tmp == 1) & (ref == 0)] = l
        sh = np.roll(tmp, rng.choice([0, 0, 1, -1]), axis=rng.randrange(ref.ndim))
        pred[(sh == 1) & (pred == 0)] = int(pred.max()) + 1
    return pred, ref


def corpus(ctx):
    # instance touching the upper array edge: same scene with one trailing zero row must give the same result
    ref = np.zeros((12, 10), np.uint8)
    pred = np.zeros((12, 10), np.uint8)
    ref[7:12, 2:7] = 1
    pred[8:12, 2:8] = 1
    ref[1:4, 1:4] = 2
    pred[1:4, 2:5] = 2
    for cfg in (E.mk_cfg("UNMATCHED", ["IOU", "DSC", "ASSD", "RVD"], matcher=E.naive("IOU", (1, 2))),
                E.mk_cfg("MATCHED", ["IOU", "DSC", "ASSD", "RVD"])):
        one_case(ctx, pred, ref, cfg, "corpus.upper-edge")
    crop_case(ctx, pred, ref, "corpus.upper-edge")
    # contested reference at a threshold below 1/2 (semantic input; mirrored scene)
    ref = np.zeros((6, 12), np.uint8)
    pred = np.zeros((6, 12), np.uint8)
    ref[1:5, 1:11] = 1
    pred[1:5, 1:5] = 1
    pred[1:5, 6:10] = 1
    pred[1, 9] = 0
    one_case(ctx, pred, ref, E.mk_cfg("SEMANTIC", ["IOU", "DSC"], matcher=E.naive("IOU", (3, 10))), "corpus.contested")


def singleton_axis_corpus(ctx):
    """a single slice holding thick objects (with interior voxels), stored as a volume with an axis of length one, against
    the same volume zero-padded along that axis and along the others: distances, counts and overlaps must not change"""
    s_ref = np.zeros((9, 11), np.uint8)
    s_pred = np.zeros((9, 11), np.uint8)
    s_ref[1:7, 1:6], s_pred[2:8, 1:7] = 1, 1
    s_ref[2:5, 8:10], s_pred[2:5, 7:10] = 2, 2
    for ax in (0, 1, 2):
        p, r = np.expand_dims(s_pred, ax), np.expand_dims(s_ref, ax)
        fixed = []
        for pads in ([(2, 2) if a == ax else (0, 0) for a in range(3)], [(0, 3) if a == ax else (0, 0) for a in range(3)],
                     [(1, 1) if a == ax else (2, 1) for a in range(3)]):
            fixed.append((np.pad(p, pads), np.pad(r, pads), {"pad": [list(x) for x in pads], "layout": "C", "layout_ref": "C"}))
        for cfg in (E.mk_cfg("MATCHED", ["IOU", "DSC", "ASSD"]), E.mk_cfg("UNMATCHED", ["IOU", "ASSD"], matcher=E.naive("IOU", (1, 4))),
                    E.mk_cfg("SEMANTIC", ["IOU", "ASSD"], matcher=E.naive("IOU", (1, 4)))):
            ctx.count("singleton_axis_padding")
            one_case(ctx, p, r, cfg, f"corpus.singleton-axis-{ax}", fixed=fixed)


def many_blobs_corpus(ctx):
    """a semantic pair with 20 (thorough: also 40) separate blobs, each predicted with its own offset, mirrored along each axis,
    transposed and padded: the component numbers follow the scan order, so every transformation renumbers the instances
    (products of instance numbers beyond 2^8 occur from a dozen instances on)"""
    for rows, cols in (((4, 5),) if ctx.quick else ((4, 5), (5, 8))):
        ref = np.zeros((rows * 8, cols * 10), np.uint8)
        pred = np.zeros_like(ref)
        k = 0
        for i in range(rows):
            for j in range(cols):
                w = 3 + (k % 5)
                h = 3 + (k % 3)
                ref[i * 8 + 1:i * 8 + 1 + h, j * 10 + 1:j * 10 + 1 + w] = 1
                pred[i * 8 + 1 + (k % 2):i * 8 + 1 + h, j * 10 + 2:j * 10 + 2 + w] = 1
                k += 1
        fixed = []
        for desc, f in (({"flip": [0]}, lambda a: np.flip(a, 0)), ({"flip": [1]}, lambda a: np.flip(a, 1)), ({"flip": [0, 1]}, lambda a: np.flip(a, (0, 1))),
                        ({"perm": [1, 0]}, lambda a: a.T), ({"pad": [[3, 0], [0, 5]]}, lambda a: np.pad(a, ((3, 0), (0, 5)))),
                        ({"flip": [1], "perm": [1, 0]}, lambda a: np.flip(a, 1).T)):
            fixed.append((np.ascontiguousarray(f(pred)), np.ascontiguousarray(f(ref)), dict(desc, layout="C", layout_ref="C")))
        for cfg in (E.mk_cfg("SEMANTIC", ["IOU", "DSC", "RVD"], matcher=E.naive("IOU", (1, 4))),
                    E.mk_cfg("SEMANTIC", ["IOU", "ASSD"], matcher=E.naive("DSC", (1, 4)), backend="cc3d"),
                    E.mk_cfg("SEMANTIC", ["IOU", "DSC"], matcher=E.merge("IOU", (1, 4)))):
            ctx.count("many_blobs_renumbered")
            one_case(ctx, pred, ref, cfg, f"corpus.many-blobs-{rows * cols}", fixed=fixed)


def count_boundary_corpus(ctx):
    """exactly 255 / 256 / 257 separate blobs on a grid (the library chooses the instance maps' dtype from the count), one of them — the
    last in scan order — predicted badly; mirrored and transposed, so that another blob becomes the last one"""
    for n in ((256,) if ctx.quick else (255, 256, 257)):
        side = 17
        ref = np.zeros((side * 4, side * 4), np.uint8)
        pred = np.zeros_like(ref)
        k = 0
        for i in range(side):
            for j in range(side):
                if k >= n:
                    break
                ref[i * 4:i * 4 + 3, j * 4:j * 4 + 3] = 1
                pred[i * 4:i * 4 + 3, j * 4:j * 4 + 3] = 1
                k += 1
                li, lj = i, j
        pred[li * 4 + 2, lj * 4:lj * 4 + 3] = 0           # the last blob loses a row (IoU 2/3)
        fixed = []
        for desc, f in (({"flip": [0]}, lambda a: np.flip(a, 0)), ({"flip": [1]}, lambda a: np.flip(a, 1)), ({"perm": [1, 0]}, lambda a: a.T),
                        ({"flip": [0, 1]}, lambda a: np.flip(a, (0, 1)))):
            fixed.append((np.ascontiguousarray(f(pred)), np.ascontiguousarray(f(ref)), dict(desc, layout="C", layout_ref="C")))
        ctx.count("component_count_at_dtype_boundary")
        one_case(ctx, pred, ref, E.mk_cfg("SEMANTIC", ["IOU", "DSC"], matcher=E.naive("IOU", (1, 2))), f"corpus.count-boundary-{n}", fixed=fixed)


def grouped_layout_corpus(ctx):
    """class groups and memory layout: a non-cubic 3-D pair evaluated with two class groups, stored C-ordered, Fortran-ordered, as a transposed
    view and with negative strides — the same logical arrays, the same results"""
    ref = np.zeros((4, 9, 6), np.uint8)
    ref[0:2, 0:3, 0:2], ref[2:4, 5:8, 3:6], ref[0:2, 6:9, 0:3] = 1, 2, 3
    ref[3, 0:2, 0:2] = 1
    pred = np.roll(ref, 1, axis=1)
    groups = [{"name": "one", "labels": [1, 2], "merge": False, "single": False}, {"name": "two", "labels": [3], "merge": True, "single": False}]
    for it in ("SEMANTIC", "UNMATCHED"):
        cfg = E.mk_cfg(it, ["IOU", "DSC"], matcher=E.naive("IOU", (1, 4)))
        base = E.run_impl(cfg, pred, ref, groups=groups)
        for lay in ("F", "T", "neg"):
            p2, r2 = layouts(None, pred, lay)[0], layouts(None, ref, lay)[0]
            inp = {"shape": list(ref.shape), "pred": gen.arr_json(pred), "ref": gen.arr_json(ref), "cfg": cfg, "groups": groups, "grouped_layout": lay}
            ctx.case(inp, True)
            ctx.count("class_groups_and_memory_layout")
            got = E.run_impl(cfg, p2, r2, groups=groups)
            if isinstance(base, str) or isinstance(got, str):
                if base != got:
                    ctx.violation(f"with class groups, the pair stored with layout {lay} gives {got if isinstance(got, str) else 'a result'} instead of {base if isinstance(base, str) else 'a result'}",
                                  inp, key={"kind": "not-invariant"})
                continue
            for g in base:
                d = summ_equal(base[g], got[g], cfg["eval_metrics"])
                if d:
                    ctx.violation(f"with class groups, group {g!r}: result changes with the memory layout ({lay}): {d}", inp, key={"kind": "not-invariant"})
                    break


def special_pair(rng):
    """(a) a volume with an axis of length one whose blobs touch only across corners / edges; (b) a volume without
    any background voxel carrying two or three class values"""
    if rng.random() < 0.6:
        H, W = rng.randint(5, 8), rng.randint(5, 8)
        a = np.zeros((H, W), np.uint8)
        k = rng.randint(2, min(H, W) - 1)
        for t in range(k):
            a[t, t] = 1                       # diagonal chain: one component under full connectivity, k under face connectivity
        a[H - 1, 0:2] = 1
        b = a.copy()
        b[0, 0] = 0
        if rng.random() < 0.5:
            b[H - 1, 2] = 1
        ax = rng.randint(0, 2)
        return np.expand_dims(b, ax), np.expand_dims(a, ax), "singleton_axis"
    shape = tuple(rng.randint(2, 4) for _ in range(3))
    labs = rng.choice([[1, 2], [1, 2, 3]])
    ref = np.array([rng.choice(labs) for _ in range(int(np.prod(shape)))], np.uint8).reshape(shape)
    pred = ref.copy()
    for _ in range(rng.randint(0, 3)):
        pred[tuple(rng.randrange(n) for n in shape)] = rng.choice(labs)
    return pred, ref, "no_background"


def run_cases(ctx, n, tag):
    rng = ctx.rng
    for i in range(n):
        if rng.random() < 0.15:
            pred, ref, kind = special_pair(rng)
            ctx.count("special." + kind)
            cfg = E.mk_cfg("SEMANTIC", ["IOU", "DSC"], matcher=E.naive("IOU", (1, 2)), backend=rng.choice([None, None, "cc3d"]))
            one_case(ctx, pred, ref, cfg, f"{tag}{i}.{kind}")
            continue
        pred, ref = border_pair(rng)
        one_case(ctx, pred, ref, rand_cfg(rng), f"{tag}{i}")
        if i % 2 == 0:
            crop_case(ctx, pred, ref, f"{tag}{i}.crop")
            if i % 8 == 0:
                crop_case(ctx, np.zeros_like(pred), np.zeros_like(ref), f"{tag}{i}.crop0")


def run(ctx):
    corpus(ctx)
    singleton_axis_corpus(ctx)
    many_blobs_corpus(ctx)
    count_boundary_corpus(ctx)
    grouped_layout_corpus(ctx)
    huge_padding(ctx, ctx.scale(3, 12))
    big_canvas(ctx, ctx.scale(2, 8))
    big_instance(ctx, ctx.scale(1, 3))
    run_cases(ctx, ctx.scale(350, 3500), "rand")


def search(ctx):
    run_cases(ctx, ctx.scale(700, 3000), "search")


def replay(ctx, rec):
    i = rec["input"]
    if i.get("grouped_layout"):
        grouped_layout_corpus(ctx)
        return
    if "recipe" in i:
        P, R = scale.build(i["recipe"])
        if i["recipe"]["kind"] == "embed":
            dt = np.dtype(i["recipe"].get("dtype", "uint8"))
            base = E.run_impl(i["cfg"], np.array(i["recipe"]["small_pred"], dtype=dt), np.array(i["recipe"]["small_ref"], dtype=dt))
        else:
            for ax in i.get("flip", []):
                P, R = np.ascontiguousarray(np.flip(P, ax)), np.ascontiguousarray(np.flip(R, ax))
            base = E.run_impl(i["cfg"], *scale.build(i["base_recipe"]))
        got = E.run_impl(i["cfg"], P, R)
        ctx.case(i, True)
        d = "raised" if isinstance(got, str) or isinstance(base, str) else summ_equal(base["ungrouped"], got["ungrouped"], i["cfg"]["eval_metrics"])
        if d:
            ctx.violation(f"result changes under embedding / padding of a large scene: {d}", i, key={"kind": "not-invariant"})
        return
    pred = np.array(i["pred"], dtype=np.uint8).reshape(i["shape"])
    ref = np.array(i["ref"], dtype=np.uint8).reshape(i["shape"])
    if i.get("huge"):
        big, off = tuple(i["transform"]["embed_in"]), i["transform"]["offset"]
        P, R = np.zeros(big, np.uint8), np.zeros(big, np.uint8)
        sl = tuple(slice(o, o + n) for o, n in zip(off, pred.shape))
        P[sl], R[sl] = pred, ref
        base = E.run_impl(i["cfg"], pred, ref)["ungrouped"]
        got = E.run_impl(i["cfg"], P, R)
        ctx.case(i, True)
        d = "raised " + got if isinstance(got, str) else summ_equal(base, got["ungrouped"], i["cfg"]["eval_metrics"])
        if d:
            ctx.violation(f"result changes under embedding: {d}", i, key={"kind": "not-invariant"})
        return
    if i.get("kind") == "crop":
        crop_case(ctx, pred, ref, "replay")
        return
    base = E.run_impl(i["cfg"], pred, ref)["ungrouped"]
    p2 = layouts(None, np.array(i["t_pred"], dtype=np.uint8).reshape(i["t_shape"]), i["transform"].get("layout", "C"))[0]
    r2 = layouts(None, np.array(i["t_ref"], dtype=np.uint8).reshape(i["t_shape"]), i["transform"].get("layout_ref", "C"))[0]
    got = E.run_impl(i["cfg"], p2, r2)
    ctx.case(i, True)
    d = "raised " + got if isinstance(got, str) else summ_equal(base, got["ungrouped"], i["cfg"]["eval_metrics"])
    if d:
        ctx.violation(f"result changes under {i['transform']}: {d}", i, impl={"base": base, "transformed": got}, key={"kind": "not-invariant"})
