"""C11 — exchanging prediction and reference mirrors the result."""
from __future__ import annotations
from fractions import Fraction
import numpy as np
import impl, gen, oracle, evalutil as E
from common import close, same_value

RULE = ("both directions re-evaluated in child interpreters (python -O; pinned to a single core) on scenes with crosswise shared label values; one-sided rejection cases (a label covered by no class group, or a negative semantic value, in one of the two maps only: both directions must be rejected alike); label-map pairs with unequal instance counts and different label ranges on the two sides (incl. gaps in the "
        "label values and label products near dtype boundaries) x input types x one-to-one threshold matching with "
        "IoU/Dice/ASSD; evaluate(pred, ref) vs evaluate(ref, pred); tie cases are only checked for validity; "
        "non-trivial = tp >= 1 and (fp != fn or some RVD != 0)")


def mirrored(a, b, metrics):
    """is b the mirror image of a?"""
    if a["tp"] != b["tp"]:
        return f"tp differs: {a['tp']} vs {b['tp']}"
    if (a["fp"], a["fn"]) != (b["fn"], b["fp"]):
        return f"fp/fn not exchanged: ({a['fp']},{a['fn']}) vs ({b['fp']},{b['fn']})"
    for m in metrics:
        la, lb = a["list_" + m], b["list_" + m]
        if isinstance(la, str) or isinstance(lb, str):
            if la != lb:
                return f"list_{m}: {la} vs {lb}"
            continue
        if m == "RVD":
            lb2 = sorted(-r / (1 + r) if r != -1 else float("inf") for r in lb)
            if len(la) != len(lb) or any(not close(x, y) for x, y in zip(sorted(la), lb2)):
                return f"RVD values are not mirrored by r -> -r/(1+r): {sorted(la)} vs {sorted(lb)}"
            continue
        if len(la) != len(lb) or any(not close(x, y) for x, y in zip(sorted(la), sorted(lb))):
            return f"{m} value sets differ: {sorted(la)} vs {sorted(lb)}"
        sqn, stdn, pqn = E.NAMES[m]
        for n in (sqn, pqn):
            if n and not isinstance(a[n], str) and not isinstance(b[n], str) and not same_value(a[n], b[n]):
                return f"{n} differs: {a[n]} vs {b[n]}"
    if not isinstance(a["rq"], str) and not isinstance(b["rq"], str) and not same_value(a["rq"], b["rq"]):
        return f"rq differs: {a['rq']} vs {b['rq']}"
    return None


def unique_matching(cfg, pred, ref):
    if cfg["input"] == "MATCHED":
        return True
    if cfg["input"] == "SEMANTIC":
        try:
            with impl.quiet():
                ev = impl.mk_evaluator(cfg)
                out = ev.evaluate(pred, ref)["ungrouped"][1]
                pred, ref = out.prediction_arr(impl.InputType.UNMATCHED_INSTANCE), out.reference_arr(impl.InputType.UNMATCHED_INSTANCE)
        except Exception:
            return False
    mc = cfg["matcher"]
    t = mc["thr"]["q"]
    thr = Fraction(t[0], t[1]) if mc["metric"] != "ASSD" else t[0] / t[1]
    _, fragile, info = oracle.check_matching(pred, ref, mc["metric"], thr, False, {})
    return not (info["tie"] or fragile)


def one_case(ctx, pred, ref, cfg, src):
    inp = {"shape": list(pred.shape), "dtype": str(pred.dtype), "pred": gen.arr_json(pred), "ref": gen.arr_json(ref), "cfg": cfg, "src": src}
    a = E.run_impl(cfg, pred, ref)
    b = E.run_impl(cfg, ref, pred)
    if isinstance(a, str) or isinstance(b, str):
        ctx.case(inp, False)
        if a != b:
            ctx.violation(f"one direction raises: {a if isinstance(a, str) else 'ok'} vs {b if isinstance(b, str) else 'ok'}", inp, key={"kind": "raises"})
        return
    a, b = a["ungrouped"], b["ungrouped"]
    rv = a.get("list_RVD")
    nontriv = a["tp"] >= 1 and (a["fp"] != a["fn"] or (isinstance(rv, list) and any(x != 0 for x in rv)))
    ctx.case(inp, nontriv, sample=inp if pred.size <= 16 else None)
    ctx.count("input." + cfg["input"])
    if not unique_matching(cfg, pred, ref):
        ctx.count("tie_skipped")
        return
    d = mirrored(a, b, cfg["eval_metrics"])
    if d:
        ctx.violation("exchanging prediction and reference does not mirror the result: " + d, inp,
                      impl={"forward": a, "backward": b}, key={"kind": "not-mirrored"})
    for (p, r, s) in ((pred, ref, a), (ref, pred, b)):
        mod = E.run_model(ctx, cfg, p, r)
        if "error" in mod:
            ctx.disagree("model raises", inp, s, mod)
        else:
            diffs = E.compare_result(ctx, inp, s, mod["ok"], cfg)
            if diffs:
                ctx.disagree("result field " + diffs[0][0], inp, str(diffs[0][1]), str(diffs[0][2]))


def gappy(rng, a, dtype=np.uint8):
    labs = [int(x) for x in np.unique(a) if x]
    hi = 250 if dtype == np.uint8 else 60000
    new = rng.sample(range(1, hi), len(labs))
    if new and new[0] % 4 == 0:
        new[0] = int(np.iinfo(dtype).max)          # the largest label the dtype can hold
    out = np.zeros(a.shape, dtype)
    for k, v in zip(labs, new):
        out[a == k] = v
    return out


def rand_cfg(rng):
    it = rng.choice(["MATCHED", "UNMATCHED", "UNMATCHED", "UNMATCHED", "SEMANTIC"])
    metrics = ["IOU", "DSC", "RVD"] + (["ASSD"] if rng.random() < 0.4 else [])
    if it == "MATCHED":
        return E.mk_cfg(it, metrics)
    mm = rng.choice(["IOU", "IOU", "DSC", "ASSD"])
    thr = rng.choice([(1, 10), (1, 4), (1, 2), (1, 2), (11, 20), (3, 5), (3, 4)]) if mm != "ASSD" else rng.choice([(1, 2), (1, 1), (2, 1)])
    return E.mk_cfg(it, metrics, matcher=E.naive(mm, thr), backend=rng.choice([None, "cc3d", "scipy"]) if it == "SEMANTIC" else None)


def corpus(ctx):
    cfg = E.mk_cfg("UNMATCHED", ["IOU", "DSC", "RVD"], matcher=E.naive("IOU", (1, 2)))
    # 15 pairs, prediction labels 1..15, reference labels 1..16 (codes near 255/256)
    n = 16
    ref = np.zeros((1, 5 * n), np.uint8)
    pred = np.zeros((1, 5 * n), np.uint8)
    for k in range(n):
        ref[0, 5 * k:5 * k + 4] = k + 1
        if k < 15:
            pred[0, 5 * k:5 * k + 4] = k + 1
            pred[0, 5 * k] = 0
    one_case(ctx, pred, ref, cfg, "corpus.codes-255")
    # gaps in the reference labels plus unmatched predictions
    a = np.zeros((1, 12), np.uint8)
    b = np.zeros((1, 12), np.uint8)
    a[0, 0:4] = 1
    a[0, 8:10] = 2
    b[0, 0:5] = 1
    b[0, 10:12] = 3
    one_case(ctx, a, b, cfg, "corpus.gaps")


def dtype_max_corpus(ctx):
    """one side uses the largest label its dtype can hold, the other has instances left unmatched (which need fresh labels)"""
    for dt in (np.uint8, np.uint16):
        top = int(np.iinfo(dt).max)
        for la, lb in ((top, 7), (top, top), (top - 1, top), (top, top - 1)):
            a = np.zeros((1, 24), dt)
            b = np.zeros((1, 24), dt)
            a[0, 0:5] = la
            b[0, 0:4] = lb
            b[0, 8:11] = 3          # unmatched on one side
            b[0, 14:16] = 5
            a[0, 20:23] = 9         # and on the other
            for it in ("UNMATCHED", "MATCHED"):
                if it == "MATCHED" and la != lb:
                    continue
                cfg = E.mk_cfg(it, ["IOU", "DSC", "RVD"], matcher=E.naive("IOU", (1, 2)) if it == "UNMATCHED" else None)
                ctx.count("largest_label_of_dtype")
                one_case(ctx, a, b, cfg, "corpus.dtype-max")


def corpus2(ctx):
    # one instance split between two instances of the other side, both beating a Dice threshold in (1/2, 2/3)
    ref = np.zeros((1, 14), np.uint8)
    pred = np.zeros((1, 14), np.uint8)
    ref[0, 0:10] = 1
    pred[0, 0:6] = 1
    pred[0, 6:10] = 2
    for thr in ((11, 20), (3, 5), (1, 2)):
        cfg = E.mk_cfg("UNMATCHED", ["IOU", "DSC", "RVD"], matcher=E.naive("DSC", thr))
        one_case(ctx, pred, ref, cfg, "corpus.dsc-split")
    # many more components on one side than on the other (semantic input)
    a = np.zeros((41, 41), np.uint8)
    a[::2, ::2] = 1
    b = np.zeros((41, 41), np.uint8)
    b[4, 4] = 1            # three reference components, each identical to one prediction component (no ties)
    b[20, 20] = 1
    b[30, 36] = 1
    b[21, 21] = 1          # and one that matches nothing (odd position)
    one_case(ctx, a, b, E.mk_cfg("SEMANTIC", ["IOU", "DSC"], matcher=E.naive("IOU", (1, 2)), backend="scipy"), "corpus.many-components")


def run_cases(ctx, n, tag):
    rng = ctx.rng
    for i in range(n):
        pred, ref = gen.pair(rng, hi=7, max_obj=5, allow_empty=False)
        cfg = rand_cfg(rng)
        if cfg["input"] == "UNMATCHED" and rng.random() < 0.6:
            dt = rng.choice([np.uint8, np.uint16])
            pred, ref = gappy(rng, pred, dt), gappy(rng, ref, dt)
        one_case(ctx, pred, ref, cfg, f"{tag}{i}")


def rejection_cases(ctx, n):
    """whether a pair is evaluated or rejected must not depend on the direction: a label that no class group covers,
    or a negative value in a signed semantic map, placed in one of the two maps only"""
    rng = ctx.rng
    for i in range(n):
        pred, ref = gen.pair(rng, ndim=rng.choice([2, 2, 3]), hi=7, max_obj=3, allow_empty=False)
        labels = sorted((set(np.unique(pred).tolist()) | set(np.unique(ref).tolist())) - {0})
        kind = rng.choice(["stray-label", "negative"])
        a, b = pred.copy(), ref.copy()
        if kind == "stray-label":
            stray = max(labels) + rng.randint(1, 3)
            pos = tuple(rng.randrange(n2) for n2 in b.shape)
            b[pos] = stray
            a[pos] = 0 if rng.random() < 0.5 else a[pos]
            groups = [{"name": "all", "labels": labels, "merge": False, "single": False}]
            cfg = E.mk_cfg(rng.choice(["UNMATCHED", "MATCHED", "SEMANTIC"]), ["IOU", "DSC"], matcher=E.naive("IOU", (1, 2)))
            if cfg["input"] == "MATCHED":
                cfg["matcher"] = None
        else:
            dt = rng.choice([np.int16, np.int32, np.int64])
            a, b = a.astype(dt), b.astype(dt)
            b[tuple(rng.randrange(n2) for n2 in b.shape)] = rng.choice([-1, -1, -3])
            groups = None
            cfg = E.mk_cfg("SEMANTIC", ["IOU", "DSC"], matcher=E.naive("IOU", (1, 2)))
        inp = {"shape": list(a.shape), "dtype": str(a.dtype), "pred": gen.arr_json(a), "ref": gen.arr_json(b), "cfg": cfg, "groups": groups,
               "kind": kind, "src": f"reject{i}"}
        ctx.case(inp, True)
        ctx.count("one_sided_" + kind)
        fwd = E.run_impl(cfg, a, b, groups=groups)
        bwd = E.run_impl(cfg, b, a, groups=groups)
        if isinstance(fwd, str) != isinstance(bwd, str) or (isinstance(fwd, str) and fwd != bwd):
            ctx.violation(f"a {kind} present in one map only: evaluate(a, b) -> {fwd if isinstance(fwd, str) else 'a result'} but "
                          f"evaluate(b, a) -> {bwd if isinstance(bwd, str) else 'a result'}", inp, key={"kind": "raises"})


def environment_cases(ctx, n):
    """the mirror relation in other process states: a child interpreter started with -O, and a child pinned to a single
    core; scenes in which label values are shared crosswise between the two maps and a prediction reaches far beyond
    its reference's bounding box"""
    rng = ctx.rng
    cases = []
    for i in range(n):
        sc = gen.shared_value_scene(rng, dtype=np.uint8)
        if sc is None:
            continue
        pred, ref = sc
        cfg = E.mk_cfg("UNMATCHED", ["IOU", "DSC", "RVD"], matcher=E.naive("IOU", (1, 2)))
        if not unique_matching(cfg, pred, ref):
            continue
        cases.append({"cfg": cfg, "pred": pred, "ref": ref})
        cases.append({"cfg": cfg, "pred": ref, "ref": pred})
    for mode, kw in (("python -O", {}), ("one usable core", {"optimize": False, "one_core": True})):
        diffs = E.optimized_differences(ctx, cases, mode=mode, **kw)
        ctx.count("child." + mode.replace(" ", "_"), len(cases))
        for k, d in diffs[:3]:
            c = cases[k]
            inp = {"shape": list(c["pred"].shape), "dtype": "uint8", "pred": gen.arr_json(c["pred"]), "ref": gen.arr_json(c["ref"]), "cfg": c["cfg"],
                   "mode": mode, "src": f"environment{k}"}
            ctx.case(inp, True)
            ctx.violation(f"C11 violated in a child interpreter ({mode}): the pair evaluates differently than in this process, where both directions mirror: {d}",
                          inp, key={"kind": "environment"})


def run(ctx):
    corpus(ctx)
    corpus2(ctx)
    dtype_max_corpus(ctx)
    environment_cases(ctx, ctx.scale(8, 40))
    rejection_cases(ctx, ctx.scale(80, 800))
    run_cases(ctx, ctx.scale(500, 5000), "rand")


def search(ctx):
    run_cases(ctx, ctx.scale(1000, 4000), "search")


def replay(ctx, rec):
    i = rec["input"]
    if i.get("mode") in ("python -O", "one usable core"):
        environment_cases(ctx, 12)
        return
    if i.get("kind") in ("stray-label", "negative"):
        dt = np.dtype(i["dtype"])
        a, b = np.array(i["pred"], dtype=dt).reshape(i["shape"]), np.array(i["ref"], dtype=dt).reshape(i["shape"])
        fwd, bwd = E.run_impl(i["cfg"], a, b, groups=i["groups"]), E.run_impl(i["cfg"], b, a, groups=i["groups"])
        ctx.case(i, True)
        if isinstance(fwd, str) != isinstance(bwd, str) or (isinstance(fwd, str) and fwd != bwd):
            ctx.violation(f"one direction is rejected, the other evaluated: {fwd if isinstance(fwd, str) else 'a result'} vs {bwd if isinstance(bwd, str) else 'a result'}",
                          i, key={"kind": "raises"})
        return
    dt = np.dtype(i.get("dtype", "uint8"))
    one_case(ctx, np.array(i["pred"], dtype=dt).reshape(i["shape"]), np.array(i["ref"], dtype=dt).reshape(i["shape"]), i["cfg"], "replay")
