"""C12 — class groups are evaluated independently and completely."""
from __future__ import annotations
import numpy as np
import forms, impl, gen, evalutil as E
from props.c10 import summ_equal

RULE = ("undefined labels on one side with the maps given as views of one buffer / read-only / subclass, and in a child interpreter started with -O; merge groups that are also single-instance groups; groups whose label list has a non-ascending set-iteration order with foreign labels in between; groups with 10-32 widely spread labels on uint32 maps; signed semantic input with negative labels (must be rejected); label-map pairs with 2-6 semantic/instance labels, labels of different groups adjacent and overlapping, arrays "
        "with and without background x random partitions of the label set into 1-4 named groups (plain, merge, "
        "single-instance; names with upper case, spaces, '-', '_') x labels outside every group (must be rejected) x "
        "input types x decision metric; each group's result compared with an ungrouped evaluation of the restricted "
        "arrays and with the model; non-trivial = >= 2 groups and voxels of another group adjacent to or overlapping "
        "the group's instances")

NAMES = ["organ", "Lesion", "my-grp", "grp_2", "Upper Case", "a", "x-y_z"]


def rand_groups(rng, labels):
    labels = labels[:]
    rng.shuffle(labels)
    k = rng.randint(1, min(4, len(labels)))
    cuts = sorted(rng.sample(range(1, len(labels)), k - 1)) if k > 1 else []
    parts = [labels[a:b] for a, b in zip([0] + cuts, cuts + [len(labels)])]
    names = rng.sample(NAMES, k)
    gs = []
    for n, p in zip(names, parts):
        kind = rng.choice(["plain", "plain", "merge", "single", "merge+single"])
        if kind in ("single", "merge+single"):
            p = p[:1]
        gs.append({"name": n, "labels": sorted(p), "merge": kind in ("merge", "merge+single"), "single": kind in ("single", "merge+single")})
    return gs


def extract(g, a):
    out = np.where(np.isin(a, g["labels"]), a, 0).astype(a.dtype)
    if g["merge"]:
        out[out != 0] = 1
    return out


def one_case(ctx, pred, ref, cfg, groups, src):
    inp = {"shape": list(pred.shape), "dtype": str(pred.dtype), "pred": gen.arr_json(pred), "ref": gen.arr_json(ref),
           "cfg": cfg, "groups": groups, "src": src}
    defined = set(l for g in groups for l in g["labels"])
    present = (set(np.unique(pred).tolist()) | set(np.unique(ref).tolist())) - {0}
    undefined = sorted(present - defined)
    res = E.run_impl(cfg, pred, ref, groups=groups)
    if any(l < 0 for l in undefined):
        ctx.case(inp, True)
        ctx.count("negative_undefined_label")
        if res != "ERR:AssertionError":
            ctx.violation(f"input with negative label(s) {[l for l in undefined if l < 0]} that belong to no group was not rejected", inp,
                          impl=str(res)[:200], key={"kind": "undefined-accepted"})
        return
    adjacent = len(groups) >= 2 and len([g for g in groups if (np.isin(pred, g["labels"]).any() or np.isin(ref, g["labels"]).any())]) >= 2
    ctx.case(inp, adjacent, sample={k: inp[k] for k in ("shape", "pred", "ref", "groups")} if pred.size <= 20 else None)
    ctx.count("undefined_label" if undefined else "all_defined")
    ctx.count("input." + cfg["input"])
    for g in groups:
        ctx.count("group." + ("merge+single" if g["merge"] and g["single"] else "merge" if g["merge"] else "single" if g["single"] else "plain"))
    # model
    mgroups = [{**g, "name": g["name"].lower()} for g in groups]
    mod = E.run_model(ctx, cfg, pred, ref, groups=mgroups)
    if undefined:
        if res != "ERR:AssertionError":
            ctx.violation(f"input with label(s) {undefined} that belong to no group was not rejected", inp, impl=str(res)[:200],
                          key={"kind": "undefined-accepted"})
        if "error" not in mod:
            ctx.disagree("rejection of undefined labels", inp, str(res)[:100], "model accepts")
        return
    if isinstance(res, str):
        ctx.violation(f"fully defined input was rejected/raised: {res}", inp, impl=res, key={"kind": "raises"})
        return
    if "error" in mod:
        ctx.disagree("model rejects", inp, "impl accepts", mod)
        return
    mres = {n: o for n, o in mod["ok"]}
    for g in groups:
        name = g["name"].lower()
        if name not in res:
            ctx.violation(f"no result reported for group {name}", inp, impl=list(res), key={"kind": "group-missing"})
            continue
        s = res[name]
        # ---- metamorphic oracle: ungrouped evaluation of the restricted arrays
        p_g, r_g = extract(g, pred), extract(g, ref)
        cfg_g = dict(cfg)
        single_shortcut = g["single"] and cfg["input"] != "MATCHED"
        if single_shortcut:
            cfg_g["input"] = "MATCHED"
        want = E.run_impl(cfg_g, p_g, r_g)
        if isinstance(want, str):
            continue
        d = summ_equal(want["ungrouped"], s, cfg["eval_metrics"])
        if d:
            key = {"kind": "group-differs"}
            if single_shortcut and cfg.get("decision"):
                cfg_k = dict(cfg_g)
                cfg_k["decision"] = [cfg["decision"][0], {"q": [0, 1]}]
                known = E.run_impl(cfg_k, p_g, r_g)
                if isinstance(known, dict) and summ_equal(known["ungrouped"], s, cfg["eval_metrics"]) is None:
                    key = {"kind": "single-instance-decision-threshold"}
            ctx.violation(f"group '{name}' result differs from the ungrouped evaluation of the restricted arrays: {d}", inp,
                          impl={"grouped": s, "restricted": want["ungrouped"]}, key=key)
        # ---- correspondence
        mo = mres.get(name)
        if mo is None or "error" in mo:
            ctx.disagree(f"group {name}: model raises", inp, s, mo)
            continue
        cfg_m = dict(cfg_g)
        diffs = E.compare_result(ctx, inp, s, mo["ok"], cfg_m)
        if diffs:
            ctx.disagree(f"group {name}: result field {diffs[0][0]}", inp, str(diffs[0][1]), str(diffs[0][2]))


def gen_case(rng):
    shape = gen.rand_shape(rng, ndim=rng.choice([2, 2, 3]), lo=3, hi=7)
    labels = rng.sample(range(1, 9), rng.randint(2, 6))
    def mk():
        a = np.zeros(shape, np.uint8)
        if rng.random() < 0.15:
            a[...] = rng.choice(labels)       # no background at all
        for _ in range(rng.randint(1, 6)):
            gen.put_object(rng, a, rng.choice(labels), kind=rng.choice(["box", "box", "voxel", "line", "L"]))
        return a
    ref = mk()
    pred = ref.copy() if rng.random() < 0.3 else mk()
    if rng.random() < 0.5:
        m = rng.random(shape) if False else None
        tmp = mk()
        pred = np.where(tmp != 0, tmp, pred).astype(np.uint8)
    return pred, ref, labels


def spread_case(rng):
    """a group with many widely spread labels next to a small group (uint32 maps)"""
    side = rng.choice([10, 14, 16])
    k = rng.randint(10, 32)
    big = sorted(rng.sample(range(100, 60000), k)) if rng.random() < 0.7 else list(range(50, 50 + k))
    small = [7, 8]
    def mk():
        a = np.zeros((side, side), np.uint32)
        for _ in range(rng.randint(2, 6)):
            tmp = np.zeros((side, side), np.uint8)
            gen.put_object(rng, tmp, 1, kind=rng.choice(["box", "box", "line", "L"]))
            a[tmp == 1] = rng.choice(small + big[:3] + [rng.choice(big)])
        return a
    ref = mk()
    pred = ref.copy() if rng.random() < 0.4 else mk()
    groups = [{"name": "spread", "labels": big, "merge": rng.random() < 0.2, "single": False},
              {"name": "small", "labels": small, "merge": False, "single": False}]
    return pred, ref, groups


def set_order_case(rng):
    """a group whose label list comes back from set() in non-ascending order (half of them looking like a contiguous
    block when only the first and last element are inspected), with foreign labels of another group in between"""
    got = gen.set_order_labels(rng, hi=60, deceptive=rng.random() < 0.5)
    if got is None:
        return None
    S, _ = got
    lo, hi = min(S), max(S)
    inside = [x for x in range(lo, hi + 1) if x not in S]
    other = rng.sample(inside, min(len(inside), 2)) if inside else []
    other += rng.sample([x for x in range(1, 80) if x not in S and x not in other], 1)
    shape = (rng.randint(7, 11), rng.randint(7, 11))
    def mk():
        a = np.zeros(shape, np.uint8)
        for l in S + other:
            if rng.random() < 0.85:
                tmp = np.zeros(shape, np.uint8)
                gen.put_object(rng, tmp, 1, kind=rng.choice(["box", "line", "L", "voxel"]))
                a[(tmp == 1)] = l
        return a
    ref = mk()
    pred = ref.copy() if rng.random() < 0.3 else mk()
    order = list(S)
    rng.shuffle(order)
    groups = [{"name": "a", "labels": order, "merge": rng.random() < 0.2, "single": False},
              {"name": "b", "labels": other, "merge": False, "single": False}]
    return pred, ref, groups


def rand_cfg(rng):
    it = rng.choice(["MATCHED", "UNMATCHED", "SEMANTIC", "SEMANTIC"])
    metrics = ["IOU", "DSC"] + (["RVD"] if rng.random() < 0.5 else []) + (["ASSD"] if rng.random() < 0.3 else [])
    dec = None
    if rng.random() < 0.35:
        dm = rng.choice([m for m in metrics if m != "RVD"])
        dec = [dm, {"q": list(rng.choice([(1, 2), (3, 4)]) if dm != "ASSD" else rng.choice([(1, 1), (5, 1)]))}]
    mk = None if it == "MATCHED" else E.naive("IOU", rng.choice([(1, 4), (1, 2)]))
    return E.mk_cfg(it, metrics, matcher=mk, decision=dec)


def run_cases(ctx, n, tag):
    rng = ctx.rng
    for i in range(n):
        r = rng.random()
        if r < 0.1:
            pred, ref, groups = spread_case(rng)
            ctx.count("spread_group")
            one_case(ctx, pred, ref, E.mk_cfg("MATCHED", ["IOU", "DSC"]), groups, f"{tag}{i}.spread")
            continue
        if r < 0.26:
            c = set_order_case(rng)
            if c is not None:
                ctx.count("set_order_group")
                one_case(ctx, c[0], c[1], rand_cfg(rng), c[2], f"{tag}{i}.setorder")
            continue
        if r < 0.32:
            pred, ref, labels = gen_case(rng)
            dt = rng.choice([np.int16, np.int32, np.int64])
            pred, ref = pred.astype(dt), ref.astype(dt)
            (pred if rng.random() < 0.5 else ref)[tuple(rng.randrange(n2) for n2 in pred.shape)] = rng.choice([-1, -1, -7])
            cfg = E.mk_cfg("SEMANTIC", ["IOU", "DSC"], matcher=E.naive("IOU", (1, 2)))
            one_case(ctx, pred, ref, cfg, rand_groups(rng, labels), f"{tag}{i}.neg")
            continue
        pred, ref, labels = gen_case(rng)
        groups = rand_groups(rng, labels if rng.random() < 0.85 else labels[:-1])
        cfg = rand_cfg(rng)
        if i % 7 == 3:
            groups = beyond_dtype(rng, groups)
            ctx.count("group_labels_beyond_image_dtype")
        elif i % 7 == 5 and len(groups) >= 2:
            groups = [dict(g) for g in groups]
            groups[0]["mutate_after"] = True
            ctx.count("caller_mutates_its_label_lists_after_definition")
        one_case(ctx, pred, ref, cfg, groups, f"{tag}{i}")


def beyond_dtype(rng, groups, bits=8):
    """group definitions are independent of the image dtype: give one group additional labels that do not fit the
    dtype of the arrays and are congruent (mod 2^bits) to labels of the other groups"""
    gs = [dict(g) for g in groups]
    cand = [j for j, g in enumerate(gs) if not g["single"] and len(gs) > 1]
    if not cand:
        gs.append({"name": "extra_grp", "labels": [], "merge": False, "single": False})
        cand = [len(gs) - 1]
    k = rng.choice(cand)
    others = sorted({l for j, g in enumerate(gs) if j != k for l in g["labels"]})
    add = [(2 ** bits) * rng.choice([1, 1, 2]) + l for l in rng.sample(others, min(len(others), rng.randint(1, 3)))]
    gs[k] = dict(gs[k], labels=sorted(set(gs[k]["labels"]) | set(add)))
    return gs


def corpus(ctx):
    # a group of labels that do not fit the uint8 / uint16 images (an implant class absent from this cohort) next to the groups in use
    for dt, off in ((np.uint8, 256), (np.uint16, 65536)):
        ref = np.zeros((6, 10), dt)
        ref[1:4, 1:4] = 1
        ref[1:4, 6:9] = 2
        pred = np.roll(ref, 1, axis=0)
        gs = [{"name": "vertebra", "labels": [1, 2], "merge": False, "single": False},
              {"name": "implant", "labels": [off + 1, off + 2], "merge": False, "single": False}]
        for it in ("SEMANTIC", "UNMATCHED", "MATCHED"):
            ctx.count("group_labels_beyond_image_dtype")
            one_case(ctx, pred, ref, E.mk_cfg(it, ["IOU", "DSC"], matcher=E.naive("IOU", (1, 2)) if it != "MATCHED" else None), gs, "corpus.beyond-dtype")
    # labels of different groups that agree modulo 2^8 / 2^16 (1, 2 next to 257, 258; 3 next to 65539), present in maps wide enough to hold
    # them: a group's restriction carried out in a narrower type than the map's would let the other group's voxels in
    for dt, off in ((np.uint16, 256), (np.uint32, 256), (np.uint32, 65536), (np.uint64, 65536)):
        ref = np.zeros((6, 14), dt)
        ref[1:4, 1:4], ref[1:4, 5:8] = 1, 2
        ref[1:5, 9:13] = off + 1
        ref[4:6, 1:4] = off + 2
        pred = np.roll(ref, 1, axis=1)
        pred[pred == off + 1] = off + 2
        gs = [{"name": "small", "labels": [1, 2], "merge": False, "single": False},
              {"name": "large", "labels": [off + 1, off + 2], "merge": False, "single": False}]
        for it in ("UNMATCHED", "MATCHED", "SEMANTIC"):
            ctx.count("group_labels_congruent_modulo_a_dtype")
            one_case(ctx, pred, ref, E.mk_cfg(it, ["IOU", "DSC"], matcher=E.naive("IOU", (1, 2)) if it != "MATCHED" else None), gs, "corpus.congruent-labels")
        gs2 = [{"name": "small", "labels": [1, 2], "merge": True, "single": False}, {"name": "large", "labels": [off + 1, off + 2], "merge": False, "single": False}]
        one_case(ctx, pred, ref, E.mk_cfg("UNMATCHED", ["IOU", "DSC"], matcher=E.naive("IOU", (1, 2))), gs2, "corpus.congruent-labels")
    # the caller's label lists change after the groups were defined
    ref = np.zeros((6, 12), np.uint8)
    ref[1:4, 1:4], ref[1:4, 5:8], ref[1:4, 9:12] = 1, 2, 3
    pred = np.roll(ref, 1, axis=0)
    gs = [{"name": "vertebra", "labels": [1, 2], "merge": False, "single": False, "mutate_after": True},
          {"name": "disc", "labels": [3], "merge": False, "single": False}]
    for it in ("SEMANTIC", "UNMATCHED", "MATCHED"):
        ctx.count("caller_mutates_its_label_lists_after_definition")
        one_case(ctx, pred, ref, E.mk_cfg(it, ["IOU", "DSC"], matcher=E.naive("IOU", (1, 2)) if it != "MATCHED" else None), gs, "corpus.lists-mutated-after-definition")
    # no background voxel and the smallest label belongs to no group
    a = np.array([[1, 2, 3, 4], [1, 2, 3, 4]], np.uint8)
    gs = [{"name": "a", "labels": [2], "merge": False, "single": False}, {"name": "b", "labels": [3, 4], "merge": False, "single": False}]
    one_case(ctx, a, a.copy(), E.mk_cfg("MATCHED", ["IOU", "DSC"]), gs, "corpus.no-background")
    # single-instance group next to other groups
    ref = np.zeros((6, 8), np.uint8)
    ref[0:3, 0:3] = 1
    ref[0:3, 4:7] = 2
    ref[4:6, 1:4] = 3
    pred = np.roll(ref, 1, axis=1)
    gs = [{"name": "organ", "labels": [1], "merge": False, "single": True}, {"name": "lesions", "labels": [2, 3], "merge": False, "single": False}]
    for it in ("SEMANTIC", "UNMATCHED", "MATCHED"):
        one_case(ctx, pred, ref, E.mk_cfg(it, ["IOU", "DSC"], matcher=E.naive("IOU", (1, 2)) if it != "MATCHED" else None), gs, "corpus.single-next-to-others")


def rejection_form_cases(ctx, n):
    """an undefined label in one map only, the two maps given as views of one buffer / read-only / subclass; and the
    same submissions in a child interpreter started with -O: the input must be rejected all the same"""
    rng = ctx.rng
    tasks, meta = [], []
    for i in range(n):
        pred, ref, labels = gen_case(rng)
        groups = rand_groups(rng, labels)
        defined = sorted(l for g in groups for l in g["labels"])
        stray = max(labels) + rng.randint(1, 4)
        side = rng.choice(["pred", "ref"])
        tgt = (pred if side == "pred" else ref)
        tgt[tuple(rng.randrange(n2) for n2 in tgt.shape)] = stray
        other = ref if side == "pred" else pred
        other[other == stray] = 0
        cfg = E.mk_cfg(rng.choice(["MATCHED", "UNMATCHED", "SEMANTIC"]), ["IOU", "DSC"], matcher=E.naive("IOU", (1, 2)))
        if cfg["input"] == "MATCHED":
            cfg["matcher"] = None
        inp0 = {"shape": list(pred.shape), "dtype": str(pred.dtype), "pred": gen.arr_json(pred), "ref": gen.arr_json(ref), "cfg": cfg, "groups": groups,
                "stray": [side, stray], "src": f"rejform{i}"}
        for name, p2, r2 in forms.pair_forms(pred, ref, which=[rng.choice(["channels_last", "even_odd", "window", "readonly", "subclass"])]):
            inp = dict(inp0)
            inp["form"] = name
            ctx.case(inp, True)
            ctx.count("rejection.form." + name)
            res = E.run_impl(cfg, p2, r2, groups=groups)
            if res != "ERR:AssertionError":
                ctx.violation(f"label {stray} (in the {side} map only) belongs to no group, but the input given as {name.replace('_', ' ')} was not rejected", inp,
                              impl=str(res)[:200], key={"kind": "undefined-accepted"})
        if len(tasks) < (12 if ctx.quick else 60):
            j = lambda a: {"data": gen.arr_json(a), "dtype": str(a.dtype), "shape": list(a.shape)}
            tasks.append({"kind": "evaluate", "cfg": cfg, "pred": j(pred), "ref": j(ref), "groups": groups})
            meta.append(inp0)
    res = forms.run_child([{"kind": "info"}] + tasks, optimize=True)
    if isinstance(res, dict) or not isinstance(res[0], dict) or res[0].get("debug") is not False:
        ctx.notes.append("child interpreter with -O could not be started: " + str(res)[:200])
        return
    for inp0, out in zip(meta, res[1:]):
        inp = dict(inp0)
        inp["mode"] = "python -O"
        ctx.case(inp, True)
        ctx.count("rejection.python_-O")
        if out != "ERR:AssertionError":
            ctx.violation(f"label {inp0['stray'][1]} belongs to no group, but in an interpreter started with -O the input was not rejected", inp,
                          impl=str(out)[:200], key={"kind": "undefined-accepted"})


def name_clash_cases(ctx):
    """two group names that coincide once the library has normalised them ('Lesion' / 'lesion', 1 / '1'): the later definition replaces
    the earlier one, so the labels of the replaced group belong to no group any more — an input that carries them is rejected, not
    silently stripped of them; an input with the surviving group's labels only is evaluated"""
    for names in (("Lesion", "lesion"), ("ORGAN", "Organ"), ("a1", "A1")):
        groups = [{"name": names[0], "labels": [1, 2], "merge": False, "single": False}, {"name": names[1], "labels": [5], "merge": False, "single": False},
                  {"name": "other", "labels": [7], "merge": False, "single": False}]
        ref = np.zeros((4, 10), np.uint8)
        ref[0:2, 0:3], ref[2:4, 5:8] = 5, 7
        pred = np.roll(ref, 1, axis=1)
        bad_ref = ref.copy()
        bad_ref[0:2, 7:9] = 1
        for it in ("MATCHED", "UNMATCHED", "SEMANTIC"):
            cfg = E.mk_cfg(it, ["IOU", "DSC"], matcher=E.naive("IOU", (1, 4)) if it != "MATCHED" else None)
            inp = {"shape": [4, 10], "dtype": "uint8", "pred": gen.arr_json(pred), "ref": gen.arr_json(bad_ref), "cfg": cfg, "groups": groups, "name_clash": list(names)}
            ctx.case(inp, True)
            ctx.count("group_names_clash_after_normalisation")
            res = E.run_impl(cfg, pred, bad_ref, groups=groups)
            if res != "ERR:AssertionError":
                ctx.violation(f"groups {names[0]!r} and {names[1]!r} share one normalised name, so only the later one ({names[1]!r}, labels [5]) exists; label 1 in the "
                              f"reference belongs to no group, but the input was not rejected", inp, impl=str(res)[:200], key={"kind": "undefined-accepted"})
                continue
            ok = E.run_impl(cfg, pred, ref, groups=groups)
            if isinstance(ok, str) or sorted(ok) != sorted([names[1].lower(), "other"]):
                ctx.violation(f"with the clashing names {names}, an input carrying only defined labels should be evaluated for the groups "
                              f"{[names[1].lower(), 'other']}; got {ok if isinstance(ok, str) else sorted(ok)}", inp, key={"kind": "undefined-accepted"})


def config_roundtrip_case(ctx):
    """an evaluator with class groups (a plain, a merge and a single-instance group) saved and loaded: each group's result of the
    loaded evaluator is that of the original — the groups keep their kind"""
    import os, shutil
    from common import VERIF
    groups = [{"name": "vertebrae", "labels": [1, 2], "merge": False, "single": False}, {"name": "tumor", "labels": [3, 4], "merge": True, "single": False},
              {"name": "cord", "labels": [5], "merge": False, "single": True}]
    ref = np.zeros((6, 14), np.uint8)
    ref[0:2, 0:3], ref[0:2, 5:8], ref[3:5, 0:2], ref[3:5, 2:4], ref[3:6, 9:12] = 1, 2, 3, 4, 5
    pred = np.roll(ref, 1, axis=1)
    pred[3:5, 1:3], pred[3:5, 3:5] = 4, 3          # the two tumour parts named the other way round
    d = VERIF / ".work" / f"c12cfg_{os.getpid()}"
    os.makedirs(d, exist_ok=True)
    try:
        for it in ("UNMATCHED", "SEMANTIC", "MATCHED"):
            cfg = E.mk_cfg(it, ["IOU", "DSC"], matcher=E.naive("IOU", (1, 4)) if it != "MATCHED" else None)
            inp = {"shape": [6, 14], "dtype": "uint8", "pred": gen.arr_json(pred), "ref": gen.arr_json(ref), "cfg": cfg, "groups": groups, "config_roundtrip": True}
            ctx.case(inp, True)
            ctx.count("grouped_evaluator_saved_and_loaded")
            try:
                with impl.quiet():
                    ev = impl.mk_evaluator(cfg, groups=groups)
                    ev.save_to_config(str(d / "ev.yaml"))
                    back = impl.Panoptica_Evaluator.load_from_config(str(d / "ev.yaml"))
                a = E.run_impl(cfg, pred, ref, groups=groups, evaluator=ev)
                b = E.run_impl(cfg, pred, ref, groups=groups, evaluator=back)
            except Exception as e:
                ctx.violation(f"an evaluator with class groups could not be saved and loaded: {type(e).__name__}: {str(e)[:120]}", inp, key={"kind": "group-result"})
                continue
            if isinstance(a, str) or isinstance(b, str) or sorted(a) != sorted(b):
                ctx.violation(f"the loaded evaluator evaluates other groups or raises: {a if isinstance(a, str) else sorted(a)} vs {b if isinstance(b, str) else sorted(b)}", inp,
                              key={"kind": "group-result"})
                continue
            for g in a:
                bad = [k for k in ("num_ref_instances", "num_pred_instances", "tp", "fp", "fn") if a[g][k] != b[g][k]]
                if bad:
                    ctx.violation(f"group {g!r}: after saving and loading the evaluator {bad[0]} is {b[g][bad[0]]} instead of {a[g][bad[0]]} (the group is no longer evaluated as defined)", inp,
                                  key={"kind": "group-result"})
                    break
    finally:
        shutil.rmtree(d, ignore_errors=True)


def run(ctx):
    corpus(ctx)
    name_clash_cases(ctx)
    config_roundtrip_case(ctx)
    rejection_form_cases(ctx, ctx.scale(60, 600))
    run_cases(ctx, ctx.scale(450, 4500), "rand")


def search(ctx):
    run_cases(ctx, ctx.scale(900, 3500), "search")


def replay(ctx, rec):
    if rec["input"].get("config_roundtrip"):
        config_roundtrip_case(ctx)
        return
    if rec["input"].get("name_clash"):
        name_clash_cases(ctx)
        return
    if rec["input"].get("stray"):
        rejection_form_cases(ctx, 80)
        return
    i = rec["input"]
    dt = np.dtype(i.get("dtype", "uint8"))
    one_case(ctx, np.array(i["pred"], dtype=dt).reshape(i["shape"]), np.array(i["ref"], dtype=dt).reshape(i["shape"]),
             i["cfg"], i["groups"], "replay")
