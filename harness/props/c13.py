"""C13 — global binary metrics depend only on the two foregrounds."""
from __future__ import annotations
import numpy as np
import impl, gen, oracle, evalutil as E
from common import same_value, score_matches, rval_to_py, close
from props.c08 import rand_handler

RULE = ("the same evaluations in a child interpreter started with -O; a handler re-configured through its public mapping between two evaluations; uint8/uint16 pairs with an outlying overlap voxel whose two labels add up to 2^bits; class groups whose labels exceed the dtype of the arrays; label-map pairs (incl. one or both sides empty; label values up to 2^16 incl. multiples of 256) x subsets of global "
        "metrics {DSC,IOU,RVD,ASSD} x random asymmetric edge-case handlers x input types; each foreground evaluated under "
        "several instance labellings; non-trivial = a side is empty under a handler with distinct values, or the same "
        "foreground evaluated under >= 2 different labellings")


def relabel_variants(rng, a):
    """different instance labellings of one foreground"""
    out = [a]
    fg = a != 0
    one = fg.astype(a.dtype)
    out.append(one)
    lab = np.zeros(a.shape, np.uint16)
    idx = np.argwhere(fg)
    for k, c in enumerate(idx):
        lab[tuple(c)] = rng.choice([1, 2, 3, 256, 512, 257, 65535]) if rng.random() < 0.5 else (k % 5) + 1
    out.append(lab)
    return out


def one_case(ctx, pred, ref, cfg, gm, src, variant=False):
    inp = {"shape": list(pred.shape), "dtype": str(pred.dtype), "pred": gen.arr_json(pred), "ref": gen.arr_json(ref),
           "cfg": cfg, "global_metrics": gm, "src": src}
    pe, re_ = not pred.any(), not ref.any()
    h = {m: z for m, z in cfg["handler"]["table"]}
    distinct = any(len(set(h[m].values())) == 4 for m in gm)
    ctx.case(inp, ((pe or re_) and distinct) or variant, sample={k: inp[k] for k in ("shape", "pred", "ref", "global_metrics")} if pred.size <= 30 else None)
    ctx.count("empty_pred" if pe and not re_ else "empty_ref" if re_ and not pe else "both_empty" if pe else "both_nonempty")
    res = E.run_impl(cfg, pred, ref, global_metrics=gm)
    if isinstance(res, str):
        ctx.count("impl_error." + res)
        return None
    s = res["ungrouped"]
    vals = {}
    for m in gm:
        got = s["global_bin_" + m.lower()]
        vals[m] = got
        if isinstance(got, str):
            ctx.violation(f"global_bin_{m.lower()} could not be computed: {got}", inp, impl=s, key={"kind": "global-raises"})
            continue
        if pe or re_:
            scen = "NO_INSTANCES" if (pe and re_) else ("EMPTY_PRED" if pe else "EMPTY_REF")
            want = E.edge_py(h[m][scen])
            if not same_value(got, want, exact=True):
                ctx.violation(f"global_bin_{m.lower()} = {got}, but the handler prescribes {h[m][scen]} for {scen}", inp,
                              impl=s, key={"kind": "global-empty"})
            mod = ctx.driver().ask({"op": "global", "handler": cfg["handler"], "m": m, "pred_empty": bool(pe), "ref_empty": bool(re_)})
            if not same_value(got, rval_to_py(mod["value"]), exact=True):
                ctx.disagree(f"global_bin_{m.lower()} (empty side)", inp, got, mod["value"])
        else:
            want = oracle.mask_score(m, ref != 0, pred != 0)
            if got is None:
                ok = False
            elif m == "ASSD":
                ok = close(float(got), float(want))
            else:
                ok = want is not None and float(got) == want.numerator / want.denominator
            if not ok:
                ctx.violation(f"global_bin_{m.lower()} = {got}, but {m} of the binarised maps is {want}", inp, impl=s,
                              key={"kind": "global-value"})
            mod = ctx.driver().ask({"op": "metric", "m": m, "shape": list(pred.shape),
                                    "ref": gen.arr_json((ref != 0).astype(np.uint8)), "pred": gen.arr_json((pred != 0).astype(np.uint8))})
            if got is None or not score_matches(mod, float(got)):
                ctx.disagree(f"global_bin_{m.lower()}", inp, got, mod)
    return vals


def run_cases(ctx, n, tag):
    rng = ctx.rng
    for i in range(n):
        gm = rng.sample(["DSC", "IOU", "RVD", "ASSD"], rng.randint(1, 4))
        hnd = rand_handler(rng, gm)
        r = rng.random()
        pred, ref = gen.pair(rng, hi=7, max_obj=3, allow_empty=False)
        if r < 0.2:
            pred = np.zeros_like(pred)
        elif r < 0.4:
            ref = np.zeros_like(ref)
        elif r < 0.5:
            pred, ref = np.zeros_like(pred), np.zeros_like(ref)
        it = rng.choice(["MATCHED", "UNMATCHED", "SEMANTIC"])
        cfg = E.mk_cfg(it, ["IOU", "DSC"], matcher=E.naive("IOU", (1, 2)) if it != "MATCHED" else None, handler=hnd)
        base = one_case(ctx, pred, ref, cfg, gm, f"{tag}{i}")
        if base is None or it == "SEMANTIC":
            continue
        # same foregrounds, different instance labellings
        for k, (p2, r2) in enumerate(zip(relabel_variants(rng, pred)[1:], relabel_variants(rng, ref)[1:])):
            dt = np.uint16
            v = one_case(ctx, p2.astype(dt), r2.astype(dt), cfg, gm, f"{tag}{i}.v{k}", variant=True)
            if v is None:
                continue
            for m in gm:
                if isinstance(v[m], str) or isinstance(base[m], str):
                    continue
                if not same_value(v[m], base[m], exact=(m != "ASSD")):
                    inp = {"shape": list(pred.shape), "pred": gen.arr_json(p2), "ref": gen.arr_json(r2), "dtype": "uint16",
                           "cfg": cfg, "global_metrics": gm, "base_pred": gen.arr_json(pred), "base_ref": gen.arr_json(ref)}
                    ctx.violation(f"global_bin_{m.lower()} depends on the instance labelling: {base[m]} vs {v[m]}", inp,
                                  impl={"base": base, "variant": v}, key={"kind": "global-labelling"})


def corpus(ctx):
    rng = ctx.rng
    hnd = rand_handler(rng, ["DSC", "IOU"])
    gm = ["DSC", "IOU", "RVD", "ASSD"]
    # an overlapping pair whose labels sum to 2^bits, more than the crop padding away from all other foreground
    base_r = np.zeros((12, 24), np.uint8)
    base_p = np.zeros((12, 24), np.uint8)
    base_r[2:10, 2:10] = 1
    base_p[2:10, 2:11] = 1
    base_r[4:6, 20:22] = 2
    base_p[4:6, 20:22] = 2
    for dt, (a, b) in ((np.uint8, (128, 128)), (np.uint8, (56, 200)), (np.uint16, (32768, 32768)), (np.uint8, (100, 100))):
        for it in ("MATCHED", "UNMATCHED"):
            if it == "MATCHED" and a != b:
                continue
            p2 = np.where(base_p == 1, a, np.where(base_p == 2, 3, 0)).astype(dt)
            r2 = np.where(base_r == 1, b, np.where(base_r == 2, 3, 0)).astype(dt)
            cfg = E.mk_cfg(it, ["IOU", "DSC"], matcher=E.naive("IOU", (1, 2)) if it != "MATCHED" else None, handler=hnd)
            one_case(ctx, p2, r2, cfg, gm, "corpus.wrap-sum")
    # heavily over-segmented prediction (> 255 components) against a clean reference, semantic input
    a = np.zeros((41, 41), np.uint8)
    a[::2, ::2] = 1
    b = np.zeros((41, 41), np.uint8)
    b[5:30, 5:30] = 1
    cfg = E.mk_cfg("SEMANTIC", ["IOU", "DSC"], matcher=E.naive("IOU", (1, 2)), handler=hnd)
    one_case(ctx, a, b, cfg, ["DSC", "IOU", "RVD"], "corpus.many-components")
    one_case(ctx, b, a, cfg, ["DSC", "IOU", "RVD"], "corpus.many-components")


def complementary_cases(ctx, n):
    """uint8 / uint16 pairs with an outlying overlap voxel whose two labels add up to 2^bits"""
    rng = ctx.rng
    for i in range(n):
        sc = gen.complementary_scene(rng, rng.choice([8, 8, 16]), ndim=rng.choice([2, 2, 3]))
        if sc is None:
            continue
        gm = rng.sample(["DSC", "IOU", "RVD", "ASSD"], rng.randint(1, 3))
        it = rng.choice(["MATCHED", "UNMATCHED"])
        cfg = E.mk_cfg(it, ["IOU"], matcher=None if it == "MATCHED" else E.naive("IOU", (1, 2)))
        ctx.count("labels_adding_up_to_2^bits")
        one_case(ctx, sc[0], sc[1], cfg, gm, f"compl{i}", variant=True)


def group_dtype_cases(ctx, n):
    """class groups whose labels do not fit the dtype of the arrays (a labelling scheme with labels >= 256 evaluated on a
    subject stored as uint8): such a group is empty on both sides, whatever other labels the arrays contain"""
    rng = ctx.rng
    for i in range(n):
        pred, ref = gen.pair(rng, ndim=rng.choice([2, 3]), hi=7, max_obj=3, allow_empty=False)
        pred, ref = pred.astype(np.uint8), ref.astype(np.uint8)
        present = sorted((set(np.unique(pred).tolist()) | set(np.unique(ref).tolist())) - {0})
        wide = [256 + l for l in present][: rng.randint(1, 3)] + ([65536 + present[0]] if rng.random() < 0.3 else [])
        groups = [{"name": "here", "labels": present, "merge": False, "single": False},
                  {"name": "elsewhere", "labels": wide, "merge": rng.random() < 0.3, "single": False}]
        gm = rng.sample(["DSC", "IOU", "RVD"], rng.randint(1, 2))
        handler = E.default_handler_json()
        handler["table"] = [[m, {"NO_INSTANCES": "ONE", "EMPTY_PRED": "ZERO", "EMPTY_REF": "INF", "NORMAL": "NAN"}] for m, _ in handler["table"]]
        cfg = E.mk_cfg("MATCHED", ["IOU"], handler=handler)
        inp = {"shape": list(pred.shape), "dtype": "uint8", "pred": gen.arr_json(pred), "ref": gen.arr_json(ref), "cfg": cfg, "groups": groups,
               "global_metrics": gm, "src": f"groupdtype{i}"}
        ctx.case(inp, True)
        ctx.count("group_labels_beyond_dtype")
        res = E.run_impl(cfg, pred, ref, groups=groups, global_metrics=gm)
        if isinstance(res, str):
            ctx.count("impl_error." + res)
            continue
        for m in gm:
            got = res["elsewhere"]["global_bin_" + m.lower()]
            if isinstance(got, str) or not same_value(got, 1.0, exact=True):
                ctx.violation(f"global_bin_{m.lower()} of a class group none of whose labels {wide} occurs in the uint8 arrays is {got}, but both "
                              f"foregrounds of that group are empty and the handler prescribes ONE for NO_INSTANCES", inp, impl=res["elsewhere"],
                              key={"kind": "global-empty"})
            want = oracle.mask_score(m, ref != 0, pred != 0)
            g2 = res["here"]["global_bin_" + m.lower()]
            if pred.any() and ref.any() and not (isinstance(g2, str)) and want is not None and (g2 is None or float(g2) != want.numerator / want.denominator):
                ctx.violation(f"global_bin_{m.lower()} of the group that covers every present label is {g2}, but {m} of the binarised maps is {want}",
                              inp, impl=res["here"], key={"kind": "global-value"})


def optimized_cases(ctx, n):
    """global metrics of label maps with labels other than 1, also in a child interpreter started with -O"""
    rng = ctx.rng
    cases = []
    for i in range(n):
        pred, ref = gen.pair(rng, ndim=rng.choice([2, 3]), hi=7, max_obj=3, allow_empty=rng.random() < 0.2)
        k = rng.choice([1, 3, 7])
        pred, ref = (pred * k).astype(np.uint8), (ref * k).astype(np.uint8)
        gm = rng.sample(["DSC", "IOU", "RVD", "ASSD"], rng.randint(1, 3))
        cases.append({"cfg": E.mk_cfg("MATCHED", ["IOU"]), "pred": pred, "ref": ref, "global_metrics": gm})
    for k, d in E.optimized_differences(ctx, cases):
        c = cases[k]
        inp = {"shape": list(c["pred"].shape), "dtype": "uint8", "pred": gen.arr_json(c["pred"]), "ref": gen.arr_json(c["ref"]), "cfg": c["cfg"],
               "global_metrics": c["global_metrics"], "mode": "python -O", "src": f"optimized{k}"}
        ctx.case(inp, True)
        ctx.violation("C13 violated in an interpreter started with -O: " + d, inp, key={"kind": "optimized"})
    ctx.count("python_-O", len(cases))


def reconfigured_handler_cases(ctx, n):
    """one handler object: an empty-side case is evaluated, the handler is re-configured through its public mapping,
    the case is evaluated again — the new configuration must be used"""
    from panoptica import Panoptica_Evaluator
    rng = ctx.rng
    for i in range(n):
        gm = rng.sample(["DSC", "IOU", "RVD"], rng.randint(1, 2))
        h1, h2 = rand_handler(rng, gm), rand_handler(rng, gm)
        cfg = E.mk_cfg("MATCHED", ["IOU"], handler=h1)
        hobj = impl.mk_handler(h1)
        with impl.quiet():
            ev = Panoptica_Evaluator(expected_input=impl.INPUT["MATCHED"], edge_case_handler=hobj, instance_metrics=[impl.METRICS["IOU"]],
                                     global_metrics=[impl.METRICS[m] for m in gm])
        shape = (4, 5)
        a = np.zeros(shape, np.uint8)
        a[1:3, 1:4] = 2
        z = np.zeros(shape, np.uint8)
        scen, (p, r) = rng.choice([("EMPTY_PRED", (z, a)), ("EMPTY_REF", (a, z)), ("NO_INSTANCES", (z, z))])
        E.run_impl(cfg, p, r, global_metrics=gm, evaluator=ev)
        new = impl.mk_handler(h2)
        for m in gm:
            hobj.listmetric_zeroTP_handling[impl.METRICS[m]] = new.listmetric_zeroTP_handling[impl.METRICS[m]]
        res = E.run_impl(cfg, p, r, global_metrics=gm, evaluator=ev)
        inp = {"shape": list(shape), "pred": gen.arr_json(p), "ref": gen.arr_json(r), "handler_before": h1, "handler_after": h2, "global_metrics": gm,
               "scenario": scen, "src": f"reconf{i}"}
        ctx.case(inp, True)
        ctx.count("handler_reconfigured")
        if isinstance(res, str):
            continue
        t2 = {m: z_ for m, z_ in h2["table"]}
        for m in gm:
            got = res["ungrouped"]["global_bin_" + m.lower()]
            want = E.edge_py(t2[m][scen])
            if isinstance(got, str) or not same_value(got, want, exact=True):
                ctx.violation(f"after re-configuring the handler, global_bin_{m.lower()} for {scen} is {got}, but the handler now prescribes {t2[m][scen]}",
                              inp, impl=res["ungrouped"], key={"kind": "global-empty"})
                break


def older_handler_cases(ctx, n):
    """two evaluators with differently configured handlers (and a default handler built in between) alive at the same time; empty-side
    scenes are evaluated with the OLDER one first: each evaluator answers with its own handler's values"""
    rng = ctx.rng
    for i in range(n):
        gm = rng.sample(["DSC", "IOU", "RVD"], rng.randint(1, 3))
        h1, h2 = rand_handler(rng, gm), rand_handler(rng, gm)
        cfg1, cfg2 = E.mk_cfg("MATCHED", ["IOU"], handler=h1), E.mk_cfg("MATCHED", ["IOU"], handler=h2)
        with impl.quiet():
            ev1 = impl.mk_evaluator(cfg1, global_metrics=gm)
            impl.EdgeCaseHandler()
            ev2 = impl.mk_evaluator(cfg2, global_metrics=gm)
        shape = (4, 5)
        a = np.zeros(shape, np.uint8)
        a[1:3, 1:4] = 2
        z = np.zeros(shape, np.uint8)
        for (ev, h, which) in ((ev1, h1, "older"), (ev2, h2, "newer"), (ev1, h1, "older")):
            scen, (p, r) = rng.choice([("EMPTY_PRED", (z, a)), ("EMPTY_REF", (a, z)), ("NO_INSTANCES", (z, z))])
            res = E.run_impl(cfg1 if ev is ev1 else cfg2, p, r, global_metrics=gm, evaluator=ev)
            inp = {"shape": list(shape), "pred": gen.arr_json(p), "ref": gen.arr_json(r), "handlers": [h1, h2], "used": which, "global_metrics": gm,
                   "scenario": scen, "src": f"older{i}"}
            ctx.case(inp, True)
            ctx.count("two_handlers_alive")
            if isinstance(res, str):
                ctx.violation(f"evaluation with the {which} of two evaluators raised {res}", inp, key={"kind": "global-raises"})
                break
            t = {m: z_ for m, z_ in h["table"]}
            bad = [m for m in gm if isinstance(res["ungrouped"]["global_bin_" + m.lower()], str)
                   or not same_value(res["ungrouped"]["global_bin_" + m.lower()], E.edge_py(t[m][scen]), exact=True)]
            if bad:
                m = bad[0]
                ctx.violation(f"two evaluators with different handlers exist; the {which} one reports global_bin_{m.lower()} = {res['ungrouped']['global_bin_' + m.lower()]} for {scen}, "
                              f"its own handler prescribes {t[m][scen]}", inp, impl=res["ungrouped"], key={"kind": "global-empty"})
                break


def dimension_history(ctx):
    """one evaluator with global Dice and centre-line Dice sees a 1-D pair and a 4-D pair (for which the centre-line Dice is not defined; whatever
    that call does), then an ordinary 2-D and a 3-D pair: the global metrics of those are what a fresh evaluator reports"""
    gm = ["DSC", "clDSC"]
    cfg = E.mk_cfg("MATCHED", ["IOU"])
    with impl.quiet():
        ev = impl.mk_evaluator(cfg, global_metrics=gm)
    one = np.array([0, 1, 1, 0, 2, 2, 0], np.uint8)
    four = np.zeros((2, 2, 3, 3), np.uint8)
    four[0, 0, 0:2, 0:2] = 1
    two = np.zeros((6, 9), np.uint8)
    two[1:5, 1:4], two[2:4, 6:8] = 1, 2
    three = np.zeros((4, 5, 6), np.uint8)
    three[1:3, 1:4, 1:5] = 1
    for a in (one, four):
        E.run_impl(cfg, np.roll(a, 1, axis=-1), a, global_metrics=gm, evaluator=ev)
    for a in (two, three, two):
        p = np.roll(a, 1, axis=-1)
        used = E.run_impl(cfg, p, a, global_metrics=gm, evaluator=ev)
        fresh = E.run_impl(cfg, p, a, global_metrics=gm)
        inp = {"shape": list(a.shape), "dtype": "uint8", "pred": gen.arr_json(p), "ref": gen.arr_json(a), "cfg": cfg, "global_metrics": gm, "dimension_history": True}
        ctx.case(inp, True)
        ctx.count("global_metrics_after_other_dimensionalities")
        if isinstance(used, str) or isinstance(fresh, str):
            if used != fresh:
                ctx.violation(f"after a 1-D and a 4-D pair the evaluator answers {used if isinstance(used, str) else 'a result'} where a fresh one answers "
                              f"{fresh if isinstance(fresh, str) else 'a result'}", inp, key={"kind": "global-value"})
            continue
        for m in gm:
            k = "global_bin_" + m.lower()
            u, f = used["ungrouped"][k], fresh["ungrouped"][k]
            if isinstance(u, str) != isinstance(f, str) or (not isinstance(u, str) and not same_value(u, f)) or (isinstance(u, str) and u != f):
                ctx.violation(f"{k} of a {a.ndim}-D pair is {u} from an evaluator that saw a 1-D and a 4-D pair before, {f} from a fresh evaluator", inp,
                              impl={"used": u, "fresh": f}, key={"kind": "global-value"})
                break


def run(ctx):
    corpus(ctx)
    dimension_history(ctx)
    older_handler_cases(ctx, ctx.scale(25, 200))
    voxel_count_corpus(ctx)
    optimized_cases(ctx, ctx.scale(25, 150))
    reconfigured_handler_cases(ctx, ctx.scale(30, 300))
    complementary_cases(ctx, ctx.scale(60, 600))
    group_dtype_cases(ctx, ctx.scale(40, 400))
    run_cases(ctx, ctx.scale(500, 5000), "rand")


def voxel_count_corpus(ctx):
    """foregrounds of exactly 255 / 256 / 257 / 512 / 65536 voxels on either side or both (narrow label dtypes; semantic and
    instance input): counts at which a sum, a count or an emptiness test carried out in the label map's own dtype comes out as zero"""
    rng = ctx.rng
    hnd = rand_handler(rng, ["DSC", "IOU"])
    gm = ["DSC", "IOU", "RVD"]

    def blob(n, shape, off):
        a = np.zeros(shape, np.uint8)
        flat = a.reshape(-1)
        flat[off:off + n] = 1
        return a
    sizes = (255, 256, 257, 512) if ctx.quick else (255, 256, 257, 512, 768, 1024, 65536)
    for n in sizes:
        shape = (24, 48) if n <= 1024 else (300, 300)
        for m in sorted({n, 256, 300}):
            if m > shape[0] * shape[1] - 40:
                continue
            pred, ref = blob(n, shape, 7), blob(m, shape, 19)
            for it, dt in (("SEMANTIC", np.uint8), ("MATCHED", np.uint8), ("UNMATCHED", np.uint8), ("MATCHED", np.uint16)):
                cfg = E.mk_cfg(it, ["IOU", "DSC"], matcher=E.naive("IOU", (1, 2)) if it != "MATCHED" else None, handler=hnd)
                ctx.count("voxel_count_corpus")
                one_case(ctx, pred.astype(dt), ref.astype(dt), cfg, gm, f"corpus.voxel-count-{n}-{m}")


def search(ctx):
    run_cases(ctx, ctx.scale(1000, 4000), "search")


def replay(ctx, rec):
    i = rec["input"]
    if i.get("mode") == "python -O":
        optimized_cases(ctx, 40)
        return
    if i.get("dimension_history"):
        dimension_history(ctx)
        return
    if "handlers" in i and "used" in i:
        older_handler_cases(ctx, 40)
        return
    if "handler_after" in i:
        reconfigured_handler_cases(ctx, 80)
        return
    if i.get("groups"):
        pred, ref = np.array(i["pred"], dtype=np.uint8).reshape(i["shape"]), np.array(i["ref"], dtype=np.uint8).reshape(i["shape"])
        res = E.run_impl(i["cfg"], pred, ref, groups=i["groups"], global_metrics=i["global_metrics"])
        ctx.case(i, True)
        for m in i["global_metrics"]:
            got = res["elsewhere"]["global_bin_" + m.lower()] if isinstance(res, dict) else res
            if isinstance(got, str) or not same_value(got, 1.0, exact=True):
                ctx.violation(f"global_bin_{m.lower()} of a class group whose labels cannot occur in the arrays is {got}, handler prescribes ONE", i,
                              key={"kind": "global-empty"})
        return
    dt = np.dtype(i.get("dtype", "uint8"))
    one_case(ctx, np.array(i["pred"], dtype=dt).reshape(i["shape"]), np.array(i["ref"], dtype=dt).reshape(i["shape"]),
             i["cfg"], i["global_metrics"], "replay")
