"""C14 — the merge matcher only merges when it improves the match."""
from __future__ import annotations
from fractions import Fraction
import numpy as np
import scale, impl, gen, oracle
from impl import quiet, UnmatchedInstancePair, MaximizeMergeMatching
from common import score_matches

RULE = ("ASSD scenes whose first fragment is the one-voxel frame of a solid reference (stored score exactly 0.0), also with an axis of length one; the matched pair returned by match_instances is checked against the label map (voxels carrying a matched reference's label = union of its merged fragments); ids beyond 2^25 with relabelling chains; fragment scenes embedded in canvases of more than 2^21 voxels (oracle only); half of the cases through long-lived matcher objects reused across different inputs with the same label values; references with 15-40 one-voxel fragments carrying sparse labels; references covered by 2-5 prediction fragments (column chunks of a box, some spilling far outside, some dropped, "
        "fragments shared between two references) plus object-based random maps x metric {IOU,DSC,ASSD} x thresholds; "
        "non-trivial = a reference with >= 2 candidate fragments of which at least one is rejected or merged")

GRID = {"IOU": [(1, 10), (1, 5), (1, 4), (1, 3), (1, 2), (3, 5)], "DSC": [(1, 10), (1, 4), (3, 10), (1, 2), (2, 3)],
        "ASSD": [(1, 2), (1, 1), (2, 1), (4, 1), (8, 1)]}


def frag_case(rng):
    H, W = rng.randint(6, 10), rng.randint(10, 16)
    ref = np.zeros((H, W), np.uint8)
    pred = np.zeros((H, W), np.uint8)
    nref = rng.choice([1, 1, 2])
    nxt = 1
    x0 = 1
    for r in range(1, nref + 1):
        w = rng.randint(3, 6)
        y0, y1 = rng.randint(0, 2), rng.randint(H - 3, H)
        if x0 + w >= W:
            break
        ref[y0:y1, x0:x0 + w] = r
        k = rng.randint(1, min(4, w))
        cuts = sorted(rng.sample(range(1, w), k - 1)) if k > 1 else []
        edges = [0] + cuts + [w]
        for a, b in zip(edges, edges[1:]):
            mode = rng.choice(["exact", "exact", "spill", "drop", "thin"])
            if mode == "drop":
                continue
            ya, yb = y0, y1
            if mode == "thin":
                yb = max(ya + 1, y1 - rng.randint(1, 3))
            pred[ya:yb, x0 + a:x0 + b] = nxt
            if mode == "spill":
                # far-reaching extension outside the reference
                if rng.random() < 0.5 and y1 < H:
                    pred[y1:H, x0 + a:x0 + b] = nxt
                elif y0 > 0:
                    pred[0:y0, x0 + a:x0 + b] = nxt
            nxt += 1
        x0 += w + rng.choice([0, 0, 1])
    if rng.random() < 0.3 and nref == 2:
        # a fragment shared by both references
        ys = rng.randrange(H)
        pred[ys, 1:W - 1] = nxt
    return pred, ref


def check_merge(pred, ref, metric, thr, order):
    """oracle for C14 on a label map given as insertion-ordered list of (pred, ref)"""
    fails, fragile, nontriv = [], False, False
    by_ref = {}
    seen = set()
    for p, r in order:
        if p in seen:
            fails.append(f"prediction {p} assigned twice")
        seen.add(p)
        by_ref.setdefault(r, []).append(p)
    cands = oracle.overlap_pairs(pred, ref)
    if metric == "ASSD":
        # mathematically tied candidate scores may be ordered either way by float64 rounding
        sc = [oracle.mask_score(metric, ref == r, pred == p) for (r, p) in cands]
        if any(oracle.near(a, b) or a == b for i, a in enumerate(sc) for b in sc[i + 1:]):
            fragile = True
    for r, ps in by_ref.items():
        for p in ps:
            if (r, p) not in cands:
                fails.append(f"assigned pair ref {r}/pred {p} does not overlap")
        if sum(1 for (rr, pp) in cands if rr == r) >= 2:
            nontriv = True
        s = oracle.mask_score(metric, ref == r, pred == ps[0])
        if metric == "ASSD" and oracle.near(s, thr):
            fragile = True
        if not oracle.beats(metric, s, thr):
            fails.append(f"ref {r} matched although its first prediction {ps[0]} has score {s}, not meeting threshold {thr}")
        cur = s
        best_single = s
        for k in range(1, len(ps)):
            new = oracle.mask_score(metric, ref == r, np.isin(pred, ps[:k + 1]))
            if metric == "ASSD" and oracle.near(new, cur):
                fragile = True
            strictly = (new < cur) if oracle.DECREASING[metric] else (new > cur)
            if not strictly:
                fails.append(f"prediction {ps[k]} was merged into ref {r} although the combined {metric} went from "
                             f"{float(cur):.6f} to {float(new):.6f} (not strictly better)")
            cur = new
        # the best single candidate of r: among the fragments assigned to it and the overlapping predictions left without a
        # reference (a candidate that scores better than the first assigned one was processed earlier, so it can only be
        # missing from r because it went to another reference; one that is assigned nowhere was never looked at)
        elsewhere = {p_ for p_, r_ in order if r_ != r}
        for p in list(ps) + [pp for (rr, pp) in cands if rr == r and pp not in ps and pp not in elsewhere]:
            sp = oracle.mask_score(metric, ref == r, pred == p)
            if metric == "ASSD" and p not in ps and (oracle.near(sp, s) or oracle.near(sp, cur)):
                fragile = True
            if oracle.better_eq(metric, sp, best_single):
                best_single = sp
        if not oracle.better_eq(metric, cur, best_single) and not (metric == "ASSD" and oracle.near(cur, best_single)):
            fails.append(f"final score {float(cur):.6f} of ref {r} is worse than its best single candidate {float(best_single):.6f}")
        if not oracle.beats(metric, cur, thr):
            fails.append(f"final score {float(cur):.6f} of ref {r} does not meet the threshold {thr}")
    return fails, fragile, nontriv


_SHARED = {}


def reported_pair_check(m, pred, ref, metric, order):
    """the observable of the property is match_instances(): in the matched pair it returns, the voxels carrying a
    matched reference's label must be exactly the union of the fragments the label map assigns to it (so that
    the score a reader recomputes from the returned arrays is the score the merge decisions were based on)"""
    try:
        with quiet():
            mp = m.match_instances(UnmatchedInstancePair(pred.copy(), ref.copy()))
    except Exception as e:
        return f"match_instances raised {type(e).__name__}"
    out_p, out_r = np.asarray(mp.prediction_arr), np.asarray(mp.reference_arr)
    if out_p.shape != pred.shape or not np.array_equal(out_r.astype(np.int64), ref.astype(np.int64)):
        return "match_instances changed the reference map"
    by_ref = {}
    for p_, r_ in order:
        by_ref.setdefault(r_, []).append(p_)
    for r_, ps in by_ref.items():
        want = np.isin(pred, ps)
        got = out_p == r_
        if not np.array_equal(want, got):
            extra = sorted(set(np.unique(pred[got & ~want]).tolist()) - {0})
            missing = sorted(set(np.unique(pred[want & ~got]).tolist()) - {0})
            return (f"in the matched pair returned by match_instances, reference {r_} is reported with prediction fragments "
                    f"{sorted(set(ps) - set(missing)) + extra} (extra {extra}, missing {missing}) instead of the merged fragments {ps}")
    return None


def one_case(ctx, pred, ref, metric, thr, src, shared=False, big=None, from_config=None):
    if not pred.any() or not ref.any():
        return
    if big is None:
        inp = {"shape": list(pred.shape), "pred": gen.arr_json(pred), "ref": gen.arr_json(ref), "metric": metric,
               "thr": list(thr), "src": src, "dtype": str(pred.dtype), "shared_matcher": shared}
    else:
        inp = {"recipe": big, "metric": metric, "thr": list(thr), "src": src, "dtype": str(pred.dtype), "shared_matcher": shared}
    key = (metric, tuple(thr))
    if shared:
        m = _SHARED.setdefault(key, MaximizeMergeMatching(matching_metric=impl.METRICS[metric], matching_threshold=thr[0] / thr[1]))
        ctx.count("shared_matcher_object")
    else:
        m = MaximizeMergeMatching(matching_metric=impl.METRICS[metric], matching_threshold=thr[0] / thr[1])
        if from_config if from_config is not None else (len(src) + pred.size) % 3 == 0:
            # the matcher as it comes back from its saved configuration (what an evaluator loaded from a file uses)
            import os
            from common import VERIF
            pth = str(VERIF / ".work" / f"c14_{os.getpid()}.yaml")
            os.makedirs(os.path.dirname(pth), exist_ok=True)
            try:
                with quiet():
                    m.save_to_config(pth)
                    m = MaximizeMergeMatching.load_from_config(pth)
                inp["matcher_from_saved_config"] = True
                ctx.count("matcher_from_saved_config")
            except Exception as e:
                ctx.case(inp, True)
                ctx.violation(f"the merge matcher could not be saved and loaded: {type(e).__name__}", inp, key={"kind": "raises"})
                return
            finally:
                if os.path.exists(pth):
                    os.remove(pth)
    try:
        with quiet():
            lm = m._match_instances(UnmatchedInstancePair(pred, ref))
        order = [[int(k), int(v)] for k, v in lm.labelmap.items()]
    except Exception as e:
        ctx.case(inp, True)
        ctx.violation(f"merge matching raised {type(e).__name__}", inp, key={"kind": "raises"})
        return
    t = Fraction(*thr) if metric != "ASSD" else thr[0] / thr[1]
    fails, fragile, nontriv = check_merge(pred, ref, metric, t, order)
    ctx.case(inp, nontriv, sample=inp if pred.size <= 40 else None)
    ctx.count("metric." + metric)
    ctx.count("merged" if len(order) > len({r for _, r in order}) else "no_merge")
    if fragile:
        ctx.count("float_fragile_skipped")
    if fails and not fragile:
        ctx.violation("C14 violated: " + fails[0], inp, impl=order, key={"kind": "bad-merge"})
    elif not fragile:
        f2 = reported_pair_check(m, pred, ref, metric, order)
        if f2:
            ctx.violation("C14 violated: " + f2, inp, impl=order, key={"kind": "bad-merge-reported"})
    if big:
        return
    mod = ctx.driver().ask({"op": "match", "shape": list(pred.shape), "pred": inp["pred"], "ref": inp["ref"],
                            "matcher": {"kind": "merge", "metric": metric, "thr": {"q": list(thr)}}})
    if fragile:
        return
    # ties between candidate scores make the processing order (hence the outcome) tie-break dependent only via
    # the stable sort, which both sides share; compare exactly
    if mod["lmap"].get("ok") != order:
        ctx.disagree("merge label map", inp, order, mod["lmap"])


def narrow_labels(rng, pred, ref):
    """the same scene in uint8 / uint16 with label values whose product (or the usual pair code pred * (max_ref + 1) + ref)
    does not fit the dtype although every label does"""
    dt, lo, hi = rng.choice([(np.uint8, 14, 120), (np.uint8, 3, 255), (np.uint16, 250, 4000), (np.uint16, 3, 65535)])
    pl = [int(x) for x in np.unique(pred) if x]
    rl = [int(x) for x in np.unique(ref) if x]
    if len(pl) > hi - lo or len(rl) > hi - lo:
        return pred, ref
    sig = dict(zip(pl, rng.sample(range(lo, hi + 1), len(pl))))
    tau = dict(zip(rl, rng.sample(range(lo, hi + 1), len(rl))))
    p2, r2 = np.zeros(pred.shape, dt), np.zeros(ref.shape, dt)
    for k, v in sig.items():
        p2[pred == k] = v
    for k, v in tau.items():
        r2[ref == k] = v
    return p2, r2


def narrow_corpus(ctx):
    """reference 15 covered by prediction 16 (IoU 0.6) and prediction 3 (IoU 0.35) in uint8 / uint16: 16 * 16 + 15 = 271"""
    for dt, (r1, pa, pb) in ((np.uint8, (15, 16, 3)), (np.uint8, (200, 100, 2)), (np.uint16, (255, 256, 3)), (np.uint16, (1000, 900, 65))):
        ref = np.zeros((1, 24), dt)
        pred = np.zeros((1, 24), dt)
        ref[0, 2:22] = r1
        pred[0, 2:14] = pa
        pred[0, 14:21] = pb
        for metric, thr in (("IOU", (1, 2)), ("DSC", (1, 2)), ("IOU", (3, 10))):
            ctx.count("narrow_dtype_pair_code")
            one_case(ctx, pred, ref, metric, thr, "corpus.narrow-dtype")


def assd_above_one_corpus(ctx):
    """ASSD as matching metric with thresholds above 1: a reference whose best single candidate is a few voxels off (ASSD about
    2) and a thin fragment that touches the reference but reaches far outside (merging it makes the distance worse)"""
    for shift, thr in ((4, (5, 1)), (3, (4, 1)), (4, (3, 1))):
        ref = np.zeros((16, 44), np.uint8)
        pred = np.zeros((16, 44), np.uint8)
        ref[3:13, 3:13] = 1
        pred[3:13, 3 + shift:13 + shift] = 1
        pred[7, 1:3 + shift] = 2           # a line: two or so voxels inside the reference ...
        pred[7, 13 + shift:40] = 2         # ... and many far outside
        ctx.count("assd_scores_above_one")
        one_case(ctx, pred, ref, "ASSD", thr, "corpus.assd-above-one")


def hairline_corpus(ctx):
    """scores a hair away from the threshold or from each other (unions of a few thousand voxels): a single candidate with
    IoU 1000/2001 against threshold 1/2; a best single candidate with IoU 1251/2500 and a fragment that takes the union to
    1252/2502 (smaller by 3e-7)"""
    ref = np.zeros((1, 2100), np.uint8)
    pred = np.zeros((1, 2100), np.uint8)
    ref[0, 0:1500] = 1
    pred[0, 499:2000] = 1                   # inter 1001 ... adjust: |ref| = 1500, |pred| = 1501, inter = 1001 -> union 2000
    pred[0, 499] = 0                        # |pred| = 1500, inter = 1000, union 2000 -> IoU 1/2 exactly
    pred[0, 2000] = 1                       # |pred| = 1501, union 2001 -> IoU 1000/2001 < 1/2
    ctx.count("scores_within_1e-3_of_threshold")
    one_case(ctx, pred, ref, "IOU", (1, 2), "corpus.hairline-below-threshold")
    ref = np.zeros((1, 2600), np.uint8)
    pred = np.zeros((1, 2600), np.uint8)
    ref[0, 0:1875] = 1
    pred[0, 624:2500] = 1                   # |pred| = 1876, inter = 1251, union 2500 -> 0.5004
    pred[0, 0] = 2                          # fragment: one voxel inside ...
    pred[0, 2550] = 2                       # ... and one outside: union 2502, inter 1252 -> 0.50039968
    ctx.count("scores_within_1e-3_of_threshold")
    one_case(ctx, pred, ref, "IOU", (1, 2), "corpus.hairline-merge")
    # differences below single-precision resolution (6e-8 around 0.5..1): decided exactly by the definitions, and by double arithmetic
    # (a) the union scores *exactly* the same as the best single candidate (70/100 = 77/110; Dice 140/200 = 154/220 likewise): no merge
    ref = np.zeros((1, 130), np.uint8)
    pred = np.zeros((1, 130), np.uint8)
    ref[0, 10:110] = 1
    pred[0, 10:80] = 1                      # IoU 70/100
    pred[0, 103:113] = 2                    # 7 inside, 3 outside: union 77/110
    ctx.count("scores_within_1e-7_of_each_other")
    one_case(ctx, pred, ref, "IOU", (1, 2), "corpus.hairline-equal-iou")
    # the same scene under Dice (140/170 single, 154/180 combined: merged)
    one_case(ctx, pred, ref, "DSC", (1, 2), "corpus.hairline-equal-iou")
    # (b) the union scores worse by 2.4e-8: 2898/5003 single, 4897/8454 combined
    ref = np.zeros((1, 9000), np.uint8)
    pred = np.zeros((1, 9000), np.uint8)
    ref[0, 0:5000] = 1
    pred[0, 0:2898] = 1                     # 2898 inside ...
    pred[0, 8500:8503] = 1                  # ... 3 outside: 2898/5003
    pred[0, 2898:2898 + 1999] = 2           # fragment: 1999 inside ...
    pred[0, 5010:5010 + 3451] = 2           # ... 3451 outside: 4897/8454
    ctx.count("scores_within_1e-7_of_each_other")
    one_case(ctx, pred, ref, "IOU", (1, 2), "corpus.hairline-2e-8")
    # (c) a threshold between a score and its single-precision rounding: IoU exactly 3/5 against 0.60000001
    ref = np.zeros((1, 30), np.uint8)
    pred = np.zeros((1, 30), np.uint8)
    ref[0, 0:10] = 1
    pred[0, 4:10] = 1                       # 6/10
    ctx.count("scores_within_1e-7_of_threshold")
    one_case(ctx, pred, ref, "IOU", (60000001, 100000000), "corpus.hairline-threshold-1e-8")
    ref[0, 20:30] = 2
    pred[0, 20:27] = 2                      # 7/10 against 0.69999999 (met) and 0.70000001 (not met)
    one_case(ctx, pred, ref, "IOU", (70000001, 100000000), "corpus.hairline-threshold-1e-8")
    one_case(ctx, pred, ref, "IOU", (69999999, 100000000), "corpus.hairline-threshold-1e-8")
    # (d) thresholds one float beyond an attained score (relative distance 1.6e-16): not met — and the float just below: met
    import math
    ref = np.zeros((1, 40), np.uint8)
    pred = np.zeros((1, 40), np.uint8)
    ref[0, 0:10] = 1
    pred[0, 3:10] = 1                       # IoU 7/10, Dice 14/17
    pred[0, 0:2] = 2                        # a fragment that would improve the score if the reference were matched at all
    ref[0, 20:30] = 2
    pred[0, 20:29] = 3                      # IoU 9/10: matched in every variant (keeps the scene from being empty-handed)
    for metric, sc in (("IOU", 0.7), ("DSC", 14 / 17)):
        for t in (math.nextafter(sc, math.inf), 0.1 * 7 if metric == "IOU" else math.nextafter(math.nextafter(sc, math.inf), math.inf), math.nextafter(sc, -math.inf), sc):
            if 0.0 < t <= 1.0:
                ctx.count("threshold_one_float_from_a_score")
                one_case(ctx, pred, ref, metric, t.as_integer_ratio(), "corpus.hairline-threshold-one-ulp")


def many_pairs_corpus(ctx):
    """more candidate pairs than any batch size a scorer might use (1040 and 2100 overlapping pairs): 520 / 1050 references, each covered by a
    weaker fragment with a low label and its best fragment with a high label — every reference ends with both"""
    import scale
    for n in ((520,) if ctx.quick else (520, 1050)):
        rec = {"kind": "runs", "shape": [n * 11], "dtype": "uint16", "ref_runs": [[k * 11, 10, k + 1] for k in range(n)],
               "pred_runs": [[k * 11, 4, k + 1] for k in range(n)] + [[k * 11 + 4, 6, n + k + 1] for k in range(n)]}
        P, R = scale.build(rec)
        ctx.count("more_than_a_thousand_candidate_pairs")
        one_case(ctx, P, R, "IOU", (3, 10), f"corpus.many-pairs-{n}", big=rec)


def big_and_small_corpus(ctx):
    """reference with a large id covered by a large-id fragment (the better one) and a small-id fragment that alone still
    meets the threshold: pair codes beyond 2^32 next to small ones"""
    for dt, (r1, pa, pb) in ((np.uint32, (70000, 66000, 3)), (np.uint64, (70000, 66000, 3)), (np.uint32, (4_000_000, 1100, 2))):
        ref = np.zeros((1, 110), dt)
        pred = np.zeros((1, 110), dt)
        ref[0, 2:102] = r1
        pred[0, 2:62] = pa          # IoU 0.6
        pred[0, 62:92] = pb         # IoU 0.3
        for metric, thr in (("IOU", (1, 4)), ("DSC", (2, 5))):
            ctx.count("large_and_small_ids")
            one_case(ctx, pred, ref, metric, thr, "corpus.big-and-small-ids")


def corpus(ctx):
    # repaired defect: with a lower-is-better metric a worsening fragment used to be merged
    ref = np.zeros((12, 12), np.uint8)
    ref[2:8, 2:8] = 1
    pred = np.zeros((12, 12), np.uint8)
    pred[2:8, 2:8] = 1
    pred[2, 2] = 0
    pred[7:12, 7] = 2
    one_case(ctx, pred, ref, "ASSD", (1, 1), "corpus.assd-direction")
    # three fragments: 0.6 -> 0.8 -> 0.69 (third must be rejected against the *current* score)
    ref = np.zeros((1, 40), np.uint8)
    pred = np.zeros((1, 40), np.uint8)
    ref[0, 0:20] = 1
    pred[0, 0:12] = 1
    pred[0, 12:16] = 2
    pred[0, 16:19] = 3
    pred[0, 20:26] = 3
    for t in ((1, 2), (1, 5), (1, 10)):
        one_case(ctx, pred, ref, "IOU", t, "corpus.three-fragments")
    # two fragments each eligible alone at a permissive threshold, the weaker one spills
    ref = np.zeros((1, 44), np.uint8)
    pred = np.zeros((1, 44), np.uint8)
    ref[0, 0:20] = 1
    pred[0, 0:12] = 1
    pred[0, 12:20] = 2
    pred[0, 20:44] = 2
    one_case(ctx, pred, ref, "IOU", (1, 5), "corpus.spill")
    one_case(ctx, pred, ref, "DSC", (3, 10), "corpus.spill")


def singleton_corpus(ctx):
    """deterministic ASSD scenes stored with an axis of length one: a column reference covered by stacked fragments with gaps;
    a frame with a bar through an opening"""
    for ax in (0, 1, 2):
        for (a1, g1, a2, g2, a3) in ((15, 1, 2, 1, 5), (12, 2, 3, 1, 6), (10, 1, 4, 2, 4)):
            r = np.zeros((30, 30), np.uint8)
            p = np.zeros_like(r)
            r[5:25, 10:20] = 1
            y = 5
            p[y:y + a1, 10:20] = 1
            y += a1 + g1
            p[y:y + a2, 10:20] = 2
            y += a2 + g2
            p[y:min(30, y + a3), 10:20] = 3
            for thr in ((1, 1), (2, 1), (1, 2)):
                one_case(ctx, np.expand_dims(p, ax), np.expand_dims(r, ax), "ASSD", thr, "corpus.singleton-stacked")
        n, out_ = 12, 6
        r = np.zeros((n + 4, n + out_ + 4), np.uint8)
        p = np.zeros_like(r)
        r[2:2 + n, 2:2 + n] = 1
        p[2:2 + n, 2:2 + n] = 1
        p[3:1 + n, 3:1 + n] = 0
        p[7:9, 1 + n:2 + n] = 0
        p[7:9, n - 1:2 + n + out_] = 2
        for thr in ((1, 1), (1, 2), (2, 1)):
            one_case(ctx, np.expand_dims(p, ax), np.expand_dims(r, ax), "ASSD", thr, "corpus.singleton-frame-bar")
            one_case(ctx, p, r, "ASSD", thr, "corpus.frame-bar")
    # the one-voxel frame of a solid reference (ASSD exactly 0.0 without being the reference) followed by the interior,
    # the interior plus a stray voxel, or a bar — with and without an axis of length one
    for H, W in ((7, 8), (9, 9)):
        for variant in ("interior", "interior+stray", "bar"):
            r = np.zeros((H + 6, W + 8), np.uint8)
            p = np.zeros_like(r)
            r[2:2 + H, 2:2 + W] = 1
            p[2:2 + H, 2:2 + W] = 1
            if variant == "bar":
                p[3:1 + H, 3:1 + W] = 0
                p[4, 3:W + 7] = 3
            else:
                p[3:1 + H, 3:1 + W] = 2
                if variant == "interior+stray":
                    p[H + 4, W + 5] = 2
            for thr in ((1, 2), (1, 1), (2, 1)):
                one_case(ctx, p, r, "ASSD", thr, "corpus.frame-" + variant)
    ctx.count("singleton_axis_corpus")


def many_fragments(rng):
    """a reference almost covered by one big fragment plus 15-40 one-voxel fragments with sparse labels, and one
    fragment that lies mostly outside"""
    side = rng.choice([24, 30])
    ref = np.zeros((side, side), np.uint32)
    ref[2:side - 2, 2:side - 2] = 1
    pred = np.zeros((side, side), np.uint32)
    step = rng.choice([1, 1000, 1000, 1000, 997])
    pred[2:side // 2 + 2, 2:side - 2] = step
    k = rng.randint(28, 40) if rng.random() < 0.7 else rng.randint(15, 27)
    lab = 2
    cells = [(y, x) for y in range(side // 2 + 3, side - 2) for x in range(2, side - 2)]
    for (y, x) in rng.sample(cells, k):
        pred[y, x] = lab * step
        lab += 1
    if rng.random() < 0.5:
        pred[side - 3, 2:4] = lab * step
        pred[side - 2:side, 0:side] = lab * step       # spills far outside the reference (below it)
    else:
        pred[0:2, 0:side] = lab * step                 # spills far outside (above), last voxel in raster order inside
        free = [c for c in cells if pred[c] == 0]
        pred[rng.choice(free)] = lab * step
    return pred, ref


def frame_scene(rng):
    """a solid reference; first fragment = its one-voxel-thick frame (ASSD exactly 0.0 — only border voxels count — although
    it is not the reference), further fragments: the interior, possibly with a stray part elsewhere, and a bar reaching
    far outside; optionally stored with an axis of length one"""
    H, W = rng.randint(7, 10), rng.randint(7, 10)
    ref = np.zeros((H + 6, W + 8), np.uint8)
    pred = np.zeros_like(ref)
    ref[2:2 + H, 2:2 + W] = 1
    pred[2:2 + H, 2:2 + W] = 1
    pred[3:1 + H, 3:1 + W] = 2                    # interior
    k = rng.random()
    if k < 0.4:
        pred[H + 4, W + 5] = 2                    # ... plus a stray voxel elsewhere
    elif k < 0.7:
        pred[3:1 + H, 3:1 + W] = 0
        pred[4, 3:W + 7] = 3                      # a bar through the interior reaching far outside
    elif k < 0.9:
        # the frame opened on the right for two rows; a two-row bar through the opening, a little way in, far out
        out_ = rng.randint(3, 6)
        y = rng.randint(4, H - 1)
        pred[3:1 + H, 3:1 + W] = 0
        pred[y:y + 2, 1 + W] = 0
        pred[y:y + 2, W - rng.randint(0, 2):min(pred.shape[1], 2 + W + out_)] = 3
    if rng.random() < 0.4:
        ax = rng.randint(0, 2)
        ref, pred = np.expand_dims(ref, ax), np.expand_dims(pred, ax)
    return pred, ref


def big_id_chain(rng):
    """ids around 4*10^7 (beyond 2^25): reference b's id equals the id of a fragment that is matched to reference a,
    and b's own fragment is assigned later (lower score), so a relabelling that renames entries one after another
    would rename a's fragment twice"""
    base = rng.choice([40_000_000, 33_554_433, 50_000_000])
    a, b = base + 2, base + 5
    ref = np.zeros((1, 60), np.uint32)
    pred = np.zeros((1, 60), np.uint32)
    ref[0, 2:22] = a
    ref[0, 30:50] = b
    pred[0, 2:16] = b                 # fragment carrying b's id, matched to a (IoU 0.7)
    pred[0, 16:22] = base + 9         # second fragment of a
    w = rng.choice([11, 12, 13])
    pred[0, 30:30 + w] = a if rng.random() < 0.5 else base + 11      # b's fragment (IoU ~0.6), may carry a's id
    pred[0, 30 + w:50] = base + 12
    return pred, ref


def scale_recipes(rng):
    """a fragment scene embedded in a canvas of more than 2^21 voxels: fragments that reach far (> 2 voxels) beyond
    the bounding box of their reference and whose true score is below the threshold"""
    out = []
    for canvas in ([1500, 1500], [1460, 1450]):
        ref = np.zeros((30, 40), np.uint8)
        pred = np.zeros((30, 40), np.uint8)
        ref[5:15, 5:15] = 1                       # 100 voxels
        pred[5:15, 5:11] = 1                      # 60 inside ...
        pred[5:15, 15:15 + rng.choice([12, 18])] = 1   # ... and 120-180 outside to the right: IoU 60/(100+120) < 1/2
        pred[5:15, 11:15] = 2                     # 40 inside, alone 0.4
        ref[20:26, 20:30] = 2
        pred[20:26, 20:29] = 3
        out.append({"kind": "embed", "small_pred": pred.tolist(), "small_ref": ref.tolist(), "canvas": canvas,
                    "offset": [rng.randint(0, 1000), rng.randint(0, 1000)], "dtype": "uint8"})
    return out


def run(ctx):
    corpus(ctx)
    singleton_corpus(ctx)
    narrow_corpus(ctx)
    big_and_small_corpus(ctx)
    many_pairs_corpus(ctx)
    assd_above_one_corpus(ctx)
    hairline_corpus(ctx)
    rng = ctx.rng
    for i in range(ctx.scale(6, 30)):
        p, r = big_id_chain(rng)
        ctx.count("ids_beyond_2^25_with_chain")
        one_case(ctx, p, r, "IOU", rng.choice([(1, 2), (1, 4)]), f"bigid{i}")
    for i in range(ctx.scale(12, 60)):
        p, r = frame_scene(rng)
        ctx.count("frame_fragment_with_zero_distance" + (".singleton_axis" if 1 in p.shape else ""))
        one_case(ctx, p, r, "ASSD", rng.choice([(1, 2), (1, 1), (2, 1)]), f"frame{i}")
    for k, rec in enumerate(scale_recipes(rng)):
        P, R = scale.build(rec)
        ctx.count("scale_oracle_only")
        for metric, thr in (("IOU", (1, 2)), ("DSC", (3, 5))):
            one_case(ctx, P, R, metric, thr, f"scale{k}", big=rec)
    for i in range(ctx.scale(16, 80)):
        p, r = many_fragments(rng)
        ctx.count("many_sparse_fragments")
        one_case(ctx, p, r, rng.choice(["IOU", "DSC"]), rng.choice([(1, 4), (1, 2)]), f"manyfrag{i}", shared=rng.random() < 0.5)
    for i in range(ctx.scale(1500, 8000)):
        pred, ref = frag_case(rng) if rng.random() < 0.7 else gen.pair(rng, hi=8, max_obj=4, allow_empty=False)
        metric = rng.choice(["IOU", "IOU", "DSC", "ASSD"])
        if pred.ndim == 2 and rng.random() < 0.2:
            ax = rng.randint(0, 2)                 # the same scene stored with an axis of length one
            pred, ref = np.expand_dims(pred, ax), np.expand_dims(ref, ax)
            metric = rng.choice(["ASSD", "ASSD", "IOU"])
            ctx.count("singleton_axis")
        elif rng.random() < 0.25:
            pred, ref = narrow_labels(rng, pred, ref)
            ctx.count("narrow_dtype_labels")
        one_case(ctx, pred, ref, metric, rng.choice(GRID[metric]), f"rand{i}", shared=rng.random() < 0.5)


def search(ctx):
    rng = ctx.rng
    for i in range(ctx.scale(1500, 5000)):
        pred, ref = frag_case(rng)
        metric = rng.choice(["IOU", "DSC", "ASSD"])
        one_case(ctx, pred, ref, metric, rng.choice(GRID[metric]), f"search{i}")


def replay(ctx, rec):
    i = rec["input"]
    if "recipe" in i:
        P, R = scale.build(i["recipe"])
        one_case(ctx, P, R, i["metric"], tuple(i["thr"]), "replay", big=i["recipe"])
        return
    dt = np.dtype(i.get("dtype", "uint8"))
    one_case(ctx, np.array(i["pred"], dtype=dt).reshape(i["shape"]), np.array(i["ref"], dtype=dt).reshape(i["shape"]),
             i["metric"], tuple(i["thr"]), "replay", from_config=bool(i.get("matcher_from_saved_config")))
