"""C14 — the merge matcher only merges when it improves the match."""
from __future__ import annotations
from fractions import Fraction
import numpy as np
import impl, gen, oracle
from impl import quiet, UnmatchedInstancePair, MaximizeMergeMatching
from common import score_matches

RULE = ("half of the cases through long-lived matcher objects reused across different inputs with the same label values; references with 15-40 one-voxel fragments carrying sparse labels; references covered by 2-5 prediction fragments (column chunks of a box, some spilling far outside, some dropped, "
        "fragments shared between two references) plus object-based random maps x metric {IOU,DSC,ASSD} x thresholds; "
        "non-trivial = a reference with >= 2 candidate fragments of which at least one is rejected or merged")

GRID = {"IOU": [(1, 10), (1, 5), (1, 4), (1, 3), (1, 2), (3, 5)], "DSC": [(1, 10), (1, 4), (3, 10), (1, 2), (2, 3)],
        "ASSD": [(1, 2), (1, 1), (2, 1), (4, 1), (8, 1)]}


def frag_case(rng):
    H, W = rng.randint(6, 10), rng.randint(10, 16)
    ref = np.zeros((H, W), np.uint8)
    pred = np.zeros((H, W), np.uint8)
    nref = rng.choice([1, 1, 2])
    nxt = 1
    x0 = 1
    for r in range(1, nref + 1):
        w = rng.randint(3, 6)
        y0, y1 = rng.randint(0, 2), rng.randint(H - 3, H)
        if x0 + w >= W:
            break
        ref[y0:y1, x0:x0 + w] = r
        k = rng.randint(1, min(4, w))
        cuts = sorted(rng.sample(range(1, w), k - 1)) if k > 1 else []
        edges = [0] + cuts + [w]
        for a, b in zip(edges, edges[1:]):
            mode = rng.choice(["exact", "exact", "spill", "drop", "thin"])
            if mode == "drop":
                continue
            ya, yb = y0, y1
            if mode == "thin":
                yb = max(ya + 1, y1 - rng.randint(1, 3))
            pred[ya:yb, x0 + a:x0 + b] = nxt
            if mode == "spill":
                # far-reaching extension outside the reference
                if rng.random() < 0.5 and y1 < H:
                    pred[y1:H, x0 + a:x0 + b] = nxt
                elif y0 > 0:
                    pred[0:y0, x0 + a:x0 + b] = nxt
            nxt += 1
        x0 += w + rng.choice([0, 0, 1])
    if rng.random() < 0.3 and nref == 2:
        # a fragment shared by both references
        ys = rng.randrange(H)
        pred[ys, 1:W - 1] = nxt
    return pred, ref


def check_merge(pred, ref, metric, thr, order):
    """oracle for C14 on a label map given as insertion-ordered list of (pred, ref)"""
    fails, fragile, nontriv = [], False, False
    by_ref = {}
    seen = set()
    for p, r in order:
        if p in seen:
            fails.append(f"prediction {p} assigned twice")
        seen.add(p)
        by_ref.setdefault(r, []).append(p)
    cands = oracle.overlap_pairs(pred, ref)
    if metric == "ASSD":
        # mathematically tied candidate scores may be ordered either way by float64 rounding
        sc = [oracle.mask_score(metric, ref == r, pred == p) for (r, p) in cands]
        if any(oracle.near(a, b) or a == b for i, a in enumerate(sc) for b in sc[i + 1:]):
            fragile = True
    for r, ps in by_ref.items():
        for p in ps:
            if (r, p) not in cands:
                fails.append(f"assigned pair ref {r}/pred {p} does not overlap")
        if sum(1 for (rr, pp) in cands if rr == r) >= 2:
            nontriv = True
        s = oracle.mask_score(metric, ref == r, pred == ps[0])
        if metric == "ASSD" and oracle.near(s, thr):
            fragile = True
        if not oracle.beats(metric, s, thr):
            fails.append(f"ref {r} matched although its first prediction {ps[0]} has score {s}, not meeting threshold {thr}")
        cur = s
        best_single = s
        for k in range(1, len(ps)):
            new = oracle.mask_score(metric, ref == r, np.isin(pred, ps[:k + 1]))
            if metric == "ASSD" and oracle.near(new, cur):
                fragile = True
            strictly = (new < cur) if oracle.DECREASING[metric] else (new > cur)
            if not strictly:
                fails.append(f"prediction {ps[k]} was merged into ref {r} although the combined {metric} went from "
                             f"{float(cur):.6f} to {float(new):.6f} (not strictly better)")
            cur = new
        for p in ps:
            sp = oracle.mask_score(metric, ref == r, pred == p)
            if oracle.better_eq(metric, sp, best_single):
                best_single = sp
        if not oracle.better_eq(metric, cur, best_single) and not (metric == "ASSD" and oracle.near(cur, best_single)):
            fails.append(f"final score {float(cur):.6f} of ref {r} is worse than its best single candidate {float(best_single):.6f}")
        if not oracle.beats(metric, cur, thr):
            fails.append(f"final score {float(cur):.6f} of ref {r} does not meet the threshold {thr}")
    return fails, fragile, nontriv


_SHARED = {}


def one_case(ctx, pred, ref, metric, thr, src, shared=False):
    if not pred.any() or not ref.any():
        return
    inp = {"shape": list(pred.shape), "pred": gen.arr_json(pred), "ref": gen.arr_json(ref), "metric": metric,
           "thr": list(thr), "src": src, "dtype": str(pred.dtype), "shared_matcher": shared}
    key = (metric, tuple(thr))
    if shared:
        m = _SHARED.setdefault(key, MaximizeMergeMatching(matching_metric=impl.METRICS[metric], matching_threshold=thr[0] / thr[1]))
        ctx.count("shared_matcher_object")
    else:
        m = MaximizeMergeMatching(matching_metric=impl.METRICS[metric], matching_threshold=thr[0] / thr[1])
    try:
        with quiet():
            lm = m._match_instances(UnmatchedInstancePair(pred, ref))
        order = [[int(k), int(v)] for k, v in lm.labelmap.items()]
    except Exception as e:
        ctx.case(inp, True)
        ctx.violation(f"merge matching raised {type(e).__name__}", inp, key={"kind": "raises"})
        return
    t = Fraction(*thr) if metric != "ASSD" else thr[0] / thr[1]
    fails, fragile, nontriv = check_merge(pred, ref, metric, t, order)
    ctx.case(inp, nontriv, sample=inp if pred.size <= 40 else None)
    ctx.count("metric." + metric)
    ctx.count("merged" if len(order) > len({r for _, r in order}) else "no_merge")
    if fragile:
        ctx.count("float_fragile_skipped")
    if fails and not fragile:
        ctx.violation("C14 violated: " + fails[0], inp, impl=order, key={"kind": "bad-merge"})
    mod = ctx.driver().ask({"op": "match", "shape": list(pred.shape), "pred": inp["pred"], "ref": inp["ref"],
                            "matcher": {"kind": "merge", "metric": metric, "thr": {"q": list(thr)}}})
    if fragile:
        return
    # ties between candidate scores make the processing order (hence the outcome) tie-break dependent only via
    # the stable sort, which both sides share; compare exactly
    if mod["lmap"].get("ok") != order:
        ctx.disagree("merge label map", inp, order, mod["lmap"])


def corpus(ctx):
    # repaired defect: with a lower-is-better metric a worsening fragment used to be merged
    ref = np.zeros((12, 12), np.uint8)
    ref[2:8, 2:8] = 1
    pred = np.zeros((12, 12), np.uint8)
    pred[2:8, 2:8] = 1
    pred[2, 2] = 0
    pred[7:12, 7] = 2
    one_case(ctx, pred, ref, "ASSD", (1, 1), "corpus.assd-direction")
    # three fragments: 0.6 -> 0.8 -> 0.69 (third must be rejected against the *current* score)
    ref = np.zeros((1, 40), np.uint8)
    pred = np.zeros((1, 40), np.uint8)
    ref[0, 0:20] = 1
    pred[0, 0:12] = 1
    pred[0, 12:16] = 2
    pred[0, 16:19] = 3
    pred[0, 20:26] = 3
    for t in ((1, 2), (1, 5), (1, 10)):
        one_case(ctx, pred, ref, "IOU", t, "corpus.three-fragments")
    # two fragments each eligible alone at a permissive threshold, the weaker one spills
    ref = np.zeros((1, 44), np.uint8)
    pred = np.zeros((1, 44), np.uint8)
    ref[0, 0:20] = 1
    pred[0, 0:12] = 1
    pred[0, 12:20] = 2
    pred[0, 20:44] = 2
    one_case(ctx, pred, ref, "IOU", (1, 5), "corpus.spill")
    one_case(ctx, pred, ref, "DSC", (3, 10), "corpus.spill")


def many_fragments(rng):
    """a reference almost covered by one big fragment plus 15-40 one-voxel fragments with sparse labels, and one
    fragment that lies mostly outside"""
    side = rng.choice([24, 30])
    ref = np.zeros((side, side), np.uint32)
    ref[2:side - 2, 2:side - 2] = 1
    pred = np.zeros((side, side), np.uint32)
    step = rng.choice([1, 1000, 1000, 1000, 997])
    pred[2:side // 2 + 2, 2:side - 2] = step
    k = rng.randint(28, 40) if rng.random() < 0.7 else rng.randint(15, 27)
    lab = 2
    cells = [(y, x) for y in range(side // 2 + 3, side - 2) for x in range(2, side - 2)]
    for (y, x) in rng.sample(cells, k):
        pred[y, x] = lab * step
        lab += 1
    if rng.random() < 0.5:
        pred[side - 3, 2:4] = lab * step
        pred[side - 2:side, 0:side] = lab * step       # spills far outside the reference (below it)
    else:
        pred[0:2, 0:side] = lab * step                 # spills far outside (above), last voxel in raster order inside
        free = [c for c in cells if pred[c] == 0]
        pred[rng.choice(free)] = lab * step
    return pred, ref


def run(ctx):
    corpus(ctx)
    rng = ctx.rng
    for i in range(ctx.scale(16, 80)):
        p, r = many_fragments(rng)
        ctx.count("many_sparse_fragments")
        one_case(ctx, p, r, rng.choice(["IOU", "DSC"]), rng.choice([(1, 4), (1, 2)]), f"manyfrag{i}", shared=rng.random() < 0.5)
    for i in range(ctx.scale(1500, 8000)):
        pred, ref = frag_case(rng) if rng.random() < 0.7 else gen.pair(rng, hi=8, max_obj=4, allow_empty=False)
        metric = rng.choice(["IOU", "IOU", "DSC", "ASSD"])
        one_case(ctx, pred, ref, metric, rng.choice(GRID[metric]), f"rand{i}", shared=rng.random() < 0.5)


def search(ctx):
    rng = ctx.rng
    for i in range(ctx.scale(1500, 5000)):
        pred, ref = frag_case(rng)
        metric = rng.choice(["IOU", "DSC", "ASSD"])
        one_case(ctx, pred, ref, metric, rng.choice(GRID[metric]), f"search{i}")


def replay(ctx, rec):
    i = rec["input"]
    dt = np.dtype(i.get("dtype", "uint8"))
    one_case(ctx, np.array(i["pred"], dtype=dt).reshape(i["shape"]), np.array(i["ref"], dtype=dt).reshape(i["shape"]),
             i["metric"], tuple(i["thr"]), "replay")
