"""C15 — evaluation is pure: no input mutation, no history, option or worker dependence."""
from __future__ import annotations
import os, shutil, math
import numpy as np
import impl, gen, evalutil as E
from impl import quiet, Panoptica_Aggregator
from common import VERIF, same_value
from props.c10 import summ_equal

RULE = ("calls the library refuses, made with per-call options, inside the histories; the real worker pool under the forkserver start method with non-default metric selections; construction-only cases (decision metric outside the instance metrics, shared user lists, default lists: nothing the caller or another evaluator holds may change); sequences of 3-12 operations over 1-3 real evaluators (default and explicit argument lists, class groups incl. "
        "single-instance groups, decision metrics): evaluate(input, all 16 combinations of result_all/save_group_times/"
        "log_times/verbose), construct aggregator (log_times F/T), read resulting_metric_keys, save_to_config, construct "
        "a further evaluator with default arguments; after every operation: caller arrays byte-identical, result equal to a "
        "fresh evaluator's result on the same input, advertised keys and saved configuration unchanged, all compared with "
        "the Lean heap machine; a slice of inputs evaluated with the real multiprocessing pool vs the serial stand-in; "
        "non-trivial = an evaluator is used after another object was constructed from it or after a single-instance group "
        "evaluation")


def mk_cfgs(rng):
    cfgs = []
    for _ in range(rng.randint(1, 3)):
        it = rng.choice(["MATCHED", "UNMATCHED", "SEMANTIC"])
        metrics = rng.sample(["IOU", "DSC", "RVD", "ASSD"], rng.randint(2, 4))
        if "IOU" not in metrics:
            metrics.append("IOU")
        dec = None
        if rng.random() < 0.5:
            dec = ["IOU", {"q": list(rng.choice([(1, 2), (4, 5)]))}]
        groups = None
        r = rng.random()
        if r < 0.4:
            groups = [{"name": "organ", "labels": [1], "merge": False, "single": rng.random() < 0.7},
                      {"name": "lesions", "labels": [2, 3], "merge": rng.random() < 0.3, "single": False}]
        elif r < 0.6:
            # one merge group that covers every label that occurs
            groups = [{"name": "all", "labels": [1, 2, 3], "merge": True, "single": False}]
        gm = rng.sample(["DSC", "IOU"], rng.randint(0, 2))
        cfg = E.mk_cfg(it, metrics, matcher=E.naive("IOU", (1, 2)) if it != "MATCHED" else None, decision=dec)
        cfgs.append((cfg, groups, gm, rng.random() < 0.3))
    return cfgs


def snapshot_config(ev, d, k):
    p = os.path.join(d, f"cfg{k}.yaml")
    with quiet():
        ev.save_to_config(p)
    return open(p).read()


def res_equal(a, b, metrics, ordered=False):
    if isinstance(a, str) or isinstance(b, str):
        return None if a == b else f"{a} vs {b}"
    if sorted(a) != sorted(b):
        return f"groups differ {sorted(a)} vs {sorted(b)}"
    for g in a:
        d = summ_equal(a[g], b[g], metrics, ordered=ordered)
        if d:
            return f"group {g}: {d}"
        if "dict_keys" in a[g] and "dict_keys" in b[g] and a[g]["dict_keys"] != b[g]["dict_keys"]:
            ka, kb = a[g].get("dict_keys"), b[g].get("dict_keys")
            diff = sorted(set(ka) ^ set(kb)) if isinstance(ka, list) and isinstance(kb, list) else [ka, kb]
            return f"group {g}: the keys of the reported dictionary differ: {diff}"
        for k in a[g]:
            if k.startswith("global_bin") and not (isinstance(a[g][k], str) or isinstance(b[g][k], str)) and not same_value(a[g][k], b[g][k]):
                return f"group {g}: {k}: {a[g][k]} vs {b[g][k]}"
    return None


impl.DICT_KEYS = True
_BASE = []          # the default evaluator's report taken before this check constructed anything (first statement of run / search / replay)


def default_evaluator_report():
    """zero-TP scenes (empty prediction, empty reference, both empty, disjoint) under `Panoptica_Evaluator(expected_input=MATCHED)`, nothing else given"""
    z = np.zeros((3, 6), np.uint8)
    a = z.copy()
    a[0:2, 0:2] = 1
    b = z.copy()
    b[1:3, 4:6] = 2
    out = {}
    try:
        with quiet(), np.errstate(all="ignore"):
            ev = impl.Panoptica_Evaluator(expected_input=impl.INPUT["MATCHED"])
            for name, (p, r) in (("empty_pred", (z, a)), ("empty_ref", (a, z)), ("both_empty", (z, z)), ("disjoint", (a, b))):
                res = ev.evaluate(p, r)["ungrouped"][0]
                for k in ("tp", "fp", "fn", "sq", "sq_dsc", "sq_assd", "sq_rvd", "sq_std", "pq", "rq"):
                    try:
                        v = getattr(res, k)
                    except Exception as e:
                        v = "ERR:" + type(e).__name__
                    out[f"{name}.{k}"] = "nan" if isinstance(v, float) and v != v else v
            out["keys"] = list(ev.resulting_metric_keys)
    except Exception as e:
        out["raised"] = type(e).__name__
    return out


def one_history(ctx, src):
    rng = ctx.rng
    d = str(VERIF / ".work" / f"c15_{os.getpid()}")
    shutil.rmtree(d, ignore_errors=True)
    os.makedirs(d)
    specs = mk_cfgs(rng)
    evs, keys0, yaml0, mops, log = [], [], [], [], []
    # what an evaluator with nothing but defaults reports for the zero-TP scenes, before anything else exists in this history
    dflt0 = _BASE[0] if _BASE else default_evaluator_report()
    # somebody else's handlers: a partial table and a full one, both unlike the defaults (constructed, never used here)
    with quiet():
        impl.EdgeCaseHandler(listmetric_zeroTP_handling={impl.METRICS["DSC"]: impl.MetricZeroTPEdgeCaseHandling(default_result=impl.EDGE["ONE"])},
                             empty_list_std=impl.EDGE["ZERO"])
        impl.mk_handler({"table": [[m, {"NO_INSTANCES": "ONE", "EMPTY_PRED": "ONE", "EMPTY_REF": "INF", "NORMAL": "ONE"}] for m in ("DSC", "IOU", "ASSD", "RVD", "clDSC")],
                         "empty_list_std": "ONE", "form": "full"})
    dflt_mid = default_evaluator_report()
    if dflt_mid != dflt0:
        diff = [k for k in dflt0 if dflt0[k] != dflt_mid.get(k)][:3]
        ctx.violation(f"after two handlers with other settings were merely constructed, a freshly constructed evaluator with default arguments reports something else: "
                      f"{[(k, dflt0[k], dflt_mid.get(k)) for k in diff]}", {"specs": [], "ops": [["foreign-handlers"]], "src": src}, key={"kind": "history-dependent"})
    try:
        with quiet():
            for k, (cfg, groups, gm, sgt) in enumerate(specs):
                ev = impl.mk_evaluator(cfg, groups=groups, global_metrics=gm, save_group_times=sgt)
                evs.append(ev)
                mops.append(["newEvaluator", cfg["eval_metrics"], gm, sgt, k])
                # what an evaluator of this configuration advertises before any use: asked of a twin that is never used, so that
                # the evaluator under test is first asked only after it has evaluated something
                keys0.append(list(impl.mk_evaluator(cfg, groups=groups, global_metrics=gm, save_group_times=sgt).resulting_metric_keys))
                yaml0.append(snapshot_config(ev, d, k))
        nontriv = False
        used_after = set()
        n_ops = rng.randint(3, 12)
        for step in range(n_ops):
            e = rng.randrange(len(evs))
            cfg, groups, gm, sgt = specs[e]
            kind = rng.choice(["evaluate", "evaluate", "evaluate", "aggregator", "keys", "save", "other-evaluator", "rejected-evaluate"])
            if kind == "evaluate":
                pred, ref = gen.pair(rng, hi=6, max_obj=3, allow_empty=True)
                if cfg["input"] == "SEMANTIC" and rng.random() < 0.6:
                    # diagonal-only contacts, dimensionality alternating between calls on the same evaluator
                    nd = rng.choice([2, 3])
                    ref = np.zeros((4,) * nd, np.uint8)
                    for k2 in range(rng.randint(2, 4)):
                        ref[(k2,) * nd] = 1
                    pred = ref.copy()
                    pred[(0,) * nd] = 0
                if groups:
                    pred = np.where(pred > 3, 3, pred).astype(np.uint8)
                    ref = np.where(ref > 3, 3, ref).astype(np.uint8)
                opts = {"result_all": rng.random() < 0.8, "save_group_times": rng.choice([None, True, False]),
                        "log_times": rng.choice([None, True, False]), "verbose": rng.choice([None, True, False])}
                pb, rb = pred.tobytes(), ref.tobytes()
                got = E.run_impl(cfg, pred, ref, groups=groups, global_metrics=gm, evaluator=evs[e], **opts)
                fresh = E.run_impl(cfg, pred, ref, groups=groups, global_metrics=gm)
                inp = {"specs": [[c, g, m, s] for c, g, m, s in specs], "ops": log + [["evaluate", e, gen.arr_json(pred), gen.arr_json(ref), list(pred.shape), opts]], "src": src}
                if pred.tobytes() != pb or ref.tobytes() != rb:
                    ctx.violation("evaluate modified the caller's arrays", inp, key={"kind": "mutates-input"})
                dd = res_equal(fresh, got, cfg["eval_metrics"])
                if dd:
                    ctx.violation(f"result depends on history/options: used evaluator vs fresh evaluator of the same configuration: {dd}",
                                  inp, impl={"used": str(got)[:400], "fresh": str(fresh)[:400]}, key={"kind": "history-dependent"})
                if isinstance(got, dict):
                    with quiet():
                        adv = set(evs[e].resulting_metric_keys)
                    for g_ in got:
                        dk = got[g_].get("dict_keys")
                        extra = sorted(set(dk) - adv - {"computation_time"}) if isinstance(dk, list) else []
                        if extra:
                            ctx.violation(f"the result of evaluator {e} reports {extra[:3]}, which the evaluator does not advertise among its metric keys "
                                          f"(another evaluator with other global metrics was asked for its keys first?)", inp, key={"kind": "keys-changed"})
                            break
                if e in used_after:
                    nontriv = True
                if groups and any(g["single"] for g in groups):
                    used_after.add(e)
                log.append(["evaluate", e, gen.arr_json(pred), gen.arr_json(ref), list(pred.shape), opts])
                mops.append(["evaluate", e, step, opts["result_all"], opts["save_group_times"], opts["log_times"], opts["verbose"]])
            elif kind == "rejected-evaluate":
                # a call the library refuses (shapes differ / a label that no group covers), made with per-call options
                pr = np.ones((3, 4), np.uint8)
                rf = np.ones((3, 5), np.uint8) if not groups or rng.random() < 0.5 else np.full((3, 4), 9, np.uint8)
                if cfg["input"] == "SEMANTIC" and step % 2 == 0:
                    # signed maps carrying an "ignore" value of -1: refused (negative labels are not allowed) — and left as they are
                    dt = (np.int8, np.int16, np.int32, np.int64)[step % 4]
                    pr = np.array([[0, 1, 1, -1], [0, 1, 0, -1], [2, 2, 0, 0]], dt)
                    rf = np.array([[0, 1, 1, 0], [-1, 1, 0, 0], [2, 2, -1, 0]], dt)
                    if groups:
                        pr, rf = np.where(pr > 3, 3, pr).astype(dt), np.where(rf > 3, 3, rf).astype(dt)
                    ctx.count("rejected_call.negative_values")
                opts = {"save_group_times": rng.choice([True, False]), "log_times": rng.choice([None, True]), "verbose": rng.choice([None, False])}
                pb, rb = pr.tobytes(), rf.tobytes()
                try:
                    with quiet():
                        evs[e].evaluate(pr, rf, **opts)
                    ctx.count("rejected_call_was_accepted")
                except Exception:
                    ctx.count("rejected_call")
                if pr.tobytes() != pb or rf.tobytes() != rb:
                    inp = {"specs": [[c, g, m, s] for c, g, m, s in specs], "ops": log + [["rejected-evaluate", e, pr.tolist(), rf.tolist(), str(pr.dtype)]], "src": src}
                    ctx.violation("evaluate modified the caller's arrays (a call with values the library does not accept)", inp, key={"kind": "mutates-input"})
                used_after.add(e)
                log.append(["rejected-evaluate", e, list(rf.shape), int(rf.max()), opts])
                mops.append(["keys", e])
            elif kind == "aggregator":
                lt = rng.random() < 0.6
                with quiet():
                    Panoptica_Aggregator(evs[e], os.path.join(d, f"agg{step}.tsv"), log_times=lt)
                used_after.add(e)
                log.append(["aggregator", e, lt])
                mops.append(["newAggregator", e, lt])
            elif kind == "keys":
                with quiet():
                    ks = list(evs[e].resulting_metric_keys)
                log.append(["keys", e])
                mops.append(["keys", e])
            elif kind == "save":
                log.append(["save", e])
                mops.append(["saveConfig", e])
            else:
                with quiet():
                    impl.Panoptica_Evaluator()           # default (mutable) arguments
                    impl.EdgeCaseHandler()
                used_after.add(e)
                log.append(["other-evaluator"])
                continue
            # ---- after every operation: advertised keys and saved configuration of every evaluator are unchanged
            for k, ev in enumerate(evs):
                with quiet():
                    ks = list(ev.resulting_metric_keys)
                inp = {"specs": [[c, g, m, s] for c, g, m, s in specs], "ops": log, "src": src}
                if ks != keys0[k]:
                    ctx.violation(f"resulting_metric_keys of evaluator {k} differ from those of an unused evaluator of the same configuration (len {len(keys0[k])} -> {len(ks)})", inp,
                                  impl={"before": keys0[k], "after": ks}, key={"kind": "keys-changed"})
                    keys0[k] = ks
                y = snapshot_config(ev, d, k)
                if y != yaml0[k]:
                    ctx.violation(f"saved configuration of evaluator {k} changed through use", inp,
                                  impl={"before": yaml0[k][-300:], "after": y[-300:]}, key={"kind": "config-changed"})
                    yaml0[k] = y
        inp = {"specs": [[c, g, m, s] for c, g, m, s in specs], "ops": log, "src": src}
        dflt1 = default_evaluator_report()
        if dflt1 != dflt0:
            diff = [k for k in dflt0 if dflt0[k] != dflt1.get(k)][:3]
            ctx.violation(f"a freshly constructed evaluator with default arguments reports something else after other evaluators / handlers were constructed and used: "
                          f"{[(k, dflt0[k], dflt1.get(k)) for k in diff]}", inp, key={"kind": "history-dependent"})
        ctx.case(inp, nontriv, sample={"ops": [o[:2] for o in log]})
        ctx.count(f"evaluators.{len(evs)}")
        for o in log:
            ctx.count("op." + o[0])
        # ---- correspondence with the heap machine: advertised keys
        mods = ctx.driver().ask({"op": "pure_run", "ops": [m for m in mops]})
        final = mods[-1]["advertised"]
        for k, ev in enumerate(evs):
            with quiet():
                ks = list(ev.resulting_metric_keys)
            if final[k] != ks:
                ctx.disagree(f"advertised metric keys of evaluator {k}", inp, ks, final[k])
    finally:
        shutil.rmtree(d, ignore_errors=True)


def pool_one(ctx, pred, ref, cfg):
    a = E.run_impl(cfg, pred, ref)
    impl.serial_pool(False)
    try:
        b = E.run_impl(cfg, pred, ref)
    finally:
        impl.serial_pool(True)
    inp = {"shape": list(pred.shape), "dtype": str(pred.dtype), "pred": gen.arr_json(pred), "ref": gen.arr_json(ref), "cfg": cfg, "kind": "pool"}
    ctx.case(inp, True)
    ctx.count("real_pool_runs")
    # same input, same configuration, same process: the per-instance lists are compared as reported (in order)
    d = res_equal(a, b, cfg["eval_metrics"], ordered=True)
    if d:
        ctx.violation(f"result differs between serial evaluation and the multiprocessing pool: {d}", inp, key={"kind": "pool-dependent"})


def pool_slice(ctx, n):
    """serial stand-in vs real multiprocessing.Pool on the same inputs"""
    rng = ctx.rng
    for i in range(n):
        pred, ref = gen.pair(rng, hi=6, max_obj=3, allow_empty=False)
        it = rng.choice(["UNMATCHED", "UNMATCHED", "MATCHED", "SEMANTIC"])
        cfg = E.mk_cfg(it, ["IOU", "DSC", "ASSD"], matcher=None if it == "MATCHED" else E.naive("IOU", (1, 2)))
        pool_one(ctx, pred, ref, cfg)


def worker_start_method_cases(ctx, n):
    """the real worker pool under the forkserver start method (workers import the library afresh instead of inheriting
    the parent's memory), with metric selections other than the documented default: same results as here"""
    rng = ctx.rng
    cases = []
    for i in range(n):
        pred, ref = gen.pair(rng, hi=6, max_obj=3, allow_empty=False)
        metrics = rng.choice([["IOU", "DSC", "ASSD", "RVD"], ["RVD", "IOU"], ["DSC"], ["IOU", "RVD", "DSC"]])
        it = rng.choice(["MATCHED", "UNMATCHED"])
        cases.append({"cfg": E.mk_cfg(it, metrics, matcher=E.naive("IOU", (1, 2)) if it == "UNMATCHED" else None), "pred": pred, "ref": ref})
    diffs = E.optimized_differences(ctx, cases, mode="start method forkserver, real worker pool", optimize=False, start_method="forkserver", serial_pool=False)
    ctx.count("forkserver_pool_runs", len(cases))
    for k, d in diffs[:3]:
        c = cases[k]
        inp = {"shape": list(c["pred"].shape), "pred": gen.arr_json(c["pred"]), "ref": gen.arr_json(c["ref"]), "cfg": c["cfg"], "kind": "pool",
               "mode": "forkserver"}
        ctx.case(inp, True)
        ctx.violation(f"result depends on how the worker processes are started (forkserver pool vs serial evaluation): {d}", inp, key={"kind": "pool-dependent"})


def construction_cases(ctx, n):
    """merely constructing an evaluator (any legal or illegal-to-evaluate combination of metric arguments, incl. a
    decision metric that is not among the instance metrics) must not change the caller's argument lists, the default
    arguments seen by later evaluators, or evaluators that already exist"""
    rng = ctx.rng
    M = impl.METRICS
    for i in range(n):
        with quiet():
            a = impl.Panoptica_Evaluator()
            keys_a = list(a.resulting_metric_keys)
        user = [M[m] for m in rng.sample(["IOU", "DSC", "RVD", "ASSD"], rng.randint(1, 3))]
        user0 = list(user)
        outside = [m for m in ["IOU", "DSC", "ASSD", "RVD", "clDSC"] if M[m] not in user]
        dm_user = M[rng.choice(outside)]
        dm_default = M["clDSC"] if rng.random() < 0.7 else M[rng.choice(["IOU", "DSC"])]
        ops = []
        try:
            with quiet():
                if rng.random() < 0.6:
                    impl.Panoptica_Evaluator(decision_metric=dm_default, decision_threshold=0.5)
                    ops.append(["construct", "default-lists", dm_default.name])
                if rng.random() < 0.7:
                    impl.Panoptica_Evaluator(instance_metrics=user, decision_metric=dm_user, decision_threshold=0.5)
                    ops.append(["construct", [m.name for m in user0], dm_user.name])
                gml = [M["DSC"]]
                impl.Panoptica_Evaluator(instance_metrics=user, global_metrics=gml)
        except Exception as e:
            ctx.count("construction_rejected." + type(e).__name__)
        inp = {"ops": ops, "user_list": [m.name for m in user0], "src": f"construct{i}", "kind": "construction"}
        ctx.case(inp, bool(ops))
        ctx.count("construction_only")
        if user != user0:
            ctx.violation(f"constructing an evaluator changed the caller's instance_metrics list: {[m.name for m in user0]} -> {[m.name for m in user]}",
                          inp, key={"kind": "mutates-argument"})
        with quiet():
            keys_a2 = list(a.resulting_metric_keys)
            b = impl.Panoptica_Evaluator()
            keys_b = list(b.resulting_metric_keys)
        if keys_a2 != keys_a:
            ctx.violation(f"an existing default evaluator advertises different metric keys after other evaluators were constructed "
                          f"(only after: {sorted(set(keys_a2) - set(keys_a))})", inp, impl={"before": keys_a, "after": keys_a2}, key={"kind": "keys-changed"})
        elif keys_b != keys_a:
            ctx.violation(f"a default evaluator constructed later advertises different metric keys (only later: {sorted(set(keys_b) - set(keys_a))})",
                          inp, impl={"before": keys_a, "after": keys_b}, key={"kind": "keys-changed"})


def inplace_refill_with_groups(ctx):
    """an evaluator with class groups evaluates the caller's two buffers; the caller refills the very same buffers with the next case, which
    carries a label no group defines: the call is refused exactly as a fresh evaluator refuses it"""
    groups = [{"name": "a", "labels": [1, 2], "merge": False, "single": False}, {"name": "b", "labels": [3], "merge": True, "single": False}]
    cfg = E.mk_cfg("MATCHED", ["IOU", "DSC"])
    with quiet():
        ev = impl.mk_evaluator(cfg, groups=groups)
    bp, br = np.zeros((4, 6), np.uint8), np.zeros((4, 6), np.uint8)
    fills = [((1, 2), (1, 2)), ((1, 3), (1, 3)), ((1, 7), (1, 2)), ((2, 3), (9, 3)), ((1, 2), (1, 2))]
    for k, (pl, rl) in enumerate(fills):
        bp[...] = 0
        br[...] = 0
        bp[0:2, 0:2], bp[2:4, 3:5] = pl
        br[0:2, 0:3], br[2:4, 3:5] = rl
        used = E.run_impl(cfg, bp, br, groups=groups, evaluator=ev)
        fresh = E.run_impl(cfg, bp.copy(), br.copy(), groups=groups)
        inp = {"specs": [], "ops": [["inplace-refill", k]], "fills": [list(map(list, f)) for f in fills], "src": "inplace-refill"}
        ctx.case(inp, True)
        ctx.count("buffers_refilled_in_place_with_groups")
        if isinstance(used, str) != isinstance(fresh, str) or (isinstance(used, str) and used != fresh):
            ctx.violation(f"refilled buffers (prediction labels {pl}, reference labels {rl}): the evaluator that saw these array objects before answers "
                          f"{used if isinstance(used, str) else 'with a result'}, a fresh evaluator {fresh if isinstance(fresh, str) else 'with a result'}", inp,
                          key={"kind": "history-dependent"})
            return
        if isinstance(used, dict):
            dd = res_equal(fresh, used, cfg["eval_metrics"])
            if dd:
                ctx.violation(f"refilled buffers: result depends on what the evaluator saw before: {dd}", inp, key={"kind": "history-dependent"})
                return


def run(ctx):
    if not _BASE:
        _BASE.append(default_evaluator_report())
    inplace_refill_with_groups(ctx)
    construction_cases(ctx, ctx.scale(40, 400))
    for i in range(ctx.scale(60, 800)):
        one_history(ctx, f"rand{i}")
    pool_slice(ctx, ctx.scale(6, 60))
    worker_start_method_cases(ctx, ctx.scale(4, 20))


def search(ctx):
    if not _BASE:
        _BASE.append(default_evaluator_report())
    for i in range(ctx.scale(150, 600)):
        one_history(ctx, f"search{i}")


def replay(ctx, rec):
    if not _BASE:
        _BASE.append(default_evaluator_report())
    i = rec["input"]
    if i.get("kind") == "pool" and i.get("mode") is None:
        dt = np.dtype(i.get("dtype", "uint8"))
        pool_one(ctx, np.array(i["pred"], dtype=dt).reshape(i["shape"]), np.array(i["ref"], dtype=dt).reshape(i["shape"]), i["cfg"])
        return
    if i.get("kind") == "pool":
        return
    if i.get("src") == "inplace-refill":
        inplace_refill_with_groups(ctx)
        return
    if i.get("ops") == [["foreign-handlers"]]:
        one_history(ctx, "replay")
        return
    if i.get("kind") == "construction":
        construction_cases(ctx, 40)
        return
    d = str(VERIF / ".work" / f"c15r_{os.getpid()}")
    os.makedirs(d, exist_ok=True)
    with quiet():
        evs = [impl.mk_evaluator(c, groups=g, global_metrics=m, save_group_times=s) for c, g, m, s in i["specs"]]
        keys0 = [list(impl.mk_evaluator(c, groups=g, global_metrics=m, save_group_times=s).resulting_metric_keys) for c, g, m, s in i["specs"]]
    yaml0 = [None for _ in evs]
    ctx.case(i, True)
    for o in i["ops"]:
        if o[0] == "evaluate":
            _, e, p, r, sh, opts = o
            c, g, m, s = i["specs"][e]
            pred, ref = np.array(p, dtype=np.uint8).reshape(sh), np.array(r, dtype=np.uint8).reshape(sh)
            got = E.run_impl(c, pred, ref, groups=g, global_metrics=m, evaluator=evs[e], **opts)
            fresh = E.run_impl(c, pred, ref, groups=g, global_metrics=m)
            dd = res_equal(fresh, got, c["eval_metrics"])
            if dd:
                ctx.violation(f"result depends on history/options: {dd}", i, key={"kind": "history-dependent"})
        elif o[0] == "aggregator":
            with quiet():
                Panoptica_Aggregator(evs[o[1]], os.path.join(d, f"r{len(os.listdir(d))}.tsv"), log_times=o[2])
        elif o[0] == "rejected-evaluate":
            _, e, shp, val, opts = o
            try:
                with quiet():
                    evs[e].evaluate(np.ones((3, 4), np.uint8), np.full(tuple(shp), val, np.uint8), **opts)
            except Exception:
                pass
        for k, ev in enumerate(evs):
            y = snapshot_config(ev, d, k)
            if yaml0[k] is None:
                yaml0[k] = y
            elif y != yaml0[k]:
                ctx.violation(f"saved configuration of evaluator {k} changed through use", i, key={"kind": "config-changed"})
                yaml0[k] = y
            with quiet():
                ks = list(ev.resulting_metric_keys)
            if ks != keys0[k]:
                ctx.violation(f"resulting_metric_keys of evaluator {k} changed through use", i, key={"kind": "keys-changed"})
                keys0[k] = ks
    shutil.rmtree(d, ignore_errors=True)
