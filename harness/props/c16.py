"""C16 — concurrent aggregation records every subject exactly once, intact."""
from __future__ import annotations
import os, shutil, itertools, time, csv, builtins, threading
import numpy as np
import forms, impl, aggsched
from impl import quiet
from common import VERIF
import panoptica.panoptica_aggregator as PA

RULE = ("(real threads released together on a fresh aggregator whose class groups have a slow label accessor) (a child interpreter with a non-UTF-8 locale and non-ASCII subject names) (names incl. look-alikes: byte-order mark, ideographic space, quotes, accents, trailing blanks; pool workers receiving the pickled bound method aggregator.evaluate with every subject submitted three times) (30% of the cases resume a file in which an earlier session recorded subjects, some with empty cells) the real Panoptica_Aggregator under a controlled scheduler (locks, file helpers and the evaluator call wrapped "
        "from outside; every lock/file operation is one scheduling point): random schedules of 2-4 concurrent "
        "evaluate()/make_statistic() threads with distinct and colliding subject names, compared step by step with the "
        "Lean machine (files, lock owners) and judged at the end against a sequential run; quick: 250 random schedules + "
        "all schedules of two colliding 3-step prefixes; thorough: 4000 random schedules; plus forked-process runs with a "
        "widened claim window; non-trivial = two threads simultaneously between claim and row write, or two colliding "
        "names racing for the claim")

PC_OF = {("acq", "l1"): {"start"}, ("load", "buf"): {"read"}, ("write", "buf"): {"writeBuf"}, ("rel", "l1"): {"relL1", "relL1Skip"},
         ("compute",): {"compute"}, ("acq", "l2"): {"wantL2", "sWant"}, ("write", "out"): {"writeOut1"},
         ("rel", "l2"): {"relL2", "sRel"}, ("stat", "out"): {"sRead"}, ("done",): {"done"}}


def subject_arrays(k):
    """(prediction, reference) of subject number k; subject 3 has an empty prediction (missed lesion: `prec`
    uncomputable -> empty cell in its row), subject 4 an empty reference (false alarm: `rec` uncomputable)"""
    a = np.zeros((4, 4), np.uint8)
    a[0:2, 0:2] = 1
    b = a.copy()
    b[0, k % 2] = 0 if k % 3 else 1
    b[3, k % 4] = 2
    if k == 3:
        return np.zeros_like(a), b
    if k == 4:
        return a, np.zeros_like(b)
    return a, b


def mk_evaluator():
    with quiet():
        return impl.Panoptica_Evaluator(expected_input=impl.InputType.MATCHED_INSTANCE, instance_metrics=[impl.Metric.IOU, impl.Metric.DSC],
                                        global_metrics=[impl.Metric.DSC])


def workdir(tag):
    d = VERIF / ".work" / f"{tag}_{os.getpid()}"
    shutil.rmtree(d, ignore_errors=True)
    d.mkdir(parents=True)
    return str(d)


_REF_ROWS = {}


def reference_row(name, k):
    """the row a sequential run records for this subject"""
    if (name, k) in _REF_ROWS:
        return _REF_ROWS[(name, k)]
    d = workdir("c16ref")
    # a sequential run of its own: plain locks of its own, whatever state a schedule under test left the shared ones in
    saved = PA.filelock, PA.inevalfilelock
    PA.filelock, PA.inevalfilelock = threading.Lock(), threading.Lock()
    try:
        with quiet():
            agg = PA.Panoptica_Aggregator(mk_evaluator(), os.path.join(d, "r.tsv"))
            a, b = subject_arrays(k)
            agg.evaluate(a, b, name)
    finally:
        PA.filelock, PA.inevalfilelock = saved
    with builtins.open(os.path.join(d, "r.tsv"), newline="") as f:
        rows = list(csv.reader(f, delimiter="\t"))
    shutil.rmtree(d, ignore_errors=True)
    _REF_ROWS[(name, k)] = rows[1]
    return rows[1]


def one_schedule(ctx, names, kinds, sched, src, old=()):
    """names[i]: subject of thread i (string); kinds[i] in {eval, stat}; old: subjects already recorded by an earlier
    (finished) session on the same file"""
    with quiet():
        _one_schedule(ctx, names, kinds, sched, src, list(old))


def _one_schedule(ctx, names, kinds, sched, src, old):
    N = len(names)
    inp = {"names": names, "kinds": kinds, "schedule": sched, "src": src, "old": old}
    d = workdir("c16")
    H = aggsched.Harness(d, split_rows=True)
    try:
        uniq = sorted(set(names) | set(old))
        code = {n: uniq.index(n) + 1 for n in uniq}
        if old:
            H.uninstall()
            agg0 = PA.Panoptica_Aggregator(mk_evaluator(), H.out)
            for n in old:
                a, b = subject_arrays(code[n])
                agg0.evaluate(a, b, n)
            H.install()
        ev = aggsched.EvProxy(mk_evaluator(), lambda: H.C)
        with quiet():
            agg = PA.Panoptica_Aggregator(ev, H.out)
        stats = {}

        def mk(i):
            if kinds[i] == "stat":
                def f():
                    try:
                        st = agg.make_statistic()
                        stats[i] = list(st.subjectnames)
                    except (IndexError, AssertionError):
                        stats[i] = []
                return f
            a, b = subject_arrays(code[names[i]])
            return lambda: agg.evaluate(a, b, names[i])
        for i in range(N):
            H.C.spawn(i, mk(i))
        ops = [["new", kinds]] + [["ctor"]] * 12
        obs = []
        between, racing = 0, False
        full = list(sched)
        k = 0
        while k < len(full) or any(i not in H.C.done for i in range(N)):
            if k < len(full):
                i = full[k]
            else:
                if k > len(sched) + 40 * N:
                    break
                i = k % N
                full.append(i)
            k += 1
            did = H.C.step(i)
            ops.append(["thread", i])
            if did == ("write", "out") and H.C.at.get(i) != ("write2", "out"):
                ops.append(["thread", i])        # the row went to disk in one piece: both halves of the model's append
            if did == ("write2", "out"):
                ctx.count("row_appended_in_two_halves")
            elif did == ("stat", "out") and any(H.C.at.get(j) == ("write2", "out") for j in range(N)):
                ctx.count("statistic_requested_while_a_row_is_half_written")
            o = H.observe()
            o["at"] = [H.C.at.get(j) for j in range(N)]
            obs.append((len(ops) - 1, o))
            pend = [j for j in range(N) if o["at"][j] in (("rel", "l1"), ("compute",), ("acq", "l2"), ("write", "out"))]
            if len(pend) >= 2:
                between += 1
            at_claim = [j for j in range(N) if o["at"][j] in (("acq", "l1"), ("load", "buf"), ("write", "buf")) and kinds[j] == "eval"]
            if len({names[j] for j in at_claim}) < len(at_claim):
                racing = True
        all_done = all(i in H.C.done for i in range(N))
        final = H.observe()
        inp["schedule"] = full
        ctx.case(inp, between > 0 or racing, sample={"names": names, "kinds": kinds, "schedule": full[:40]})
        ctx.count(f"threads.{N}")
        ctx.count("collision" if len(set(n for n, kd in zip(names, kinds) if kd == "eval")) < kinds.count("eval") else "distinct")
        if "stat" in kinds:
            ctx.count("with_stat_thread")
        if between:
            ctx.count("two_threads_between_claim_and_write")
        # ---------------- property oracle (independent of the model)
        fails = []
        for i, e in H.C.exc.items():
            fails.append(f"thread {i} raised {type(e).__name__}: {e}")
        if not all_done:
            fails.append("a call is still blocked after every thread was given 40 further turns")
            _BLOCKED.append(src)
        want = sorted({n for n, kd in zip(names, kinds) if kd == "eval"} | set(old))
        if final["hdrs"] != 1:
            fails.append(f"header present {final['hdrs']} times")
        if sorted(final["rows"]) != want:
            fails.append(f"output holds rows for {sorted(final['rows'])}, expected exactly one per subject {want}")
        else:
            for r in final["raw_rows"]:
                if r != reference_row(r[0], code[r[0]]):
                    fails.append(f"row of {r[0]} differs from a sequential run: {r} vs {reference_row(r[0], code[r[0]])}")
        for i, seen in stats.items():
            if any(s not in want for s in seen):
                fails.append(f"statistics object saw subjects {seen} that are not complete rows")
        for snap in H.stat_snaps:
            if snap and not snap.endswith("\n"):
                fails.append("make_statistic() read the output file while a row was half written (last line incomplete: "
                             f"{snap.splitlines()[-1][:40]!r}...)")
        if fails:
            ctx.violation("C16 violated: " + fails[0], inp, impl={"final": {k2: final[k2] for k2 in ("hdrs", "rows", "buf")}}, key={"kind": "concurrent"})
        # ---------------- correspondence with the Lean machine, step by step
        init = {"out_exists": bool(old), "hdr": bool(old), "rows": [code[n] for n in old], "buf_exists": bool(old), "buf": [code[n] for n in old]}
        trace = ctx.driver().ask({"op": "agg_trace", "init": init,
                                  "names": [code[n] for n in names], "ops": ops})
        for idx, o in obs:
            m = trace[idx]
            mrows = [uniq[r[0] - 1] for r in m["rows"]]
            mbuf = [uniq[b - 1] for b in m["buf"]]
            diff = None
            if o["rows"] != mrows:
                diff = ("output rows", o["rows"], mrows)
            elif o["buf"] != mbuf:
                diff = ("buffer lines", o["buf"], mbuf)
            elif (o["l1"], o["l2"]) != (m["l1"], m["l2"]):
                diff = ("lock owners", [o["l1"], o["l2"]], [m["l1"], m["l2"]])
            else:
                for j in range(N):
                    if m["pcs"][j] not in PC_OF.get(o["at"][j], {m["pcs"][j]}):
                        diff = (f"program counter of thread {j}", o["at"][j], m["pcs"][j])
            if diff:
                ctx.disagree(f"{diff[0]} after step {idx - 13}", inp, diff[1], diff[2])
                break
    finally:
        H.C.abandon_all()
        H.uninstall()
        shutil.rmtree(d, ignore_errors=True)


_BLOCKED = []      # once real processes were seen blocking forever, further process runs would only wait for the same timeouts


def unleak():
    """the module's two locks must be free once every call has returned; a lock left held would block every later call.
    Returns the names of locks found held (and frees them so that the rest of the run is not affected)."""
    held = []
    for nm in ("inevalfilelock", "filelock"):
        l = getattr(PA, nm)
        if isinstance(l, aggsched.MLock):
            continue
        try:
            if l.acquire(False):
                l.release()
            else:
                held.append(nm)
                l.release()
        except Exception:      # noqa
            pass
    return held


def fork_run(ctx, n_proc, names, delay, src, continue_file=True):
    """forked worker processes on one aggregator created in the parent; claim writes delayed to widen the race.
    continue_file=False: the constructor does not look at an existing file (and so need not touch the locks before the workers are forked)"""
    import multiprocessing as mp
    inp = {"mode": "fork", "names": names, "delay": delay, "src": src, "continue_file": continue_file}
    if _BLOCKED:
        ctx.count("process_runs_skipped_after_blocking")
        return
    d = workdir("c16fork")
    real_write = PA._write_content

    def slow_write(file, content):
        if str(file).endswith("_panoptica_aggregator_tmp.tsv"):
            time.sleep(delay)
        return real_write(file, content)
    PA._write_content = slow_write
    try:
        impl.serial_pool(True)
        with quiet():
            agg = (PA.Panoptica_Aggregator(mk_evaluator(), os.path.join(d, "out.tsv")) if continue_file else
                   PA.Panoptica_Aggregator(mk_evaluator(), os.path.join(d, "out.tsv"), continue_file=False))
        uniq = sorted(set(names))
        code = {n: uniq.index(n) + 1 for n in uniq}
        cx = mp.get_context("fork")

        def work(nm):
            a, b = subject_arrays(code[nm])
            with quiet():
                agg.evaluate(a, b, nm)
        ps = [cx.Process(target=work, args=(nm,)) for nm in names]
        for p in ps:
            p.start()
        for p in ps:
            p.join(60)
        blocked = [p for p in ps if p.is_alive()]
        for p in blocked:
            p.kill()
        with builtins.open(os.path.join(d, "out.tsv"), newline="") as f:
            rows = list(csv.reader(f, delimiter="\t"))
        ctx.case(inp, len(set(names)) < len(names))
        ctx.count("forked_process_runs")
        got = sorted(r[0] for r in rows[1:])
        fails = []
        held = unleak()
        if blocked:
            _BLOCKED.append(src)
            fails.append(f"{len(blocked)} worker processes still blocked after 60 s" + (f" (lock {held[0]} was left held by a call that returned)" if held else ""))
        elif held:
            fails.append(f"lock {held[0]} is still held after every call returned: any later call blocks forever")
        if rows[0][0] != "subject_name" or got != uniq:
            fails.append(f"forked workers: output holds rows for {got}, expected exactly one per subject {uniq}")
        else:
            for r in rows[1:]:
                if r != reference_row(r[0], code[r[0]]):
                    fails.append(f"forked workers: row of {r[0]} differs from a sequential run")
        if fails:
            ctx.violation("C16 violated: " + fails[0], inp, impl={"rows": got}, key={"kind": "fork"})
    finally:
        PA._write_content = real_write
        shutil.rmtree(d, ignore_errors=True)


def _default_ctx_child(agg, nm, k, delay):
    """runs in a worker process started with the default context; widens the check-then-claim window in this process"""
    import time as _t
    import panoptica.panoptica_aggregator as _PA
    real = _PA._write_content

    def slow(file, content):
        if str(file).endswith("_panoptica_aggregator_tmp.tsv"):
            _t.sleep(delay)
        return real(file, content)
    _PA._write_content = slow
    a, b = subject_arrays(k)
    with quiet():
        agg.evaluate(a, b, nm)


def default_context_run(ctx, names, delay, src):
    """worker processes started the way `multiprocessing.Process` starts them after the library was imported (no context
    chosen by the harness): the same subject submitted by several workers must still be recorded once"""
    import multiprocessing as mp
    inp = {"mode": "default-context-processes", "names": names, "delay": delay, "start_method": mp.get_start_method(allow_none=True), "src": src}
    if _BLOCKED:
        ctx.count("process_runs_skipped_after_blocking")
        return
    d = workdir("c16dflt")
    try:
        impl.serial_pool(True)
        with quiet():
            agg = PA.Panoptica_Aggregator(mk_evaluator(), os.path.join(d, "out.tsv"))
        uniq = sorted(set(names))
        code = {n: uniq.index(n) + 1 for n in uniq}
        ps = [mp.Process(target=_default_ctx_child, args=(agg, nm, code[nm], delay)) for nm in names]
        for p in ps:
            p.start()
        for p in ps:
            p.join(90)
        blocked = [p for p in ps if p.is_alive()]
        for p in blocked:
            p.kill()
        with builtins.open(os.path.join(d, "out.tsv"), newline="") as f:
            rows = list(csv.reader(f, delimiter="\t"))
        ctx.case(inp, True)
        ctx.count("default_context_process_runs")
        got = sorted(r[0] for r in rows[1:])
        fails = []
        held = unleak()
        if blocked:
            _BLOCKED.append(src)
            fails.append(f"{len(blocked)} worker processes still blocked after 90 s")
        elif held:
            fails.append(f"lock {held[0]} is still held after every call returned")
        if rows[0][0] != "subject_name" or got != uniq:
            fails.append(f"worker processes (start method {inp['start_method']}): output holds rows for {got}, expected exactly one per subject {uniq}")
        else:
            for r in rows[1:]:
                if r != reference_row(r[0], code[r[0]]):
                    fails.append(f"worker processes: row of {r[0]} differs from a sequential run")
        if fails:
            ctx.violation("C16 violated: " + fails[0], inp, impl={"rows": got}, key={"kind": "default-context"})
    finally:
        shutil.rmtree(d, ignore_errors=True)


def pool_run(ctx, n_subjects, repeat, src):
    """the documented parallel entry point: the bound method aggregator.evaluate shipped to forked pool workers
    (NonDaemonicPool.starmap), every subject submitted `repeat` times; each task runs on an unpickled copy of the
    aggregator object"""
    from panoptica.utils import NonDaemonicPool
    import gc
    names = [f"subject_{k:02d}" for k in range(n_subjects)]
    submitted = names * repeat
    inp = {"mode": "pool", "names": submitted, "src": src}
    if _BLOCKED:
        ctx.count("process_runs_skipped_after_blocking")
        return
    d = workdir("c16pool")
    try:
        impl.serial_pool(True)
        with quiet():
            agg = PA.Panoptica_Aggregator(mk_evaluator(), os.path.join(d, "out.tsv"))
        code = {n: k + 1 for k, n in enumerate(names)}
        args = [subject_arrays(code[n]) + (n,) for n in submitted]
        err = None
        try:
            with quiet(), NonDaemonicPool(processes=2) as pool:
                r = pool.starmap_async(agg.evaluate, args, chunksize=1)
                r.get(timeout=120)
        except Exception as e:
            err = type(e).__name__
            if err == "TimeoutError":
                _BLOCKED.append(src)
                err = "TimeoutError (tasks still blocked after 120 s)"
        held = unleak()
        with builtins.open(os.path.join(d, "out.tsv"), newline="") as f:
            rows = list(csv.reader(f, delimiter="\t"))
        ctx.case(inp, True)
        ctx.count("pool_worker_runs")
        got = sorted(r[0] for r in rows[1:])
        fails = []
        if err:
            fails.append(f"pool workers: starmap(aggregator.evaluate) failed with {err}")
        elif held:
            fails.append(f"lock {held[0]} is still held after every call returned: any later call blocks forever")
        if not rows or rows[0][0] != "subject_name" or got != names:
            fails.append(f"pool workers: output holds rows for {got}, expected exactly one per subject {names}")
        else:
            for r in rows[1:]:
                if r != reference_row(r[0], code[r[0]]):
                    fails.append(f"pool workers: row of {r[0]} differs from a sequential run")
        if fails:
            ctx.violation("C16 violated: " + fails[0], inp, impl={"rows": got}, key={"kind": "pool"})
    finally:
        shutil.rmtree(d, ignore_errors=True)
        gc.collect()


NON_ASCII = ["M\u00fcller_01", "\u60a3\u8005_7", "caf\u00e9 2", "\u0394-9"]


def locale_sessions(ctx, pid, src):
    """a child interpreter whose locale encoding is not UTF-8 (LC_ALL=C, UTF-8 mode off): sessions on one output file
    with non-ASCII subject names — first session records two subjects, second session (a new aggregator on the
    same file) resubmits them and adds two more.  Returns (input record, child result, expected rows)"""
    rng = ctx.rng
    d = workdir("c16locale")
    names = rng.sample(NON_ASCII, 2) + ["plain_3", rng.choice(NON_ASCII)]
    names = list(dict.fromkeys(names))
    code = {n: k + 1 for k, n in enumerate(names)}
    j = lambda a: {"data": a.astype(int).ravel().tolist(), "dtype": str(a.dtype), "shape": list(a.shape)}
    sub = lambda n: [n, j(subject_arrays(code[n])[0]), j(subject_arrays(code[n])[1])]
    first = [sub(n) for n in names[:2]]
    second = [sub(n) for n in names[:2] + names[2:] + names[:1]]
    cfg = {"input": "MATCHED", "backend": None, "matcher": None, "eval_metrics": ["IOU", "DSC"], "decision": None, "handler": None}
    task = {"kind": "aggregate", "path": os.path.join(d, "out.tsv"), "cfg": cfg, "global_metrics": ["DSC"], "sessions": [first, second]}
    inp = {"mode": "child interpreter with LC_ALL=C (locale encoding not UTF-8)", "names": names, "sessions": [[n for n, _, _ in first], [n for n, _, _ in second]], "src": src}
    try:
        res = forms.run_child([{"kind": "info"}, task], optimize=False, extra_env=forms.C_LOCALE, timeout=240)
    finally:
        shutil.rmtree(d, ignore_errors=True)
    ctx.case(inp, True)
    ctx.count("non_utf8_locale_child")
    if isinstance(res, dict) and res.get("error") == "timeout":
        return inp, {"rows": [[]], "errors": ["the sessions did not finish within 240 s (a call blocks)"]}, {}
    if isinstance(res, dict) or isinstance(res[1], str):
        ctx.notes.append("locale child could not be run: " + str(res)[:200])
        return inp, None, None
    out = res[1]
    ctx.extra["locale_child_encoding"] = out.get("encoding")
    want = {n: reference_row(n, code[n]) for n in names}
    return inp, out, want


def locale_case(ctx, src):
    if _BLOCKED:
        ctx.count("process_runs_skipped_after_blocking")
        return
    inp, out, want = locale_sessions(ctx, "C16", src)
    if out is None:
        return
    got = sorted(r[0] for r in out["rows"][1:])
    if out["errors"]:
        ctx.violation(f"C16 violated under a non-UTF-8 locale: calls failed with {sorted(set(out['errors']))}; rows present: {got}", inp, impl=out["errors"],
                      key={"kind": "locale"})
    elif got != sorted(want):
        ctx.violation(f"C16 violated under a non-UTF-8 locale: rows for {got}, expected exactly one per subject {sorted(want)}", inp, impl=got, key={"kind": "locale"})
    elif any(r != want[r[0]] for r in out["rows"][1:]):
        ctx.violation("C16 violated under a non-UTF-8 locale: a row differs from a sequential run", inp, key={"kind": "locale"})


def slow_group_threads(ctx, n_threads, src):
    """real threads starting together on a fresh aggregator whose evaluator has class groups built from a LabelGroup subclass
    with a slow label accessor: whatever the library computes lazily from the groups on first use gets a wide window"""
    import threading
    from panoptica.utils.label_group import LabelGroup
    from panoptica.utils.segmentation_class import SegmentationClassGroups

    class SlowGroup(LabelGroup):
        @property
        def value_labels(self):
            time.sleep(0.002)
            return super().value_labels

    inp = {"mode": "threads+slow-groups", "threads": n_threads, "src": src}
    d = workdir("c16slow")
    try:
        impl.serial_pool(True)
        with quiet():
            groups = SegmentationClassGroups({"a": SlowGroup([1]), "b": SlowGroup([2]), "c": SlowGroup([3, 4])})
            ev = impl.Panoptica_Evaluator(expected_input=impl.InputType.MATCHED_INSTANCE, instance_metrics=[impl.Metric.IOU, impl.Metric.DSC],
                                          global_metrics=[impl.Metric.DSC], segmentation_class_groups=groups)
            agg = PA.Panoptica_Aggregator(ev, os.path.join(d, "out.tsv"))
        names = [f"subject_{k}" for k in range(n_threads)]
        errs = {}
        barrier = threading.Barrier(n_threads)

        def work(k):
            a, b = subject_arrays(k + 5)
            a, b = a.copy(), b.copy()
            a[a > 0] = (k % 2) + 1
            b[b > 0] = (k % 2) + 1
            barrier.wait()
            try:
                agg.evaluate(a, b, names[k])
            except BaseException as e:      # noqa
                errs[names[k]] = f"{type(e).__name__}: {str(e)[:80]}"
        with quiet():
            ts = [threading.Thread(target=work, args=(k,)) for k in range(n_threads)]
            for t in ts:
                t.start()
            for t in ts:
                t.join(120)
        with builtins.open(os.path.join(d, "out.tsv"), newline="") as f:
            rows = list(csv.reader(f, delimiter="\t"))
        ctx.case(inp, True)
        ctx.count("thread_runs_with_slow_groups")
        got = sorted(r[0] for r in rows[1:])
        if errs or got != sorted(names):
            ctx.violation(f"C16 violated: concurrent evaluate() calls on a fresh aggregator with class groups: rows for {got}, expected one per subject "
                          f"{sorted(names)}; failed calls: {errs}", inp, impl={"rows": got, "errors": errs}, key={"kind": "threads"})
    finally:
        shutil.rmtree(d, ignore_errors=True)


def evaluation_interleaving(ctx, stage, src):
    """the evaluation itself runs outside the aggregator's locks: two threads whose evaluations overlap *inside* the
    evaluator (thread A is held at a stage boundary while thread B evaluates its whole subject) must still record the rows a
    sequential run records.  Unmatched-instance input with a matcher; the two subjects need different assignments."""
    import threading
    import panoptica.instance_matcher as IM
    inp = {"mode": "evaluation-interleaving", "held_at": stage, "src": src}
    d = workdir("c16inner")
    ctx.case(inp, True, sample=inp)
    ctx.count("threads_overlapping_inside_the_evaluator")
    impl.serial_pool(True)

    def scene(k):
        ref = np.zeros((6, 14), np.uint8)
        pred = np.zeros((6, 14), np.uint8)
        ref[1:5, 1:5], ref[1:5, 8:12] = 1, 2
        if k == 0:          # labels crossed: prediction 2 sits on reference 1, prediction 1 on reference 2; one stray prediction
            pred[1:5, 1:6], pred[1:5, 8:11], pred[0, 13] = 2, 1, 3
        else:               # labels aligned, other overlaps
            pred[1:4, 1:5], pred[2:5, 8:12] = 1, 2
        return pred, ref

    def mk():
        with quiet():
            return impl.Panoptica_Evaluator(expected_input=impl.InputType.UNMATCHED_INSTANCE, instance_matcher=impl.NaiveThresholdMatching(matching_threshold=0.3),
                                            instance_metrics=[impl.Metric.IOU, impl.Metric.DSC], global_metrics=[impl.Metric.DSC])
    names = ["sub_a", "sub_b"]
    try:
        # sequential reference rows, each on a fresh aggregator with locks of its own
        want = {}
        saved = PA.filelock, PA.inevalfilelock
        for k, nm in enumerate(names):
            PA.filelock, PA.inevalfilelock = threading.Lock(), threading.Lock()
            try:
                with quiet():
                    agg = PA.Panoptica_Aggregator(mk(), os.path.join(d, f"ref{k}.tsv"))
                    agg.evaluate(*scene(k), nm)
                with builtins.open(os.path.join(d, f"ref{k}.tsv"), newline="") as f:
                    want[nm] = list(csv.reader(f, delimiter="\t"))[1]
            finally:
                PA.filelock, PA.inevalfilelock = saved
        with quiet():
            agg = PA.Panoptica_Aggregator(mk(), os.path.join(d, "out.tsv"))
        a_waiting, b_done = threading.Event(), threading.Event()
        target = {"map": "map_instance_labels", "match": "_calc_matching_metric_of_overlapping_labels"}[stage]
        mod = IM
        real = getattr(mod, target)
        a_tid = {}

        def gate(*a, **k):
            if threading.get_ident() == a_tid.get("id") and not a_waiting.is_set():
                a_waiting.set()
                b_done.wait(30)
            return real(*a, **k)
        setattr(mod, target, gate)
        errs = {}

        def run_a():
            a_tid["id"] = threading.get_ident()
            try:
                agg.evaluate(*scene(0), names[0])
            except BaseException as e:      # noqa
                errs[names[0]] = f"{type(e).__name__}: {str(e)[:80]}"

        def run_b():
            a_waiting.wait(30)
            try:
                agg.evaluate(*scene(1), names[1])
            except BaseException as e:      # noqa
                errs[names[1]] = f"{type(e).__name__}: {str(e)[:80]}"
            finally:
                b_done.set()
        try:
            with quiet():
                ta, tb = threading.Thread(target=run_a), threading.Thread(target=run_b)
                ta.start(); tb.start()
                ta.join(90); tb.join(90)
        finally:
            setattr(mod, target, real)
        with builtins.open(os.path.join(d, "out.tsv"), newline="") as f:
            rows = {r[0]: r for r in list(csv.reader(f, delimiter="\t"))[1:]}
        if errs or ta.is_alive() or tb.is_alive():
            ctx.violation(f"C16 violated: evaluations overlapping inside the evaluator (thread A held at {target}): calls failed or blocked: {errs}", inp,
                          impl={"errors": errs}, key={"kind": "inner-interleaving"})
        elif sorted(rows) != sorted(names):
            ctx.violation(f"C16 violated: rows for {sorted(rows)}, expected one per subject {names}", inp, key={"kind": "inner-interleaving"})
        else:
            for nm in names:
                if rows[nm] != want[nm]:
                    diff = [(i, x, y) for i, (x, y) in enumerate(zip(rows[nm], want[nm])) if x != y][:3]
                    ctx.violation(f"C16 violated: the row of {nm} differs from a sequential run when another thread's evaluation runs while it is between "
                                  f"matching and relabelling (held at {target}): first differing cells (index, concurrent, sequential) {diff}", inp,
                                  impl={"row": rows[nm], "sequential": want[nm]}, key={"kind": "inner-interleaving"})
                    break
    finally:
        shutil.rmtree(d, ignore_errors=True)


POOL_NAMES = ["s1", "s2", "s 3", "s-4", "s1 ", " s2", "S1", "\ufeffs1", "\u00e9 1", 's"1', "s1\ufeff", "\u3000s2"]


class _ParkingEv:
    """the real evaluator; its first evaluation waits inside the computation until released"""

    def __init__(self, real):
        self._real, self.entered, self.release, self.first = real, threading.Event(), threading.Event(), True

    @property
    def segmentation_class_groups_names(self):
        return self._real.segmentation_class_groups_names

    @property
    def resulting_metric_keys(self):
        return self._real.resulting_metric_keys

    def evaluate(self, *a, **k):
        if self.first:
            self.first = False
            self.entered.set()
            self.release.wait(30)
        return self._real.evaluate(*a, **k)


def failing_evaluation_overlap(ctx, src):
    """while subject s1 is being computed, another call fails inside the evaluation (arrays the evaluator refuses), then s1 is submitted
    again: the failure of one call does not make the aggregator forget who else is in process — one row for s1"""
    inp = {"mode": "failing-overlap", "src": src}
    if _BLOCKED:
        return
    d = workdir("c16fail")
    try:
        with quiet():
            ev = _ParkingEv(mk_evaluator())
            agg = PA.Panoptica_Aggregator(ev, os.path.join(d, "out.tsv"))
        a, b = subject_arrays(1)
        errs = []

        def call(name, x, y):
            try:
                with quiet():
                    agg.evaluate(x, y, name)
            except Exception as e:
                errs.append((name, type(e).__name__))
        t1 = threading.Thread(target=call, args=("s1", a, b), daemon=True)
        t1.start()
        ev.entered.wait(30)
        call("bad", a.astype(np.float32), b.astype(np.float32))          # refused by the evaluator: raises
        t3 = threading.Thread(target=call, args=("s1", a, b), daemon=True)
        t3.start()
        t3.join(30)
        ev.release.set()
        t1.join(30)
        alive = t1.is_alive() or t3.is_alive()
        with builtins.open(os.path.join(d, "out.tsv"), newline="") as f:
            rows = list(csv.reader(f, delimiter="\t"))
        got = sorted(r[0] for r in rows[1:])
        ctx.case(inp, True)
        ctx.count("failing_evaluation_while_another_is_in_process")
        if alive:
            ctx.violation("C16 violated: a call is still blocked 30 s after every other call returned", inp, key={"kind": "blocked"})
        elif got.count("s1") != 1:
            ctx.violation(f"C16 violated: s1 was submitted twice (the second time while the first was still being computed and after another call had failed); the file holds rows {got}",
                          inp, impl={"rows": got, "errors": errs}, key={"kind": "duplicate"})
    finally:
        shutil.rmtree(d, ignore_errors=True)


def rand_case(ctx, tag, i):
    rng = ctx.rng
    N = rng.choice([2, 2, 3, 3, 4])
    pool = rng.sample(POOL_NAMES, rng.randint(1, 4))
    names, kinds = [], []
    for _ in range(N):
        if rng.random() < 0.2 and "eval" in kinds:
            kinds.append("stat")
            names.append(pool[0])
        else:
            kinds.append("eval")
            names.append(rng.choice(pool))
    L = rng.randint(4, 12 * N)
    mode = rng.random()
    if mode < 0.5:
        sched = [rng.randrange(N) for _ in range(L)]
    else:
        # bursts: long runs of one thread interrupted at random places
        sched = []
        while len(sched) < L:
            sched += [rng.randrange(N)] * rng.randint(1, 5)
    old = []
    if rng.random() < 0.3:
        # an earlier, finished session already recorded some subjects (incl. ones whose rows contain empty cells)
        old = rng.sample(["s 3", "s-4", "s1", "s2"], rng.randint(1, 3))
        ctx.count("resumed_file")
    one_schedule(ctx, names, kinds, sched, f"{tag}{i}", old=old)


def run(ctx):
    lock_mod = type(aggsched._REAL["filelock"]).__module__
    ctx.extra["module_lock_type"] = lock_mod + "." + type(aggsched._REAL["filelock"]).__name__
    if not lock_mod.startswith("multiprocessing"):
        ctx.disagree("module-level locks are process-shared (multiprocessing.Lock)", {"lock_type": lock_mod}, lock_mod, "multiprocessing.synchronize.Lock")
    import multiprocessing as _mp
    ctx.extra["start_method_after_import"] = _mp.get_start_method(allow_none=True)
    if os.name == "posix" and _mp.get_start_method(allow_none=True) != "fork":
        # the model's worker processes inherit the two module locks (fork); any other start method gives every worker its own pair
        ctx.disagree("worker processes inherit the module-level locks (start method fork on posix)", {"start_method": _mp.get_start_method(allow_none=True)},
                     _mp.get_start_method(allow_none=True), "fork")
    # before anything in this process has used the module's two locks: forked workers on an aggregator constructed with continue_file=False
    for k in range(ctx.scale(2, 6)):
        fork_run(ctx, 4, ["dup", "dup", "dup", "solo_a"], 0.3, f"fork.first{k}", continue_file=False)
    # all interleavings of the first three actions of two colliding threads, then run to completion
    for sched in sorted(set(itertools.permutations([0, 0, 0, 1, 1, 1]))):
        one_schedule(ctx, ["dup", "dup"], ["eval", "eval"], list(sched), "exh3x3")
    ctx.extra["exhaustive_subspace"] = "all 20 interleavings of the first 3 actions (acquire, read, claim/skip) of two colliding evaluate() calls"
    # names that differ only by characters a tolerant reader might strip (byte-order mark, ideographic space, case)
    for first in ("\ufeffs1", "\u3000s2", "s1\ufeff"):
        for sched in ([0] * 9 + [1] * 9 + [2] * 9, [0, 1] * 10 + [2] * 9, [2] * 9 + [0] * 9 + [1] * 9):
            one_schedule(ctx, [first, first, first.strip("\ufeff\u3000")], ["eval", "eval", "eval"], list(sched), "corpus.lookalike-names")
    for i in range(ctx.scale(250, 4000)):
        rand_case(ctx, "rand", i)
    for stage in ("map", "match"):
        evaluation_interleaving(ctx, stage, f"inner.{stage}")
    for k in range(ctx.scale(2, 6)):
        failing_evaluation_overlap(ctx, f"failing{k}")
    for k in range(ctx.scale(1, 6)):
        pool_run(ctx, 6, 3, f"pool{k}")
    for k in range(ctx.scale(1, 4)):
        locale_case(ctx, f"locale{k}")
    for k in range(ctx.scale(3, 15)):
        slow_group_threads(ctx, 4, f"slowgroups{k}")
    for k in range(ctx.scale(3, 30)):
        fork_run(ctx, 5, ["dup", "dup", "dup", "solo_a", "solo_b"], 0.15, f"fork{k}")
    for k in range(ctx.scale(2, 10)):
        default_context_run(ctx, ["dup", "dup", "dup", "solo_a"], 0.25, f"dflt{k}")


def search(ctx):
    for i in range(ctx.scale(500, 3000)):
        rand_case(ctx, "search", i)
    for k in range(5):
        fork_run(ctx, 5, ["dup", "dup", "dup", "solo_a", "solo_b"], 0.3, f"forksearch{k}")
    for k in range(5):
        default_context_run(ctx, ["dup", "dup", "dup", "solo_a"], 0.4, f"dfltsearch{k}")


def replay(ctx, rec):
    i = rec["input"]
    if str(i.get("mode", "")).startswith("child interpreter with LC_ALL=C"):
        locale_case(ctx, "replay")
        return
    if i.get("mode") == "default-context-processes":
        for k in range(3):
            default_context_run(ctx, i["names"], i["delay"], "replay")
        return
    if i.get("mode") == "evaluation-interleaving":
        evaluation_interleaving(ctx, i.get("held_at", "map"), "replay")
        return
    if i.get("mode") == "threads+slow-groups":
        for k in range(5):
            slow_group_threads(ctx, i.get("threads", 4), "replay")
        return
    if i.get("mode") == "pool":
        pool_run(ctx, len(set(i["names"])), len(i["names"]) // len(set(i["names"])), "replay")
        return
    if i.get("mode") == "failing-overlap":
        failing_evaluation_overlap(ctx, "replay")
        return
    if i.get("mode") == "fork":
        fork_run(ctx, len(i["names"]), i["names"], i["delay"], "replay", continue_file=i.get("continue_file", True))
    else:
        one_schedule(ctx, i["names"], i["kinds"], i["schedule"], "replay", old=i.get("old", []))
