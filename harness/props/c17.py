"""C17 — aggregation survives crashes, restarts and neighbouring aggregators."""
from __future__ import annotations
import os, shutil, csv, builtins
import numpy as np
import impl, aggsched
from impl import quiet
from common import VERIF
import panoptica.panoptica_aggregator as PA
from props.c16 import mk_evaluator, subject_arrays, workdir, reference_row

RULE = ("resume in a child interpreter with a non-UTF-8 locale and non-ASCII subject names; several aggregator objects in one interpreter sharing one evaluator object (re-created on the same file, a neighbour with other options); histories of 1-3 aggregator sessions on one output file under the controlled scheduler: every session = "
        "constructor (each file/lock operation a step) followed by 1-3 evaluate() threads under a random schedule, cut by "
        "a crash (kill: threads and locks vanish, files stay) at a random point incl. inside the constructor; the last "
        "session resubmits all subjects and runs to completion; initial file states {absent, empty, header only, "
        "header + rows (+ stale buffer)}; compared step by step with the Lean machine and judged at the end against an "
        "uninterrupted run; plus pairs of aggregators on sibling output files (plain and dotted names) in one directory; "
        "non-trivial = a crash strictly between two file operations, or two aggregators in one directory")

SUBJECTS = ["s1", "s2", "s 3", "s-4"]


def ctor_ops(label, st):
    """model constructor steps corresponding to one implementation action"""
    if label in (("write", "out"), ("readrow", "out")) and not st.get("checked"):
        st["checked"] = True
        return 2
    if label == ("touch", "buf"):
        n = 1 if st.get("removed") else 2
        return n
    if label == ("remove", "buf"):
        st["removed"] = True
    return 1


def run_history(ctx, init, sessions, src, rename=None):
    """init: one of absent/empty/header/rows/rows+buffer; sessions: list of dicts
       {subjects: [...], schedule: [...], crash_after: int | None}; rename: canonical subject name -> name actually submitted"""
    with quiet():
        _run_history(ctx, init, sessions, src, rename)


# the same histories with subject names that contain one another (the canonical names of the model stay s1.. in the record)
CONTAINED = {"s1": "case_10", "s2": "case_1", "s 3": "case", "s-4": "e_1"}
CONTAINED2 = {"s1": "10", "s2": "1", "s 3": "0", "s-4": "subject"}
QUOTED = {"s1": 'sub-01 "repeat scan"', "s2": 'sub-02 5" coil', "s 3": "sub-03", "s-4": '"sub-04"'}


def _run_history(ctx, init, sessions, src, rename=None):
    inp = {"init": init, "sessions": sessions, "src": src}
    if rename:
        inp["rename"] = rename
    ren = (rename or {}).get
    act = lambda n: ren(n, n)
    inv = {v: k for k, v in (rename or {}).items()}
    d = workdir("c17")
    H = aggsched.Harness(d)
    uniq = SUBJECTS
    code = {n: i + 1 for i, n in enumerate(uniq)}
    try:
        # ---- initial file state
        minit = {"out_exists": False, "hdr": False, "rows": [], "buf_exists": False, "buf": []}
        if init == "empty":
            builtins.open(H.out, "w").close()
            minit["out_exists"] = True
        elif init in ("header", "rows", "rows+buffer"):
            H.uninstall()
            agg0 = PA.Panoptica_Aggregator(mk_evaluator(), H.out)
            if init != "header":
                a, b = subject_arrays(code["s1"])
                agg0.evaluate(a, b, act("s1"))
                minit["rows"] = [code["s1"]]
            if os.path.exists(H.buf) and init != "rows+buffer":
                os.remove(H.buf)
            if init == "rows+buffer":
                with builtins.open(H.buf, "a") as f:
                    f.write(act("s2") + "\n")          # stale claim of a killed run
                minit["buf_exists"], minit["buf"] = True, [code["s1"], code["s2"]]
            H.install()
            minit["out_exists"], minit["hdr"] = True, True
        ops, obs = [], []
        crash_between = False

        def observe():
            o = H.observe()
            if rename:
                o["rows"] = [inv.get(x, x) for x in o["rows"]]
                o["buf"] = [inv.get(x, x) for x in o["buf"]]
            return o

        def record():
            obs.append((len(ops) - 1, observe()))

        for si, sess in enumerate(sessions):
            subs = sess["subjects"]
            N = len(subs)
            ev = aggsched.EvProxy(mk_evaluator(), lambda: H.C)
            box = {}
            ops.append(["new", ["eval"] * N])
            H.C.spawn("ctor", lambda: box.__setitem__("agg", PA.Panoptica_Aggregator(ev, H.out)))
            cst = {}
            budget = sess.get("crash_after")
            steps = 0
            crashed = False
            while "ctor" not in H.C.done:
                if budget is not None and steps == budget:
                    crashed = True
                    break
                label = H.C.at["ctor"]
                H.C.step("ctor")
                for _ in range(ctor_ops(label, cst)):
                    ops.append(["ctor"])
                steps += 1
                record()
            if "ctor" in H.C.exc:
                ctx.violation(f"constructor raised {type(H.C.exc['ctor']).__name__}: {H.C.exc['ctor']}", inp, key={"kind": "ctor-raises"})
                return
            if not crashed:
                agg = box["agg"]
                for i, nm in enumerate(subs):
                    a, b = subject_arrays(code[nm])
                    H.C.spawn(i, (lambda a=a, b=b, nm=act(nm): agg.evaluate(a, b, nm)))
                sched = list(sess["schedule"])
                k = 0
                while True:
                    if budget is not None and steps == budget:
                        crashed = True
                        break
                    if k < len(sched):
                        i = sched[k]
                    elif budget is None and any(j not in H.C.done for j in range(N)) and k < len(sched) + 40 * N:
                        i = k % N
                    else:
                        break
                    k += 1
                    did = H.C.step(i)
                    ops.append(["thread", i])
                    if did == ("write", "out"):
                        ops.append(["thread", i])
                    steps += 1
                    record()
            if crashed or budget is not None or si < len(sessions) - 1:
                # a non-final session that ran to completion ends like a process exit without cleanup
                before = observe()
                if any(j not in H.C.done for j in list(H.C.gates)):
                    crash_between = True
                ops.append(["crash"])
                H.crash()
                record()
            else:
                for i, e in H.C.exc.items():
                    ctx.violation(f"thread {i} raised {type(e).__name__}: {e}", inp, key={"kind": "thread-raises"})
        final = observe()
        ctx.case(inp, crash_between, sample=inp)
        if rename:
            ctx.count("subject_names_containing_one_another")
        ctx.count("init." + init)
        ctx.count(f"sessions.{len(sessions)}")
        if crash_between:
            ctx.count("crash_between_file_operations")
        # ---- property oracle
        last = sessions[-1]
        want = sorted(set(last["subjects"]) | ({"s1"} if init in ("rows", "rows+buffer") else set()))
        fails = []
        if final["hdrs"] != 1:
            fails.append(f"header present {final['hdrs']} times after restart (initial state {init})")
        if sorted(final["rows"]) != want:
            fails.append(f"after kill + restart + resubmission the file must hold exactly one row for each of {want}, but holds rows for {sorted(final['rows'])}")
        else:
            for r in final["raw_rows"]:
                if r != reference_row(r[0], code[inv.get(r[0], r[0])]):
                    fails.append(f"row of {r[0]} differs from an uninterrupted run")
        if fails:
            ctx.violation("C17 violated: " + fails[0], inp, impl={k2: final[k2] for k2 in ("hdrs", "rows", "buf")}, key={"kind": "restart"})
        # ---- correspondence
        names = [code[n] for n in sessions[0]["subjects"]]
        # thread->subject assignment may differ between sessions: the model takes one `name` function, so histories
        # are generated with the same subject list (possibly truncated) in every session
        trace = ctx.driver().ask({"op": "agg_trace", "init": minit, "names": [code[n] for n in max((s["subjects"] for s in sessions), key=len)], "ops": ops})
        for idx, o in obs:
            m = trace[idx]
            mrows = [uniq[r[0] - 1] for r in m["rows"]]
            mbuf = [uniq[b - 1] for b in m["buf"]]
            diff = None
            if o["out_exists"] != m["out_exists"] or o["hdrs"] != m["hdrs"]:
                diff = ("output file existence/header count", [o["out_exists"], o["hdrs"]], [m["out_exists"], m["hdrs"]])
            elif o["rows"] != mrows:
                diff = ("output rows", o["rows"], mrows)
            elif o["buf_exists"] != m["buf_exists"] or (o["buf"] != mbuf):
                diff = ("buffer file", [o["buf_exists"], o["buf"]], [m["buf_exists"], mbuf])
            elif (o["l1"] is None) != (m["l1"] is None) or (o["l2"] is None) != (m["l2"] is None):
                diff = ("lock state", [o["l1"], o["l2"]], [m["l1"], m["l2"]])
            if diff:
                ctx.disagree(f"{diff[0]} after operation {idx} ({ops[idx]})", inp, diff[1], diff[2])
                break
    finally:
        H.C.abandon_all()
        H.uninstall()
        shutil.rmtree(d, ignore_errors=True)


def siblings(ctx, n1, n2, src):
    inp = {"mode": "siblings", "files": [n1, n2], "src": src}
    d = workdir("c17sib")
    try:
        with quiet():
            a1 = PA.Panoptica_Aggregator(mk_evaluator(), os.path.join(d, n1))
            x, y = subject_arrays(1)
            a1.evaluate(x, y, "s1")
            a2 = PA.Panoptica_Aggregator(mk_evaluator(), os.path.join(d, n2))
            a2.evaluate(x, y, "s1")
            x2, y2 = subject_arrays(2)
            a2.evaluate(x2, y2, "s2")
            try:
                a1.evaluate(x2, y2, "s2")
                a1.evaluate(x, y, "s1")
                err = None
            except Exception as e:
                err = f"{type(e).__name__}: {str(e)[:160]}"
        ctx.case(inp, True, sample=inp)
        ctx.count("sibling_pairs")
        if err:
            ctx.violation(f"C17 violated: after a neighbouring aggregator was created and used on {n2}, the aggregator on {n1} can no longer record its subjects: {err}", inp,
                          key={"kind": "siblings"})
            return
        for n in (n1, n2):
            p = os.path.join(d, n if n.endswith(".tsv") else n + ".tsv")
            with builtins.open(p, newline="") as f:
                rows = list(csv.reader(f, delimiter="\t"))
            got = sorted(r[0] for r in rows[1:])
            if rows[0][0] != "subject_name" or got != ["s1", "s2"]:
                ctx.violation(f"C17 violated: {n} should contain exactly one row per subject ['s1', 's2'] but contains rows for {got} "
                              f"(a neighbouring aggregator in the same directory interfered)", inp, impl=got, key={"kind": "siblings"})
        bufs = sorted(f for f in os.listdir(d) if "aggregator_tmp" in f)
        ctx.extra.setdefault("buffer_files_seen", [])
        if bufs not in ctx.extra["buffer_files_seen"]:
            ctx.extra["buffer_files_seen"].append(bufs)
        if len(bufs) != 2:
            ctx.disagree("one private buffer file per output file", inp, bufs, "2 distinct buffer files")
    finally:
        shutil.rmtree(d, ignore_errors=True)


def suffixless_sessions(ctx, src):
    """the output file named without extension (the constructor's message: "Either delete it or give .tsv as extension"):
    the table is <name>.tsv; a first session, a second aggregator on the same name (continuing), everything resubmitted"""
    import tempfile
    d = tempfile.mkdtemp(prefix="c17nosuffix")          # the extension test looks at the whole path: no dot anywhere in it
    inp = {"mode": "suffixless", "name": "results", "sessions": [["s1"], ["s1", "s2"]], "src": src, "dot_free_dir": "." not in d}
    ctx.case(inp, True, sample=inp)
    ctx.count("suffixless_output_name")
    try:
        if "." in d:
            ctx.notes.append("no dot-free scratch directory available for the suffix-less output name")
            return
        err = None
        try:
            with quiet():
                for sess in inp["sessions"]:
                    agg = PA.Panoptica_Aggregator(mk_evaluator(), os.path.join(d, "results"))
                    for k, nm in enumerate(["s1", "s2"]):
                        if nm in sess:
                            x, y = subject_arrays(k + 1)
                            agg.evaluate(x, y, nm)
        except Exception as e:      # noqa
            err = f"{type(e).__name__}: {str(e)[:120]}"
        files = sorted(os.listdir(d))
        rows = []
        if os.path.exists(os.path.join(d, "results.tsv")):
            with builtins.open(os.path.join(d, "results.tsv"), newline="") as f:
                rows = list(csv.reader(f, delimiter="\t"))
        hdrs = sum(1 for r in rows if r and r[0] == "subject_name")
        got = sorted(r[0] for r in rows if r and r[0] != "subject_name")
        if err:
            ctx.violation(f"C17 violated: with the output file named without extension, creating the aggregator / evaluating raised {err} "
                          f"(files present: {files})", inp, impl={"files": files, "error": err}, key={"kind": "suffixless"})
        elif hdrs != 1 or got != ["s1", "s2"] or (rows and rows[0][0] != "subject_name"):
            ctx.violation(f"C17 violated: output named without extension, two sessions: results.tsv holds {hdrs} header line(s) and rows for {got}, "
                          f"expected the header once and one row for each of ['s1', 's2'] (files present: {files})", inp,
                          impl={"files": files, "rows": got, "headers": hdrs}, key={"kind": "suffixless"})
        else:
            for r in rows[1:]:
                if r != reference_row(r[0], {"s1": 1, "s2": 2}[r[0]]):
                    ctx.violation(f"C17 violated: output named without extension: row of {r[0]} differs from an uninterrupted run", inp, key={"kind": "suffixless"})
    finally:
        shutil.rmtree(d, ignore_errors=True)


def shared_evaluator_sessions(ctx, lt1, lt2, src):
    """several aggregator objects in one interpreter sharing ONE evaluator object (a re-run cell, a loop over model
    outputs): re-creating an aggregator on its own output file must work, and a neighbour on another file must get
    exactly the columns its own options ask for"""
    inp = {"mode": "shared-evaluator", "log_times": [lt1, lt2], "src": src}
    d = workdir("c17shared")
    try:
        with quiet():
            ev = mk_evaluator()
            keys = list(mk_evaluator().resulting_metric_keys)        # what a fresh evaluator of this configuration advertises
            groups = list(ev.segmentation_class_groups_names)
            out, other = os.path.join(d, "run.tsv"), os.path.join(d, "other.tsv")
            x, y = subject_arrays(1)
            x2, y2 = subject_arrays(2)
            err = None
            try:
                a1 = PA.Panoptica_Aggregator(ev, out, log_times=lt1)
                a1.evaluate(x, y, "s1")
                a2 = PA.Panoptica_Aggregator(ev, out, log_times=lt1)      # the same cell run again
                a2.evaluate(x, y, "s1")
                a2.evaluate(x2, y2, "s2")
                b = PA.Panoptica_Aggregator(ev, other, log_times=lt2)
                b.evaluate(x, y, "s1")
                a3 = PA.Panoptica_Aggregator(ev, out, log_times=lt1)      # and once more after the neighbour was created
                a3.evaluate(x2, y2, "s2")
            except Exception as e:
                err = f"{type(e).__name__}: {e}"
        ctx.case(inp, True, sample=inp)
        ctx.count("shared_evaluator_sessions")
        if err:
            ctx.violation(f"C17 violated: an aggregator could not be created again / used on its own output file with the same evaluator object: {err}",
                          inp, key={"kind": "shared-evaluator"})
            return
        for path, lt, want_rows in ((out, lt1, ["s1", "s2"]), (other, lt2, ["s1"])):
            with builtins.open(path, newline="") as f:
                rows = list(csv.reader(f, delimiter="\t"))
            cols = keys + (["computation_time"] if lt else [])
            want_hdr = ["subject_name"] + [f"{g}-{m}" for g in groups for m in cols]
            got = sorted(r[0] for r in rows[1:])
            if rows[0] != want_hdr:
                extra = [c for c in rows[0] if c not in want_hdr]
                ctx.violation(f"C17 violated: header of {os.path.basename(path)} (log_times={lt}) has {len(rows[0])} columns instead of {len(want_hdr)}"
                              f" (unexpected: {extra[:4]}) after other aggregators used the same evaluator object", inp, impl=rows[0][-4:],
                              key={"kind": "shared-evaluator"})
            elif got != want_rows or any(len(r) != len(want_hdr) for r in rows[1:]):
                ctx.violation(f"C17 violated: {os.path.basename(path)} holds rows {got} (expected {want_rows}, each with {len(want_hdr)} cells)",
                              inp, impl=got, key={"kind": "shared-evaluator"})
    finally:
        shutil.rmtree(d, ignore_errors=True)


class _FailingEv:
    """the real evaluator behind a switch: while `fail` is set, evaluate() dies the way an interrupted computation does"""

    def __init__(self, real):
        self._real, self.fail = real, False

    @property
    def segmentation_class_groups_names(self):
        return self._real.segmentation_class_groups_names

    @property
    def resulting_metric_keys(self):
        return self._real.resulting_metric_keys

    def evaluate(self, *a, **k):
        if self.fail:
            raise RuntimeError("evaluation interrupted")
        return self._real.evaluate(*a, **k)


def two_handles_history(ctx, names, n_b, src):
    """two aggregator handles on ONE output file in one interpreter: handle A claims names[0] and its evaluation dies; a second
    handle B is created on the same file (which rebuilds the claims from the rows) and finishes the next n_b subjects; then
    everything is resubmitted to A and to B. One row per subject, equal to an uninterrupted run — whatever A remembers."""
    inp = {"mode": "two-handles", "names": names, "n_b": n_b, "src": src}
    d = workdir("c17two")
    try:
        err = None
        with quiet():
            ev = _FailingEv(mk_evaluator())
            out = os.path.join(d, "run.tsv")
            try:
                a = PA.Panoptica_Aggregator(ev, out)
                ev.fail = True
                try:
                    a.evaluate(*subject_arrays(1), names[0])
                except RuntimeError:
                    pass
                ev.fail = False
                b = PA.Panoptica_Aggregator(ev, out)
                for k, n in enumerate(names[1:1 + n_b]):
                    b.evaluate(*subject_arrays(k + 2), n)
                for h in (a, b, a):
                    for k, n in enumerate(names):
                        h.evaluate(*subject_arrays(k + 1), n)
            except Exception as e:
                err = f"{type(e).__name__}: {str(e)[:200]}"
        ctx.case(inp, True, sample=inp)
        ctx.count("two_handles_histories")
        if err:
            ctx.violation(f"C17 violated: resubmitting the subjects to two aggregator handles on one output file raised {err}", inp, key={"kind": "two-handles"})
            return
        with builtins.open(out, newline="") as f:
            rows = list(csv.reader(f, delimiter="\t"))
        got = sorted(r[0] for r in rows[1:])
        if got != sorted(names):
            ctx.violation(f"C17 violated: after an interrupted evaluation, a second handle on the same file and a complete resubmission the file holds rows {got}, "
                          f"expected one each for {sorted(names)}", inp, impl=got, key={"kind": "two-handles"})
            return
        for r in rows[1:]:
            k = names.index(r[0]) + 1
            if r != reference_row(r[0], k):
                ctx.violation(f"C17 violated: the row of {r[0]!r} differs from the row of an uninterrupted run", inp, impl=r[:6], key={"kind": "two-handles"})
                return
    finally:
        shutil.rmtree(d, ignore_errors=True)


def locale_resume(ctx, src):
    """resume in a process whose locale encoding is not UTF-8, with non-ASCII subject names already in the file"""
    from props.c16 import locale_sessions
    inp, out, want = locale_sessions(ctx, "C17", src)
    if out is None:
        return
    got = sorted(r[0] for r in out["rows"][1:])
    if any(e.startswith("constructor") for e in out["errors"]):
        ctx.violation(f"C17 violated under a non-UTF-8 locale: an aggregator could not be created again on its own output file ({sorted(set(out['errors']))})",
                      inp, impl=out["errors"], key={"kind": "locale"})
    elif out["errors"] or got != sorted(want):
        ctx.violation(f"C17 violated under a non-UTF-8 locale: after resubmitting all subjects the file holds rows for {got} (expected {sorted(want)}); "
                      f"errors {sorted(set(out['errors']))}", inp, impl=got, key={"kind": "locale"})
    elif len(out["rows"]) and out["rows"][0][0] != "subject_name":
        ctx.violation("C17 violated under a non-UTF-8 locale: header missing", inp, key={"kind": "locale"})


def rand_history(ctx, tag, i):
    rng = ctx.rng
    init = rng.choice(["absent", "empty", "header", "rows", "rows+buffer"])
    subs = sorted(rng.sample(SUBJECTS, rng.randint(1, 3)), key=SUBJECTS.index)
    n_sess = rng.choice([1, 2, 2, 3])
    sessions = []
    for s in range(n_sess):
        N = len(subs)
        sched = [rng.randrange(N) for _ in range(rng.randint(0, 10 * N))]
        last = s == n_sess - 1
        sessions.append({"subjects": subs, "schedule": sched if not last else sched,
                         "crash_after": None if last else rng.randint(0, 10 + len(sched))})
    run_history(ctx, init, sessions, f"{tag}{i}", rename=rng.choice([None, None, CONTAINED, CONTAINED2]))


def run(ctx):
    # every crash point of a one-subject session, for every initial state
    for init in ("absent", "empty", "header", "rows", "rows+buffer"):
        for cp in range(0, 20):
            run_history(ctx, init, [{"subjects": ["s2"], "schedule": [0] * 12, "crash_after": cp},
                                    {"subjects": ["s2"], "schedule": [], "crash_after": None}], f"allcrash.{init}.{cp}")
    # finished subjects whose rows legitimately contain empty cells (empty prediction / empty reference), then a
    # killed session, then a restart that resubmits everything
    for cp in (11, 14, 16, 19):
        run_history(ctx, "absent", [{"subjects": ["s 3", "s-4", "s2"], "schedule": [0] * 10 + [1] * 10, "crash_after": None},
                                    {"subjects": ["s 3", "s-4", "s2"], "schedule": [2] * 6, "crash_after": cp},
                                    {"subjects": ["s 3", "s-4", "s2"], "schedule": [], "crash_after": None}], f"emptycells.{cp}")
    # subject names contained in one another, the longer one finished (or claimed) first; one session and kill + restart
    for ren in (CONTAINED, CONTAINED2, QUOTED):
        for init in ("absent", "rows", "rows+buffer"):
            run_history(ctx, init, [{"subjects": ["s1", "s2", "s 3", "s-4"], "schedule": [0] * 12 + [1] * 12 + [2] * 12 + [3] * 12, "crash_after": None}],
                        f"contained.{init}", rename=ren)
            run_history(ctx, init, [{"subjects": ["s1", "s2", "s 3"], "schedule": [0] * 12 + [1] * 3, "crash_after": 18},
                                    {"subjects": ["s1", "s2", "s 3"], "schedule": [], "crash_after": None}], f"contained.restart.{init}", rename=ren)
    ctx.extra["exhaustive_subspace"] = "every crash point (0..19 actions) of a one-subject session x 5 initial file states, followed by a complete restart"
    for i in range(ctx.scale(120, 2500)):
        rand_history(ctx, "rand", i)
    pairs = [("x.tsv", "y.tsv"), ("run.fold1.tsv", "run.fold2.tsv"), ("a.b.c.tsv", "a.b.d.tsv"), ("result.tsv", "results.tsv"),
             ("test.tsv", "tests.tsv"), ("fold_s.tsv", "fold_t.tsv"), ("v.tsv", "vv.tsv")]
    rng = ctx.rng
    for _ in range(ctx.scale(6, 60)):
        # random sibling names over an alphabet biased to the characters of ".tsv"
        base = "".join(rng.choice("abtsv._12") for _ in range(rng.randint(1, 6))).strip(".") or "a"
        a = base + rng.choice(["", "s", "t", "v", ".t", "_1", ".s"])
        b = base + rng.choice(["x", "ts", "vs", ".v", "_2", "ss"])
        if a != b and not a.endswith(".") and not b.endswith("."):
            pairs.append((a + ".tsv", b + ".tsv"))
    for n1, n2 in pairs:
        siblings(ctx, n1, n2, f"sib.{n1}.{n2}")
    locale_resume(ctx, "locale")
    suffixless_sessions(ctx, "suffixless")
    for lt1 in (False, True):
        for lt2 in (False, True):
            shared_evaluator_sessions(ctx, lt1, lt2, f"shared.{lt1}.{lt2}")
    for names, n_b in ((["sub-01", "sub-02"], 1), (["sub-01", "sub-02", "sub-03"], 1), (["sub-01", "sub-02", "sub-03"], 2), (["a", "bb", "c"], 1), (["s1", "s2", "s 3", "s-4"], 2)):
        two_handles_history(ctx, names, n_b, "two-handles")


def search(ctx):
    for i in range(ctx.scale(300, 2000)):
        rand_history(ctx, "search", i)


def replay(ctx, rec):
    if str(rec["input"].get("mode", "")).startswith("child interpreter with LC_ALL=C"):
        locale_resume(ctx, "replay")
        return
    if rec["input"].get("mode") == "shared-evaluator":
        shared_evaluator_sessions(ctx, rec["input"]["log_times"][0], rec["input"]["log_times"][1], "replay")
        return
    i = rec["input"]
    if i.get("mode") == "two-handles":
        two_handles_history(ctx, i["names"], i["n_b"], "replay")
        return
    if i.get("mode") == "suffixless":
        suffixless_sessions(ctx, "replay")
        return
    if i.get("mode") == "siblings":
        siblings(ctx, i["files"][0], i["files"][1], "replay")
    else:
        run_history(ctx, i["init"], i["sessions"], "replay", rename=i.get("rename"))
