"""C18 — what the aggregator writes is what the statistics loader reads."""
from __future__ import annotations
import os, math, shutil, csv, builtins, string
import numpy as np
import impl, gen, evalutil as E
from impl import quiet, Panoptica_Aggregator, Panoptica_Statistic
from common import VERIF
from props.c08 import rand_handler
from props.c12 import extract

RULE = ("make_statistic() before and after another writer (second aggregator object, forked process) appended to the file; write + load in a child interpreter with a non-UTF-8 locale and non-ASCII subject names; evaluator save_group_times and aggregator log_times chosen independently; subjects with a large almost perfectly segmented structure (values of the order 1e-5, written with an exponent); real evaluator -> real aggregator -> real statistics loader: 1-4 class groups with names over letters, digits, "
        "space, '-', '_', upper case; subject names over printable ASCII incl. tab-free punctuation, quotes, commas, "
        "'subject_name', leading '-'; metric selections (instance and global); results forced to NaN / inf / None / "
        "uncomputable through edge-case handlers and empty sides; several aggregators from one evaluator incl. "
        "log_times; every value compared bit-for-bit with PanopticaResult.to_dict and with the Lean table model; "
        "non-trivial = >= 2 groups with at least one missing value, or a name containing a delimiter character")

GNAMES = ["organ", "Lesion", "my-grp", "grp_2", "Upper Case", "a-b-c", "x_y-z", "g 1"]
SUBJ = ["Case_A", "case_a", "s1", "subject_name", "a,b", 'q"uote', "with space", "-dash-", "x-y_z", "Ünï", "1", "s1 ", "tab?no", "semi;colon", "'single'", "#hash"]


def classify(v):
    if v is None:
        return None
    try:
        f = float(v)
    except (TypeError, ValueError):
        return None
    return None if (math.isnan(f) or math.isinf(f)) else f


def one_case(ctx, groups, cfg, gm, subjects, arrays, log_times, src, n_aggs=1, sgt=None):
    sgt = log_times if sgt is None else sgt         # the evaluator's save_group_times is independent of the aggregator's log_times
    inp = {"groups": groups, "cfg": cfg, "global_metrics": gm, "subjects": subjects, "log_times": log_times, "save_group_times": sgt, "n_aggs": n_aggs,
           "arrays": [[list(p.shape), gen.arr_json(p), gen.arr_json(r)] for p, r in arrays], "src": src}
    d = VERIF / ".work" / f"c18_{os.getpid()}"
    shutil.rmtree(d, ignore_errors=True)
    d.mkdir(parents=True)
    try:
        with quiet(), np.errstate(all="ignore"):
            ev = impl.mk_evaluator(cfg, groups=groups, global_metrics=gm, save_group_times=sgt)
            out = None
            for k in range(n_aggs):
                out = str(d / f"cohort{k}.tsv")
                agg = Panoptica_Aggregator(ev, out, log_times=log_times)
                expected = {}
                for s, (p, r) in zip(subjects, arrays):
                    res = ev.evaluate(p, r)
                    expected[s] = {g: res[g][0].to_dict() for g in res}
                    agg.evaluate(p, r, s)
        gnames = [g["name"].lower() for g in groups] if groups else ["ungrouped"]
        missing_any = False
        try:
            with quiet():
                st = Panoptica_Statistic.from_file(out)
        except Exception as e:
            ctx.case(inp, True)
            ctx.violation(f"C18 violated: statistics loader failed on the aggregator's own output: {type(e).__name__}: {e}", inp,
                          key={"kind": "loader-fails"})
            return
        fails = []
        if sorted(st.groupnames) != sorted(gnames):
            fails.append(f"groups read back {sorted(st.groupnames)} differ from the evaluator's groups {sorted(gnames)}")
        elif sorted(st.subjectnames) != sorted(subjects):
            fails.append(f"subjects read back {st.subjectnames} differ from the subjects written {subjects}")
        else:
            for s in subjects:
                with quiet():
                    one = st.get_one_subject(s)
                for g in gnames:
                    for m in st.metricnames:
                        if m == "computation_time":
                            continue
                        want = classify(expected[s][g].get(m))
                        got = one[g][m]
                        if want is None:
                            missing_any = True
                        if not ((want is None and got is None) or (want is not None and got is not None and float(got) == want)):
                            fails.append(f"value of {m} for subject {s!r}, group {g!r}: result reports {expected[s][g].get(m)!r}, loader returns {got!r}")
                    for m in expected[s][g]:
                        if m not in st.metricnames:
                            fails.append(f"metric {m} reported by the result is not a column of the file")
        delim = any(any(c in n for c in "-, \"'") for n in gnames + subjects)
        ctx.case(inp, (len(gnames) >= 2 and missing_any) or delim, sample={k2: inp[k2] for k2 in ("groups", "subjects", "global_metrics")})
        ctx.count(f"groups.{len(gnames)}")
        ctx.count("log_times" if log_times else "no_log_times")
        ctx.count(f"save_group_times={sgt}.log_times={log_times}")
        if any(abs(float(v)) < 1e-4 or abs(float(v)) >= 1e16 for s_ in subjects for g_ in gnames for v in expected[s_][g_].values()
               if isinstance(v, (int, float)) and v is not None and not isinstance(v, bool) and float(v) == float(v) and float(v) != 0 and abs(float(v)) != float("inf")):
            ctx.count("has_value_written_with_exponent")
        if missing_any:
            ctx.count("has_missing_values")
        if fails:
            ctx.violation("C18 violated: " + fails[0], inp, impl=fails[:3], key={"kind": "roundtrip"})
            return
        # ---- the loaded object is used the way callers use it (summaries built on the returned columns, across-group lists, the
        # printed overview), then everything is read again: what the loader returns for a subject is still what was recorded
        from panoptica.panoptica_statistics import ValueSummary
        def use(f):
            try:
                with quiet(), np.errstate(all="ignore"):
                    f()
            except Exception as e:          # e.g. the summary of a column without any finite value
                ctx.count("summary_use_raised." + type(e).__name__)
        for g in gnames:
            for m in st.metricnames:
                col = st.get(g, m)
                if col and all(v is not None for v in col):
                    use(lambda: ValueSummary(col))
                use(lambda: st.get_summary(g, m))
        for m in list(st.metricnames)[:4]:
            use(lambda: st.get_across_groups(m))
        use(st.get_summary_dict)
        for s in subjects:
            with quiet():
                one = st.get_one_subject(s)
            for g in gnames:
                for m in st.metricnames:
                    if m == "computation_time":
                        continue
                    want, got = classify(expected[s][g].get(m)), one[g][m]
                    if not ((want is None and got is None) or (want is not None and got is not None and float(got) == want)):
                        ctx.violation(f"C18 violated: after summaries were computed from the loaded statistic, the value of {m} for subject {s!r}, group {g!r} reads {got!r}; "
                                      f"the result reported {expected[s][g].get(m)!r}", inp, key={"kind": "roundtrip-after-use"})
                        return
        ctx.count("read_again_after_summaries")
        # ---- correspondence with the Lean table model
        with builtins.open(out, newline="") as f:
            rows = list(csv.reader(f, delimiter="\t"))
        header = rows[0]
        with quiet():
            keys = list(ev.resulting_metric_keys) + (["computation_time"] if log_times else [])
        floats, values = [], []
        for s in subjects:
            cells = []
            for g in gnames:
                for m in keys:
                    if m == "computation_time":
                        cells.append(None)
                        continue
                    v = expected[s][g].get(m, "absent")
                    if isinstance(v, str):
                        cells.append(None)
                    elif v is None:
                        cells.append("none")
                    elif math.isnan(float(v)):
                        cells.append("nan")
                    elif math.isinf(float(v)):
                        cells.append("inf" if v > 0 else "ninf")
                    else:
                        floats.append(float(v))
                        cells.append(len(floats) - 1)
            values.append(cells)
        mod = ctx.driver().ask({"op": "tbl", "groups": gnames, "keys": keys, "subjects": subjects, "values": values})
        if mod["header"] != header:
            ctx.disagree("header cells", inp, header, mod["header"])
            return
        for s, mg in zip(subjects, mod["get"]):
            with quiet():
                one = st.get_one_subject(s)
            j = 0
            for g in gnames:
                for m in keys:
                    mv = mg[j]
                    j += 1
                    if m == "computation_time":
                        continue
                    got = one[g][m]
                    want = None if mv == "missing" else (floats[mv] if isinstance(mv, int) else "no-such-entry")
                    if not ((want is None and got is None) or (isinstance(want, float) and got is not None and float(got) == want)):
                        ctx.disagree(f"loaded value of {m} for {s!r}/{g!r}", inp, got, mv)
                        return
    finally:
        shutil.rmtree(d, ignore_errors=True)


def locale_loader(ctx, src):
    """write and load in a process whose locale encoding is not UTF-8, with non-ASCII subject names: the loader must
    return every subject under its own name with the values of the file"""
    from props.c16 import locale_sessions
    inp, out, want = locale_sessions(ctx, "C18", src)
    if out is None:
        return
    if out["loaded"] is None:
        ctx.violation(f"C18 violated under a non-UTF-8 locale: the statistics loader failed on the aggregator's own output ({sorted(set(out['errors']))})",
                      inp, impl=out["errors"], key={"kind": "loader-fails"})
        return
    hdr = out["rows"][0]
    for r in out["rows"][1:]:
        vals = out["loaded"]["values"].get(r[0])
        if vals is None:
            ctx.violation(f"C18 violated under a non-UTF-8 locale: subject {r[0]!r} is in the file but the loader returns subjects {out['loaded']['subjects']}",
                          inp, impl=out["loaded"]["subjects"], key={"kind": "roundtrip"})
            return
        for cell, h in zip(r[1:], hdr[1:]):
            g, m = h.rsplit("-", 1)
            got = vals[g][m]
            try:
                w = float(cell) if cell != "" else None
            except ValueError:
                w = None
            if w is not None and (w != w or w in (float("inf"), float("-inf"))):
                w = None
            if not ((w is None and got is None) or (w is not None and got is not None and got == w)):
                ctx.violation(f"C18 violated under a non-UTF-8 locale: {m} of subject {r[0]!r}: file holds {cell!r}, loader returns {got!r}", inp,
                              key={"kind": "roundtrip"})
                return


def statistic_after_other_writer(ctx, k):
    """make_statistic() on one aggregator, then another writer (a second aggregator object resuming the file, or a
    forked process using the first) appends a subject, then make_statistic() again: it must reflect the file"""
    import multiprocessing as mp
    rng = ctx.rng
    d = VERIF / ".work" / f"c18w_{os.getpid()}"
    shutil.rmtree(d, ignore_errors=True)
    d.mkdir(parents=True)
    writer = rng.choice(["second-aggregator", "forked-process"])
    inp = {"mode": "statistic-after-other-writer", "writer": writer, "src": f"otherwriter{k}"}
    try:
        cfg = E.mk_cfg("MATCHED", ["IOU", "DSC"])
        arrs = []
        for _ in range(3):
            r = np.zeros((5, 6), np.uint8)
            r[1:4, 1:4] = 1
            p = r.copy()
            p[1, rng.randint(1, 3)] = 0
            arrs.append((p, r))
        out = str(d / "cohort.tsv")
        with quiet(), np.errstate(all="ignore"):
            ev = impl.mk_evaluator(cfg)
            a1 = Panoptica_Aggregator(ev, out)
            a1.evaluate(arrs[0][0], arrs[0][1], "s1")
            first = list(a1.make_statistic().subjectnames)
            if writer == "second-aggregator":
                a2 = Panoptica_Aggregator(impl.mk_evaluator(cfg), out)
                a2.evaluate(arrs[1][0], arrs[1][1], "s2")
            else:
                pr = mp.get_context("fork").Process(target=lambda: a1.evaluate(arrs[1][0], arrs[1][1], "s2"))
                pr.start()
                pr.join(60)
            second = list(a1.make_statistic().subjectnames)
            a1.evaluate(arrs[2][0], arrs[2][1], "s3")
            third = list(a1.make_statistic().subjectnames)
        ctx.case(inp, True)
        ctx.count("statistic_after_other_writer." + writer)
        if sorted(first) != ["s1"] or sorted(second) != ["s1", "s2"] or sorted(third) != ["s1", "s2", "s3"]:
            ctx.violation(f"C18 violated: after another writer ({writer}) appended subject 's2' to the output file, make_statistic() of the first aggregator knows "
                          f"{second} (then {third}); the file holds s1, s2 (then s3)", inp, impl=[first, second, third], key={"kind": "stale-statistic"})
    finally:
        shutil.rmtree(d, ignore_errors=True)


def rand_case(ctx, tag, i):
    rng = ctx.rng
    ng = rng.choice([0, 1, 2, 2, 3, 4])
    labels = list(range(1, 9))
    rng.shuffle(labels)
    groups = None
    if ng:
        names = rng.sample(GNAMES, ng)
        groups = []
        for k, n in enumerate(names):
            groups.append({"name": n, "labels": sorted(labels[2 * k:2 * k + 2]), "merge": rng.random() < 0.2, "single": False})
    used = sorted(l for g in groups for l in g["labels"]) if groups else [1, 2, 3]
    metrics = rng.sample(["IOU", "DSC", "RVD", "ASSD"], rng.randint(1, 4))
    gm = rng.sample(["DSC", "IOU", "RVD"], rng.randint(0, 2))
    hnd = rand_handler(rng, metrics) if rng.random() < 0.7 else None
    cfg = E.mk_cfg("MATCHED", metrics, handler=hnd)
    n = rng.randint(1, 4)
    subjects = rng.sample(SUBJ, n)
    arrays = []
    for _ in range(n):
        shape = (rng.randint(3, 6), rng.randint(3, 6))
        def mk():
            a = np.zeros(shape, np.uint8)
            for _ in range(rng.randint(0, 4)):
                gen.put_object(rng, a, rng.choice(used), kind=rng.choice(["box", "voxel", "line"]))
            return a
        r = mk()
        p = r.copy() if rng.random() < 0.3 else mk()
        if rng.random() < 0.2:
            p = np.zeros_like(p)
        arrays.append((p, r))
    if rng.random() < 0.3:
        # a large, almost perfectly segmented structure: relative volume difference of the order 1e-5, written with an exponent
        side = rng.randint(120, 160)
        r = np.zeros((side + 6, side + 6), np.uint8)
        r[3:3 + side, 3:3 + side] = used[0]
        p = r.copy()
        for _ in range(rng.randint(1, 2)):
            y, x = rng.choice([(3, 3), (2, 3), (3 + side - 1, 3 + side - 1), (3 + side, 3 + side - 1)])
            p[y, x] = used[0] if p[y, x] == 0 else 0
        arrays[rng.randrange(len(arrays))] = (p, r)
    log_times = rng.random() < 0.3
    one_case(ctx, groups, cfg, gm, subjects, arrays, log_times, f"{tag}{i}", n_aggs=rng.choice([1, 1, 2, 3]),
             sgt=rng.random() < 0.4)


def permuted_continuation(ctx, k):
    """history: a second aggregator continues the file of a first one with the same groups listed in another order (or
    with another metric selection); it must either refuse the file or keep every value under its own column"""
    rng = ctx.rng
    names = rng.sample(["alpha", "beta", "ga-mma"], rng.choice([2, 3]))
    labels = {n: [i + 1] for i, n in enumerate(names)}
    order2 = names[:]
    while order2 == names:
        rng.shuffle(order2)
    metrics = ["IOU", "DSC"]
    d = VERIF / ".work" / f"c18h_{os.getpid()}"
    shutil.rmtree(d, ignore_errors=True)
    d.mkdir(parents=True)
    out = str(d / "h.tsv")
    inp = {"history": "permuted-continuation", "groups_first": names, "groups_second": order2, "src": f"hist{k}"}
    ctx.case(inp, True, sample=inp)
    ctx.count("permuted_continuation_histories")
    try:
        def mk(order):
            groups = [{"name": n, "labels": labels[n], "merge": False, "single": False} for n in order]
            return impl.mk_evaluator(E.mk_cfg("MATCHED", metrics), groups=groups, global_metrics=[])
        def arrays(seed):
            r = np.zeros((4, 8), np.uint8)
            p = np.zeros((4, 8), np.uint8)
            for i, n in enumerate(names):
                r[i % 4, 0:4 + i] = labels[n][0]
                p[i % 4, (seed + i) % 3:4 + i] = labels[n][0]
            return p, r
        expected = {}
        with quiet(), np.errstate(all="ignore"):
            ev1 = mk(names)
            a1 = Panoptica_Aggregator(ev1, out)
            p, r = arrays(0)
            expected["subject_1"] = {g: v[0].to_dict() for g, v in ev1.evaluate(p, r).items()}
            a1.evaluate(p, r, "subject_1")
            ev2 = mk(order2)
            try:
                a2 = Panoptica_Aggregator(ev2, out)
            except AssertionError:
                ctx.count("second_aggregator_refused")
                return
            p, r = arrays(1)
            expected["subject_2"] = {g: v[0].to_dict() for g, v in ev2.evaluate(p, r).items()}
            a2.evaluate(p, r, "subject_2")
            st = Panoptica_Statistic.from_file(out)
        for s_, exp in expected.items():
            with quiet():
                one = st.get_one_subject(s_)
            for g in exp:
                for m, v in exp[g].items():
                    want, got = classify(v), one[g][m]
                    if not ((want is None and got is None) or (want is not None and got is not None and float(got) == want)):
                        ctx.violation(f"C18 violated: subject {s_!r} group {g!r} metric {m!r}: result reports {v!r} but the statistics loader reads {got!r} "
                                      f"(a second aggregator with groups {order2} continued a file written with groups {names})", inp,
                                      key={"kind": "roundtrip"})
                        return
    finally:
        shutil.rmtree(d, ignore_errors=True)


def recreated_file_history(ctx, k):
    """history on one path in one process: configuration A creates the table, a second aggregator with A continues it, the
    file is deleted and created again by configuration B (another metric selection), then an aggregator with A is pointed at
    it once more — it must refuse the file or keep every value under its own column"""
    sel_a, sel_b = (["IOU", "DSC"], ["IOU"]) if k % 2 == 0 else (["DSC"], ["IOU", "DSC", "RVD"])
    d = VERIF / ".work" / f"c18r_{os.getpid()}"
    shutil.rmtree(d, ignore_errors=True)
    d.mkdir(parents=True)
    out = str(d / "r.tsv")
    inp = {"history": "recreated-file", "metrics_a": sel_a, "metrics_b": sel_b, "src": f"recreated{k}"}
    ctx.case(inp, True, sample=inp)
    ctx.count("recreated_file_histories")
    try:
        mk = lambda sel: impl.mk_evaluator(E.mk_cfg("MATCHED", sel), global_metrics=[])
        r = np.zeros((4, 8), np.uint8)
        r[1, 0:5] = 1
        r[3, 2:6] = 2
        arrays = lambda s: (np.roll(r, s, axis=1), r)
        expected = {}
        with quiet(), np.errstate(all="ignore"):
            ev_a = mk(sel_a)
            a1 = Panoptica_Aggregator(ev_a, out)
            a1.evaluate(*arrays(0), "s1")
            a2 = Panoptica_Aggregator(ev_a, out)           # continues: reads the header
            a2.evaluate(*arrays(1), "s2")
            os.remove(out)
            ev_b = mk(sel_b)
            b1 = Panoptica_Aggregator(ev_b, out)            # a new table under another configuration
            p, rr = arrays(1)
            expected["t1"] = {g: v[0].to_dict() for g, v in ev_b.evaluate(p, rr).items()}
            b1.evaluate(p, rr, "t1")
            try:
                a3 = Panoptica_Aggregator(ev_a, out)
            except AssertionError:
                ctx.count("recreated_file_refused")
                return
            p, rr = arrays(2)
            expected["s3"] = {g: v[0].to_dict() for g, v in ev_a.evaluate(p, rr).items()}
            a3.evaluate(p, rr, "s3")
            try:
                st = Panoptica_Statistic.from_file(out)
            except Exception as e:      # noqa
                ctx.violation(f"C18 violated: after configuration {sel_a} was accepted on a table re-created under {sel_b}, the loader cannot read the file: "
                              f"{type(e).__name__}: {str(e)[:100]}", inp, key={"kind": "roundtrip"})
                return
        for s_, exp in expected.items():
            try:
                with quiet():
                    one = st.get_one_subject(s_)
            except Exception as e:      # noqa
                ctx.violation(f"C18 violated: subject {s_!r} cannot be read back ({type(e).__name__}) after configuration {sel_a} was accepted on a table "
                              f"re-created under {sel_b}", inp, key={"kind": "roundtrip"})
                return
            for g in exp:
                for m, v in exp[g].items():
                    want = classify(v)
                    got = one.get(g, {}).get(m, "no such column")
                    if not ((want is None and got is None) or (want is not None and got not in (None, "no such column") and float(got) == want)):
                        ctx.violation(f"C18 violated: subject {s_!r} group {g!r} metric {m!r}: result reports {v!r} but the statistics loader reads {got!r} "
                                      f"(configuration {sel_a} was accepted on a table re-created under {sel_b})", inp, key={"kind": "roundtrip"})
                        return
    except Exception as e:      # noqa
        ctx.violation(f"C18 violated: a legitimate step of the history (create, continue with the same configuration, delete, create under another "
                      f"configuration) raised {type(e).__name__}: {str(e)[:100]}", inp, key={"kind": "history-raises"})
    finally:
        shutil.rmtree(d, ignore_errors=True)


def neighbours_and_defaults(ctx):
    """(a) two aggregators alive at once on sibling files whose names differ only after a dot inside the stem (model_0.5.tsv / model_0.7.tsv),
    the same subjects through both; (b) an aggregator on an evaluator that relies on default arguments, another default evaluator with a
    decision metric constructed afterwards: every value a result reports is read back from the file it was written to"""
    d = VERIF / ".work" / f"c18n_{os.getpid()}"
    shutil.rmtree(d, ignore_errors=True)
    d.mkdir(parents=True)
    a1 = np.zeros((4, 8), np.uint8)
    a1[0:2, 0:3], a1[2:4, 4:7] = 1, 2
    subj = {"s1": (np.roll(a1, 1, axis=1), a1), "s2": (a1.copy(), a1), "s3": (np.roll(a1, 2, axis=1), a1)}
    inp = {"neighbours_and_defaults": True}
    ctx.case(inp, True)
    ctx.count("dotted_sibling_files_and_default_arguments")
    try:
        with quiet(), np.errstate(all="ignore"):
            outs, exp = {}, {}
            evs = [impl.Panoptica_Evaluator(expected_input=impl.INPUT["MATCHED"]) for _ in range(2)]
            aggs = [Panoptica_Aggregator(evs[0], str(d / "model_0.5.tsv")), Panoptica_Aggregator(evs[1], str(d / "model_0.7.tsv"))]
            try:
                impl.Panoptica_Evaluator(expected_input=impl.INPUT["MATCHED"], decision_metric=impl.METRICS["clDSC"], decision_threshold=0.5)
            except Exception:
                pass
            for name, (p, r) in subj.items():
                for k, agg in enumerate(aggs):
                    exp[(k, name)] = evs[k].evaluate(p, r)["ungrouped"][0].to_dict()
                    agg.evaluate(p, r, name)
        for k, fn in enumerate(("model_0.5.tsv", "model_0.7.tsv")):
            try:
                with quiet():
                    st = Panoptica_Statistic.from_file(str(d / fn))
            except Exception as e:
                ctx.violation(f"C18 violated: {fn} (written next to its sibling, three subjects each) cannot be read by the statistics loader: {type(e).__name__}: {str(e)[:100]}", inp,
                              key={"kind": "loader-fails"})
                return
            if sorted(st.subjectnames) != sorted(subj):
                ctx.violation(f"C18 violated: {fn} holds the subjects {st.subjectnames}; {sorted(subj)} were evaluated into it", inp, key={"kind": "roundtrip"})
                return
            for name in subj:
                with quiet():
                    one = st.get_one_subject(name)["ungrouped"]
                for m, v in exp[(k, name)].items():
                    want = classify(v)
                    if m not in one:
                        ctx.violation(f"C18 violated: metric {m!r} reported by the result of {name!r} is not a column of {fn}", inp, key={"kind": "roundtrip"})
                        return
                    got = one[m]
                    if not ((want is None and got is None) or (want is not None and got is not None and float(got) == want)):
                        ctx.violation(f"C18 violated: {fn}: value of {m} for {name!r}: result reports {v!r}, loader returns {got!r}", inp, key={"kind": "roundtrip"})
                        return
    except Exception as e:
        ctx.violation(f"C18 violated: evaluating three subjects into two sibling files raised {type(e).__name__}: {str(e)[:140]}", inp, key={"kind": "roundtrip"})
    finally:
        shutil.rmtree(d, ignore_errors=True)


def guarded(ctx, fn, k):
    """a history of legitimate steps: an exception of the library in one of them (the loader refusing the aggregator's own file, …) is a report"""
    try:
        fn(ctx, k)
    except Exception as e:
        ctx.violation(f"C18 violated: a legitimate write / read history ({fn.__name__} #{k}) raised {type(e).__name__}: {str(e)[:140]}",
                      {"history": fn.__name__, "k": k}, key={"kind": "loader-fails"})


def run(ctx):
    neighbours_and_defaults(ctx)
    for k in range(2):
        recreated_file_history(ctx, k)
    locale_loader(ctx, "locale")
    for k in range(ctx.scale(4, 20)):
        guarded(ctx, statistic_after_other_writer, k)
    for k in range(ctx.scale(4, 30)):
        guarded(ctx, permuted_continuation, k)
    for i in range(ctx.scale(200, 2500)):
        rand_case(ctx, "rand", i)


def search(ctx):
    for i in range(ctx.scale(400, 2000)):
        rand_case(ctx, "search", i)


def replay(ctx, rec):
    if rec["input"].get("history") in ("statistic_after_other_writer", "permuted_continuation"):
        neighbours_and_defaults(ctx)
        guarded(ctx, globals()[rec["input"]["history"]], rec["input"]["k"])
        return
    if rec["input"].get("neighbours_and_defaults"):
        neighbours_and_defaults(ctx)
        return
    if rec["input"].get("history") == "recreated-file":
        recreated_file_history(ctx, 0 if rec["input"]["metrics_a"] == ["IOU", "DSC"] else 1)
        return
    i = rec["input"]
    if str(i.get("mode", "")).startswith("child interpreter with LC_ALL=C"):
        locale_loader(ctx, "replay")
        return
    if i.get("mode") == "statistic-after-other-writer":
        for k in range(6):
            statistic_after_other_writer(ctx, k)
        return
    if i.get("history") == "permuted-continuation":
        for k in range(6):
            permuted_continuation(ctx, k)
        return
    arrays = [(np.array(p, dtype=np.uint8).reshape(sh), np.array(r, dtype=np.uint8).reshape(sh)) for sh, p, r in i["arrays"]]
    one_case(ctx, i["groups"], i["cfg"], i["global_metrics"], i["subjects"], arrays, i["log_times"], "replay", n_aggs=i.get("n_aggs", 1),
             sgt=i.get("save_group_times"))
