"""C19 — saving and loading a configuration reproduces the same evaluator."""
from __future__ import annotations
import os, shutil, enum, math, re
import numpy as np
import impl, gen, evalutil as E
from impl import quiet
from common import VERIF, same_value
from props.c08 import rand_handler
from props.c15 import res_equal

RULE = ("configuration files named with and without a yaml suffix (dotted names, Path objects); class groups named with YAML-significant words and characters (on/off/yes/no/y/n/null/numbers/indicators/quotes), class groups given as lists of up to 14 groups; evaluator configurations with every field moved away from its default (input type, approximator backend, matcher "
        "kind/metric/threshold incl. thresholds that do not fit two decimals/many-to-one, handler tables and empty-list "
        "value, class groups of every kind, metric selections, decision metric/threshold, flags), saved -> loaded -> saved; "
        "checked: second file byte-identical, attribute trees identical, results identical on probe inputs chosen per "
        "field (threshold-straddling pair, zero-TP probes, diagonal contact, decision-filtered instance), each component "
        "saved on its own, shipped configurations load; saved mappings compared with the Lean class descriptors that the "
        "extractor regenerates from the source; non-trivial = at least one field non-default and a probe sensitive to it")


def settings(obj, depth=0):
    """attribute tree of a configurable object (caches excluded)"""
    from panoptica.utils.config import SupportsConfig
    if isinstance(obj, enum.Enum):
        return f"{type(obj).__name__}.{obj.name}"
    if isinstance(obj, SupportsConfig):
        out = {"__class__": type(obj).__name__}
        for k, v in sorted(vars(obj).items()):
            name = re.sub(r"^_[A-Za-z_]+__", "", k).lstrip("_")
            if name in ("resulting_metric_keys", "default_result", "labels"):  # caches and derived lists
                continue
            out[name] = settings(v, depth + 1)
        return out
    if isinstance(obj, dict):
        return {str(settings(k)): settings(v, depth + 1) for k, v in obj.items()}
    if isinstance(obj, (list, tuple)):
        return [settings(v, depth + 1) for v in obj]
    if isinstance(obj, float) and math.isnan(obj):
        return "nan"
    return obj


def probes():
    P = []
    # threshold-straddling pairs: IoU 2/3 and 1/2 next to an exact match
    ref = np.zeros((4, 12), np.uint8)
    pred = np.zeros((4, 12), np.uint8)
    ref[0, 0:4] = 1
    pred[0, 0:6] = 1          # IoU 4/6
    ref[2, 0:4] = 2
    pred[2, 2:6] = 2          # IoU 2/6
    ref[2, 8:12] = 3
    pred[2, 8:10] = 3         # IoU 1/2
    P.append((pred, ref))
    # zero-TP probes
    z = np.zeros((4, 4), np.uint8)
    o = z.copy()
    o[1:3, 1:3] = 1
    P += [(z, o), (o, z), (z, z)]
    q = z.copy()
    q[0, 0] = 1
    P.append((q, np.roll(o, 1, axis=0)))
    # diagonal contact in 3-D and 2-D
    a = np.zeros((3, 3, 3), np.uint8)
    a[0, 0, 0] = 1
    a[1, 1, 1] = 1
    a[2, 2, 1] = 1
    b = a.copy()
    b[2, 2, 1] = 0
    P.append((b, a))
    d2 = np.array([[1, 0, 0], [0, 1, 0], [0, 0, 1]], np.uint8)
    P.append((d2, np.array([[1, 0, 0], [0, 1, 0], [0, 0, 0]], np.uint8)))
    return P


PROBES = probes()


GROUP_NAMES = ["Organ", "my-grp", "a b", "lesions", "on", "off", "yes", "no", "y", "n", "true", "false", "null", "1e3", "0x1f", "1_000", "12", "3.5",
               ".inf", ".nan", "ON", "N", "a: b", "#x", "- x", "[x]", "*a", "&a", "!t", "%p", "@a", "`b", "'q", '"dq', " lead", "trail ", "k:", "?q",
               "Null", "TRUE", "1:30", "2001-01-01", "<<", "=", "a,b", "a#b", "x #y", "> f", "a\\b", "~", "{x}", "\u00e9", "|"]


def rand_eval_spec(rng):
    it = rng.choice(["SEMANTIC", "UNMATCHED", "MATCHED"])
    metrics = rng.sample(["IOU", "DSC", "RVD", "ASSD"], rng.randint(2, 4))
    if "IOU" not in metrics:
        metrics.append("IOU")
    thr = rng.choice([(1, 2), (2, 3), (333, 500), (63, 125), (1, 10), (499, 1000), (3, 4)])
    mk = None
    if it != "MATCHED" or rng.random() < 0.5:
        mm = rng.choice(["IOU", "DSC"])
        mk = E.naive(mm, thr, rng.random() < 0.3) if rng.random() < 0.7 else E.merge(mm, thr)
    dec = None
    if rng.random() < 0.5:
        dec = [rng.choice(["IOU", "DSC"] if "DSC" in metrics else ["IOU"]), {"q": list(rng.choice([(1, 2), (7, 10), (666, 1000)]))}]
    hnd = rand_handler(rng, metrics) if rng.random() < 0.7 else None
    if hnd is not None and rng.random() < 0.4:
        # a handler that defines only (a superset of) the evaluated metrics
        keep = set(metrics) | set(rng.sample(["DSC", "IOU", "ASSD", "RVD", "clDSC"], rng.randint(0, 2)))
        hnd = {"table": [e for e in hnd["table"] if e[0] in keep], "empty_list_std": hnd["empty_list_std"]}
    groups = None
    r = rng.random()
    if r < 0.4:
        # names incl. words and characters that are significant to YAML (booleans, nulls, numbers, indicators, quotes)
        n1, n2 = rng.sample(GROUP_NAMES, 2)
        while n1.lower() == n2.lower():
            n1, n2 = rng.sample(GROUP_NAMES, 2)
        groups = [{"name": n1, "labels": [1], "merge": False, "single": rng.random() < 0.4},
                  {"name": n2, "labels": [2, 3], "merge": rng.random() < 0.4, "single": False}]
    elif r < 0.6:
        # groups given as a list (auto-named group_0, group_1, ...), up to 14 of them
        k = rng.choice([2, 3, 5, 10, 11, 12, 14])
        groups = []
        for j in range(k):
            labs = [j + 1] if j < 2 else ([3, k + 5] if j == 2 else [j + 1])
            groups.append({"name": f"group_{j}", "labels": labs, "merge": j == 2 and rng.random() < 0.5, "single": j == 0 and rng.random() < 0.4,
                           "as_list": True})
    gm = [m for m in rng.sample(["DSC", "IOU", "RVD"], rng.randint(0, 3)) if hnd is None or m in [e[0] for e in hnd["table"]]]
    cfg = E.mk_cfg(it, metrics, matcher=mk, decision=dec, handler=hnd, backend=rng.choice([None, "cc3d", "scipy"]))
    flags = {"save_group_times": rng.random() < 0.3, "log_times": rng.random() < 0.3, "verbose": rng.random() < 0.2}
    return cfg, groups, gm, flags


def yaml_tree(path):
    """neutral tree of a saved file: tagged mappings -> {'!': tag, key: ...}"""
    from ruamel.yaml import YAML
    y = YAML(typ="rt")
    data = y.load(open(path))

    def conv(n):
        tag = getattr(getattr(n, "tag", None), "value", None)
        if hasattr(n, "items"):
            d = {str(conv(k)) if not isinstance(k, str) else k: conv(v) for k, v in n.items()}
            if tag and tag.startswith("!"):
                d["!"] = tag[1:]
            return d
        if isinstance(n, list):
            return [conv(v) for v in n]
        if tag and str(tag).startswith("!"):
            return f"{tag}:{n}" if not hasattr(n, "value") else f"{tag}:{n.value}"
        return n
    return conv(data)


def tagged_mappings(t, acc):
    if isinstance(t, dict):
        if "!" in t:
            acc.append((t["!"], sorted(k for k in t if k != "!")))
        for v in t.values():
            tagged_mappings(v, acc)
    elif isinstance(t, list):
        for v in t:
            tagged_mappings(v, acc)
    return acc


def roundtrip_obj(ctx, obj, cls, inp, what, model_classes):
    d = VERIF / ".work" / f"c19_{os.getpid()}"
    d.mkdir(parents=True, exist_ok=True)
    # file names with and without a yaml suffix, dotted names, Path objects
    stem = ctx.rng.choice(["a.yaml", "a.yaml", "cfg.yml", "cfg", "evaluator_iou0.5", "evaluator_iou0.25", "run.v2.conf", "tmpx1_"])
    p1, p2 = str(d / stem), str(d / ("second_" + stem))
    ctx.count("config_file_name." + ("yaml-suffix" if stem.endswith((".yaml", ".yml")) else "other"))
    if ctx.rng.random() < 0.3:
        p1 = d / stem
    try:
        with quiet():
            obj.save_to_config(p1)
            loaded = cls.load_from_config(p1)
            loaded.save_to_config(p2)
    except Exception as e:
        ctx.violation(f"C19 violated: save/load of {what} raised {type(e).__name__}: {e}", inp, key={"kind": "roundtrip-raises"})
        return None
    if not os.path.exists(str(p1)):
        ctx.violation(f"C19 violated: save_to_config('{os.path.basename(str(p1))}') did not write the file it was asked to write "
                      f"(directory now holds {sorted(os.listdir(d))})", inp, key={"kind": "roundtrip-raises"})
        return None
    t1, t2 = open(p1).read(), open(p2).read()
    if t1 != t2:
        ctx.violation(f"C19 violated: saving the loaded {what} does not reproduce the same file", inp,
                      impl={"first": t1[-400:], "second": t2[-400:]}, key={"kind": "file-differs"})
    s1, s2 = settings(obj), settings(loaded)
    if s1 != s2:
        diff = [k for k in s1 if isinstance(s1, dict) and s1.get(k) != (s2.get(k) if isinstance(s2, dict) else None)]
        ctx.violation(f"C19 violated: loaded {what} has different settings in {diff[:4]}", inp,
                      impl={"saved": str({k: s1[k] for k in diff[:3]})[:400], "loaded": str({k: s2.get(k) for k in diff[:3]})[:400]},
                      key={"kind": "settings-differ"})
    # correspondence: the keys of every tagged mapping in the file are the descriptor's YAML keys
    try:
        for tag, keys in tagged_mappings(yaml_tree(p1), []):
            m = model_classes.get(tag)
            if m is None:
                continue
            if sorted(m["repr_keys"]) != keys:
                ctx.disagree(f"YAML keys of !{tag}", inp, keys, sorted(m["repr_keys"]))
    except Exception as e:
        ctx.notes.append(f"yaml tree parse failed: {e}")
    return loaded


def one_case(ctx, spec, src):
    cfg, groups, gm, flags = spec
    inp = {"cfg": cfg, "groups": groups, "global_metrics": gm, "flags": flags, "src": src}
    model_classes = {c["name"]: c for c in ctx.driver().ask({"op": "cfg_classes"})}
    with quiet():
        ev = impl.mk_evaluator(cfg, groups=groups, global_metrics=gm, **flags)
    ctx.case(inp, True, sample=inp if src.endswith("0") else None)
    ctx.count("input." + cfg["input"])
    loaded = roundtrip_obj(ctx, ev, impl.Panoptica_Evaluator, inp, "evaluator", model_classes)
    if loaded is None:
        return
    # identical results on probe inputs
    for k, (p, r) in enumerate(PROBES):
        if groups:
            p = np.where(p > 3, 0, p).astype(np.uint8)
            r = np.where(r > 3, 0, r).astype(np.uint8)
        a = E.run_impl(cfg, p, r, groups=groups, global_metrics=gm, evaluator=ev)
        b = E.run_impl(cfg, p, r, groups=groups, global_metrics=gm, evaluator=loaded)
        dd = res_equal(a, b, cfg["eval_metrics"])
        if dd:
            ctx.violation(f"C19 violated: loaded evaluator gives different results on probe {k}: {dd}", inp,
                          impl={"original": str(a)[:300], "loaded": str(b)[:300]}, key={"kind": "results-differ"})
            break
    # every component on its own
    with quiet():
        comps = []
        if cfg.get("matcher"):
            comps.append((impl.mk_matcher(cfg["matcher"]), "matcher"))
        comps.append((impl.ConnectedComponentsInstanceApproximator(cca_backend=impl.BACKEND[cfg.get("backend")]), "approximator"))
        h = impl.mk_handler(cfg["handler"])
        comps.append((h, "edge-case handler"))
        comps.append((list(h.listmetric_zeroTP_handling.values())[0], "per-metric handling"))
        if groups:
            g = impl.mk_groups(groups)
            comps.append((g, "class groups"))
            comps.append((g[groups[0]["name"].lower()], "label group"))
    for obj, what in comps:
        roundtrip_obj(ctx, obj, type(obj), inp, what, model_classes)
        ctx.count("component." + what)


def shipped(ctx):
    from panoptica.utils.filepath import config_by_name
    cdir = os.path.join(impl.REPO, "panoptica", "configs")
    model_classes = {c["name"]: c for c in ctx.driver().ask({"op": "cfg_classes"})}
    for f in sorted(os.listdir(cdir)):
        inp = {"shipped": f}
        ctx.case(inp, True)
        ctx.count("shipped_configs")
        cls = impl.SegmentationClassGroups if f.startswith("SegmentationClassGroups") else impl.Panoptica_Evaluator
        try:
            with quiet():
                obj = cls.load_from_config(os.path.join(cdir, f))
        except Exception as e:
            ctx.violation(f"C19 violated: shipped configuration {f} does not load: {type(e).__name__}: {e}", inp, key={"kind": "shipped"})
            continue
        roundtrip_obj(ctx, obj, cls, inp, f"shipped configuration {f}", model_classes)
    # by-name loading is a function of the file: a second load after the first object was modified (or used) gives
    # the same settings as the file
    from panoptica.utils.filepath import config_by_name
    for name in ("panoptica_evaluator_unmatched_instance", "panoptica_evaluator_BRATS", "panoptica_evaluator_unmatched_instance.yaml", "panoptica_evaluator_BRATS.yaml"):
        # the name of a shipped configuration, given bare or with its extension
        inp = {"shipped_by_name": name}
        ctx.case(inp, True)
        ctx.count("by_name_histories")
        try:
            with quiet():
                first = impl.Panoptica_Evaluator.load_from_config_name(name)
                ref_settings = settings(impl.Panoptica_Evaluator.load_from_config(config_by_name(name)))
                first.set_log_group_times(True)
                first._set_instance_matcher(impl.NaiveThresholdMatching(matching_threshold=0.123))
                second = impl.Panoptica_Evaluator.load_from_config_name(name)
            if settings(second) != ref_settings:
                ctx.violation(f"C19 violated: loading the shipped configuration {name} by name a second time does not reproduce the settings of the YAML file", inp,
                              key={"kind": "by-name-history"})
        except Exception as e:
            ctx.violation(f"C19 violated: by-name loading of {name} raised {type(e).__name__}: {e}", inp, key={"kind": "shipped"})
    # enums by name
    for e in list(impl.Metric) + list(impl.InputType) + list(impl.CCABackend) + list(impl.EdgeCaseResult):
        d = VERIF / ".work" / f"c19_{os.getpid()}"
        d.mkdir(parents=True, exist_ok=True)
        p = str(d / "e.yaml")
        try:
            with quiet():
                e.save_to_config(p)              # the same path for every member: each save replaces the previous file
                back = type(e).load_from_config(p)
        except Exception as ex:
            ctx.violation(f"C19 violated: enum member {e}, saved to a path that held another member's file, cannot be loaded: {type(ex).__name__}: {str(ex)[:120]}",
                          {"enum": str(e)}, key={"kind": "enum"})
            break
        if back.name != e.name or type(back) is not type(e):
            ctx.violation(f"C19 violated: enum {e} loads back as {back}", {"enum": str(e)}, key={"kind": "enum"})
        ctx.count("enum_members")


def one_off_default(ctx):
    """configurations that differ from the defaults in exactly one setting (a writer that omits what "is the default"
    is only wrong when it judges default-ness by part of an object)"""
    import copy
    base_cfg = E.mk_cfg("UNMATCHED", ["DSC", "IOU", "ASSD", "RVD"], matcher=E.naive("IOU", (1, 2)))
    variants = []

    def var(name, f):
        c = copy.deepcopy(base_cfg)
        f(c)
        variants.append((name, c))
    var("defaults", lambda c: None)
    for v in ("ZERO", "INF", "ONE"):
        var("empty_list_std=" + v, lambda c, v=v: c["handler"].__setitem__("empty_list_std", v))
    for k, (m, cell, v) in enumerate((("DSC", "NO_INSTANCES", "ONE"), ("IOU", "EMPTY_PRED", "NAN"), ("ASSD", "NORMAL", "ZERO"), ("RVD", "EMPTY_REF", "ZERO"),
                                      ("clDSC", "NORMAL", "ONE"))):
        def f(c, m=m, cell=cell, v=v):
            for e in c["handler"]["table"]:
                if e[0] == m:
                    e[1][cell] = v
        var(f"table.{m}.{cell}={v}", f)
    var("table.order", lambda c: c["handler"]["table"].reverse())
    var("threshold", lambda c: c["matcher"]["thr"].__setitem__("q", [1, 4]))
    # settings whose value is falsy although it is not "unset": a zero threshold, a zero decision threshold
    var("threshold zero", lambda c: c["matcher"]["thr"].__setitem__("q", [0, 1]))
    var("merge matcher, threshold zero", lambda c: c.__setitem__("matcher", E.merge("DSC", (0, 1))))
    var("decision zero", lambda c: c.__setitem__("decision", ["IOU", {"q": [0, 1]}]))
    var("decision zero (ASSD)", lambda c: c.__setitem__("decision", ["ASSD", {"q": [0, 1]}]))
    var("m2o", lambda c: c["matcher"].__setitem__("m2o", True))
    var("matching_metric", lambda c: c["matcher"].__setitem__("metric", "DSC"))
    var("merge matcher", lambda c: c.__setitem__("matcher", E.merge("IOU", (1, 2))))
    var("decision", lambda c: c.__setitem__("decision", ["IOU", {"q": [7, 10]}]))
    var("metrics", lambda c: c.__setitem__("eval_metrics", ["IOU", "DSC"]))
    var("input", lambda c: c.__setitem__("input", "SEMANTIC"))
    var("backend", lambda c: (c.__setitem__("input", "SEMANTIC"), c.__setitem__("backend", "scipy")))
    noflags = {"save_group_times": False, "log_times": False, "verbose": False}
    for name, cfg in variants:
        ctx.count("one_setting_off_default")
        one_case(ctx, (cfg, None, [], noflags), "oneoff." + name)
    for fl in noflags:
        one_case(ctx, (copy.deepcopy(base_cfg), None, [], dict(noflags, **{fl: True})), "oneoff.flag." + fl)
    one_case(ctx, (copy.deepcopy(base_cfg), None, ["DSC"], noflags), "oneoff.global_metrics")
    one_case(ctx, (copy.deepcopy(base_cfg), [{"name": "a", "labels": [1], "merge": False, "single": False}, {"name": "b", "labels": [2, 3], "merge": False, "single": False}],
                   [], noflags), "oneoff.groups")
    # group labels beyond 2^16 (atlas ids): they are what is written and what is read
    ctx.count("group_labels_beyond_16_bits")
    one_case(ctx, (copy.deepcopy(base_cfg), [{"name": "a", "labels": [1, 2], "merge": False, "single": False}, {"name": "atlas", "labels": [3, 65536, 70000, 2 ** 20 + 5], "merge": True, "single": False}],
                   [], noflags), "oneoff.large-group-labels")
def saved_by_name(ctx):
    """several evaluators with different settings saved *by name* (the by-name directory redirected to a scratch directory),
    the names sharing prefixes, carrying dots, version numbers and the extension; loading each name gives back what was saved
    under that name. Saving by name writes next to the package, so the module's notion of its own location is redirected."""
    import panoptica.utils.filepath as FP
    tag = f"verifc19x{os.getpid()}"
    d = VERIF / ".work" / f"c19n_{os.getpid()}"
    shutil.rmtree(d, ignore_errors=True)
    (d / "panoptica" / "utils").mkdir(parents=True)
    real_file = FP.__file__
    names = [f"{tag}_plain", f"{tag}_v1.0", f"{tag}_v1.5", f"{tag}_v1.5.final", f"{tag}.a.b", f"{tag}_ext.yaml", f"{tag}_plain2"]
    thr = [(1, 10), (1, 4), (3, 4), (2, 3), (1, 2), (1, 3), (9, 10)]
    inp = {"saved_by_name": names, "thresholds": [list(t) for t in thr]}
    ctx.case(inp, True)
    ctx.count("saved_by_name_histories")
    try:
        FP.__file__ = str(d / "panoptica" / "utils" / "filepath.py")
        objs = {}
        with quiet():
            for n, t in zip(names, thr):
                ev = impl.mk_evaluator(E.mk_cfg("UNMATCHED", ["IOU", "DSC"], matcher=E.naive("IOU", t)))
                ev.save_to_config_by_name(n)
                objs[n] = settings(ev)
        for n in names:
            for alias in (n, n + ".yaml" if not n.endswith(".yaml") else n[:-5]):
                try:
                    with quiet():
                        back = impl.Panoptica_Evaluator.load_from_config_name(alias)
                except Exception as e:
                    ctx.violation(f"C19 violated: the configuration saved under the name {n!r} cannot be loaded as {alias!r}: {type(e).__name__}: {str(e)[:200]}", inp,
                                  key={"kind": "by-name-saved"})
                    return
                if settings(back) != objs[n]:
                    other = [m for m in names if m != n and settings(back) == objs[m]]
                    ctx.violation(f"C19 violated: loading the name {alias!r} does not give back the configuration saved under {n!r}"
                                  + (f" but the one saved under {other[0]!r}" if other else ""), inp, key={"kind": "by-name-saved"})
                    return
    finally:
        FP.__file__ = real_file
        shutil.rmtree(d, ignore_errors=True)
        for root in (os.path.join(impl.REPO, "panoptica"),):         # nothing may be left next to the package itself
            for dp, _, fs in os.walk(root):
                for f in fs:
                    if f.startswith(tag):
                        os.remove(os.path.join(dp, f))


def int_named_groups(ctx):
    """class groups keyed by integer ids — in Python (`{1: LabelGroup(...), 26: ...}`) and in a YAML file whose group keys are plain
    numbers: the library names such groups '1', '26'; both forms give the same object as the string-named definition, and it round-trips"""
    import re
    spec = [{"name": "1", "labels": [1], "merge": False, "single": False}, {"name": "5", "labels": [2, 3], "merge": True, "single": False},
            {"name": "26", "labels": [4], "merge": False, "single": False}]
    inp = {"int_named_groups": spec}
    ctx.case(inp, True)
    ctx.count("groups_named_by_integers")
    d = VERIF / ".work" / f"c19i_{os.getpid()}"
    d.mkdir(parents=True, exist_ok=True)
    try:
        with quiet():
            want = impl.mk_groups(spec)
            p = str(d / "g.yaml")
            want.save_to_config(p)
            text = open(p).read()
            numeric = re.sub(r"'(\d+)':", r"\1:", text)
        for what, make in (("defined in Python with integer keys", lambda: impl.mk_groups([dict(spec[0], int_keys=True)] + spec[1:])),
                           ("loaded from a YAML file whose group names are plain numbers", lambda: (open(p, "w").write(numeric), impl.SegmentationClassGroups.load_from_config(p))[1])):
            if what.startswith("loaded") and numeric == text:
                ctx.count("yaml_keys_not_quoted_by_writer")
                continue
            try:
                with quiet():
                    got = make()
            except Exception as e:
                ctx.violation(f"C19 violated: class groups {what} cannot be built: {type(e).__name__}: {str(e)[:160]}", inp, key={"kind": "int-named-groups"})
                continue
            if settings(got) != settings(want):
                ctx.violation(f"C19 violated: class groups {what} differ from the same groups named by strings", inp, key={"kind": "int-named-groups"})
                continue
            try:
                with quiet():
                    got.save_to_config(p)
                    back = impl.SegmentationClassGroups.load_from_config(p)
            except Exception as e:
                ctx.violation(f"C19 violated: class groups {what}, saved to a path that already held a configuration, cannot be loaded: {type(e).__name__}: {str(e)[:120]}", inp,
                              key={"kind": "int-named-groups"})
                continue
            if settings(back) != settings(want):
                ctx.violation(f"C19 violated: class groups {what} do not survive saving and loading", inp, key={"kind": "int-named-groups"})
    finally:
        shutil.rmtree(d, ignore_errors=True)


def resave_history(ctx):
    """one path, several saves without deleting the file in between: an evaluator is saved, re-configured in place through its public
    setters, saved again; then other objects (matchers with different settings, one after the other, each a temporary) are saved to
    that same path — after every save the file holds the settings of the object that was saved last"""
    d = VERIF / ".work" / f"c19h_{os.getpid()}"
    shutil.rmtree(d, ignore_errors=True)
    d.mkdir(parents=True)
    p = str(d / "cfg.yaml")
    inp = {"resave_history": ["evaluator", "set matcher threshold 1/4 -> 3/4", "set_log_group_times(True)", "matchers IOU 1/2, DSC 1/2, IOU 9/10, DSC 1/4 (temporaries)"]}
    ctx.case(inp, True)
    ctx.count("resave_histories")
    try:
        with quiet():
            ev = impl.mk_evaluator(E.mk_cfg("UNMATCHED", ["IOU", "DSC"], matcher=E.naive("IOU", (1, 4))))
            steps = [("saved as constructed", lambda: None),
                     ("after _set_instance_matcher(threshold 3/4)", lambda: ev._set_instance_matcher(impl.mk_matcher(E.naive("IOU", (3, 4))))),
                     ("after set_log_group_times(True)", lambda: ev.set_log_group_times(True))]
            for what, change in steps:
                change()
                ev.save_to_config(p)
                back = impl.Panoptica_Evaluator.load_from_config(p)
                if settings(back) != settings(ev):
                    ctx.violation(f"C19 violated: the evaluator was saved to the same path again ({what}); loading the file does not give its current settings", inp,
                                  key={"kind": "resave-history"})
                    return
            for mm, thr in (("IOU", (1, 2)), ("DSC", (1, 2)), ("IOU", (9, 10)), ("DSC", (1, 4)), ("IOU", (1, 3))):
                impl.mk_matcher(E.naive(mm, thr)).save_to_config(p)          # a temporary: freed right after the call
                back = impl.NaiveThresholdMatching.load_from_config(p)
                want = impl.mk_matcher(E.naive(mm, thr))
                if settings(back) != settings(want):
                    ctx.violation(f"C19 violated: a matcher ({mm}, threshold {thr[0]}/{thr[1]}) was saved to a path that held another object's configuration; "
                                  f"loading the file gives {settings(back)}", inp, key={"kind": "resave-history"})
                    return
    except Exception as e:
        ctx.violation(f"C19 violated: saving several configurations to one path raised {type(e).__name__}: {str(e)[:160]}", inp, key={"kind": "resave-history"})
    finally:
        shutil.rmtree(d, ignore_errors=True)


def bare_names_in_cwd(ctx):
    """a configuration saved under a bare file name in the working directory — a name that a shipped configuration also carries, and an
    ordinary one — and loaded through the same bare name: the file just written is what is loaded"""
    d = VERIF / ".work" / f"c19w_{os.getpid()}"
    shutil.rmtree(d, ignore_errors=True)
    d.mkdir(parents=True)
    cwd = os.getcwd()
    names = ["panoptica_evaluator_BRATS.yaml", "panoptica_evaluator_unmatched_instance.yaml", "my_evaluator.yaml", "./panoptica_evaluator_VERSE.yaml"]
    inp = {"bare_names_in_cwd": names}
    ctx.case(inp, True)
    ctx.count("bare_names_in_working_directory")
    try:
        os.chdir(d)
        for k, n in enumerate(names):
            with quiet():
                ev = impl.mk_evaluator(E.mk_cfg("UNMATCHED", ["IOU", "DSC"], matcher=E.naive("DSC", (1 + k, 7)), backend="scipy"))
                ev.save_to_config(n)
                back = impl.Panoptica_Evaluator.load_from_config(n)
            if settings(back) != settings(ev):
                ctx.violation(f"C19 violated: an evaluator saved as {n!r} in the working directory and loaded through the same path does not come back with its settings", inp,
                              key={"kind": "bare-name"})
                return
    except Exception as e:
        ctx.violation(f"C19 violated: saving / loading under a bare file name raised {type(e).__name__}: {str(e)[:160]}", inp, key={"kind": "bare-name"})
    finally:
        os.chdir(cwd)
        shutil.rmtree(d, ignore_errors=True)


def run(ctx):
    shipped(ctx)
    bare_names_in_cwd(ctx)
    resave_history(ctx)
    int_named_groups(ctx)
    saved_by_name(ctx)
    one_off_default(ctx)
    for i in range(ctx.scale(60, 700)):
        one_case(ctx, rand_eval_spec(ctx.rng), f"rand{i}")
    shutil.rmtree(VERIF / ".work" / f"c19_{os.getpid()}", ignore_errors=True)


def search(ctx):
    for i in range(ctx.scale(150, 600)):
        one_case(ctx, rand_eval_spec(ctx.rng), f"search{i}")


def replay(ctx, rec):
    i = rec["input"]
    if "cfg" in i:
        one_case(ctx, (i["cfg"], i["groups"], i["global_metrics"], i["flags"]), "replay")
    elif "bare_names_in_cwd" in i:
        bare_names_in_cwd(ctx)
    elif "resave_history" in i:
        resave_history(ctx)
    elif "int_named_groups" in i:
        int_named_groups(ctx)
    elif "saved_by_name" in i:
        saved_by_name(ctx)
    else:
        shipped(ctx)
