"""C20 — dataset summaries are the statistics of exactly the recorded finite values."""
from __future__ import annotations
import os, math, shutil
from fractions import Fraction
import numpy as np
import impl, forms
from impl import quiet, Panoptica_Statistic
from common import VERIF, close, frac

RULE = ("columns of repeated identical non-dyadic values; tables queried in a child interpreter started with -O; values of every magnitude (1e-300 .. 9e16, negative: written with an exponent); statistics objects built in memory from Python ints, numpy integers, float32/64 scalars and None; generated .tsv result tables: 1-4 groups x 1-6 metrics x 1-30 subjects, cells finite / nan / inf / -inf / empty in "
        "random patterns incl. whole columns without a finite value; each table also with its rows permuted; summaries are "
        "queried before and after per-subject look-ups; non-trivial = a column with >= 2 finite and >= 1 non-finite entries")

GROUPS = ["liver", "my-grp", "grp_2", "upper case"]
METRICS = ["sq", "sq_std", "pq", "sq_dsc", "sq_assd", "tp"]


NONFINITE = [None, "nan", "inf", "-inf", "NaN", "Inf", "Infinity", "-Infinity", "+inf", "1e999", "-1E999", "NAN"]


def cell_text(v):
    if v is None:
        return ""
    if isinstance(v, str):
        return v
    return repr(float(v))


def write_table(path, groups, metrics, subjects, table):
    cols = [(gi, mi) for gi in range(len(groups)) for mi in range(len(metrics))]
    # every third kind of table has its columns metric-major (as after merging or editing a file): columns are found by their names
    if (len(groups) + len(metrics) + len(subjects)) % 3 == 0:
        cols.sort(key=lambda c: (c[1], c[0]))
    with open(path, "w") as f:
        f.write("\t".join(["subject_name"] + [f"{groups[gi]}-{metrics[mi]}" for gi, mi in cols]) + "\n")
        for s, row in zip(subjects, table):
            f.write("\t".join([s] + [cell_text(row[gi * len(metrics) + mi]) for gi, mi in cols]) + "\n")


def finite_or_none(v):
    if v is None or isinstance(v, str):
        return None
    return float(v)


def one_table(ctx, groups, metrics, subjects, table, src):
    inp = {"groups": groups, "metrics": metrics, "subjects": subjects, "table": table, "src": src}
    d = VERIF / ".work" / f"c20_{os.getpid()}"
    d.mkdir(parents=True, exist_ok=True)
    p = str(d / "t.tsv")
    nontriv = False
    cols = {}
    for gi, g in enumerate(groups):
        for mi, m in enumerate(metrics):
            col = [finite_or_none(row[gi * len(metrics) + mi]) for row in table]
            cols[(g, m)] = col
            fin = [x for x in col if x is not None]
            if len(fin) >= 2 and len(fin) < len(col):
                nontriv = True
    ctx.case(inp, nontriv, sample=inp if len(subjects) <= 3 and len(groups) * len(metrics) <= 4 else None)
    ctx.count(f"groups.{len(groups)}")
    for order in ("summary-first", "lookup-first"):
        write_table(p, groups, metrics, subjects, table)
        try:
            with quiet():
                st = Panoptica_Statistic.from_file(p)
        except Exception as e:
            ctx.violation(f"C20 violated: a well-formed table (groups {groups}, metrics {metrics}) cannot be loaded: {type(e).__name__}: {str(e)[:160]}", inp,
                          key={"kind": "loader-fails"})
            return
        if sorted(st.groupnames) != sorted(groups) or sorted(st.metricnames) != sorted(metrics):
            ctx.violation(f"C20 violated: the table has groups {groups} and metrics {metrics}; the loaded statistic reports groups {list(st.groupnames)} and metrics "
                          f"{list(st.metricnames)}", inp, key={"kind": "loader-fails"})
            return
        if ctx.rng.random() < 0.5:
            # other read-only queries must not disturb later answers
            with quiet():
                for m in metrics:
                    st.get_across_groups(m)
                    for g in groups:
                        st.get(g, m)
                        st.get(g, m, remove_nones=True)
            ctx.count("other_queries_first")
        if order == "lookup-first":
            check_lookup(ctx, inp, st, groups, metrics, subjects, cols)
        for (g, m), col in cols.items():
            fin = [x for x in col if x is not None]
            if not fin:
                ctx.count("column_without_finite_value")
                continue
            try:
                with quiet():
                    sm = st.get_summary(g, m)
                got = (sm.avg, sm.std, sm.min, sm.max)
            except Exception as e:
                ctx.violation(f"get_summary({g},{m}) raised {type(e).__name__}", inp, key={"kind": "summary-raises"})
                continue
            want = (float(np.average(fin)), float(np.std(fin)), min(fin), max(fin))
            if not (close(got[0], want[0]) and close(got[1], want[1], abs_=1e-9) and got[2] == want[2] and got[3] == want[3]):
                ctx.violation(f"summary of {g}/{m} is {got}, but the finite recorded values {fin[:6]}.. give {want}", inp,
                              impl=got, model=want, key={"kind": "summary"})
            mod = ctx.driver().ask({"op": "summary", "col": [None if x is None else list(Fraction(x).as_integer_ratio()) for x in col]})
            mavg, mvar = frac(mod["avg"]), frac(mod["var"])
            if not (close(got[0], float(mavg)) and close(got[1], math.sqrt(float(mvar)), abs_=1e-9)
                    and got[2] == float(frac(mod["min"])) and got[3] == float(frac(mod["max"]))):
                ctx.disagree(f"summary of {g}/{m}", inp, got, mod)
        # across groups
        all_cols_finite = all(any(x is not None for x in c) for c in cols.values())
        if not all_cols_finite:
            ctx.count("across_groups_skipped_some_column_without_finite_value")
        for mi, m in enumerate(metrics):
            if all_cols_finite:
                try:
                    with quiet():
                        ac = st.get_summary_across_groups()[m]
                except Exception as e:
                    ctx.violation(f"get_summary_across_groups() raised {type(e).__name__} although every column holds a finite value", inp,
                                  key={"kind": "summary-raises"})
                    break
                avgs = [float(np.average([x for x in cols[(g, m)] if x is not None])) for g in groups]
                want = (float(np.average(avgs)), float(np.std(avgs)), min(avgs), max(avgs))
                got = (ac.avg, ac.std, ac.min, ac.max)
                if not all(close(a, b, abs_=1e-9) for a, b in zip(got, want)):
                    ctx.violation(f"across-groups summary of {m} is {got}, expected {want} (statistics of the per-group averages)", inp,
                                  impl=got, key={"kind": "across-groups"})
                break
        if order == "summary-first":
            check_lookup(ctx, inp, st, groups, metrics, subjects, cols)
    shutil.rmtree(d, ignore_errors=True)
    return cols


def check_lookup(ctx, inp, st, groups, metrics, subjects, cols):
    for si, s in enumerate(subjects):
        try:
            with quiet():
                one = st.get_one_subject(s)
        except Exception as e:
            ctx.violation(f"get_one_subject('{s}') raised {type(e).__name__}: {str(e)[:100]} on a table that holds a row for that subject", inp, key={"kind": "lookup"})
            return
        for (g, m), col in cols.items():
            got = one[g][m]
            want = col[si]
            if not ((got is None and want is None) or (got is not None and want is not None and float(got) == want)):
                ctx.violation(f"get_one_subject('{s}')['{g}']['{m}'] returned {got}, but the value recorded for that subject is {want}",
                              inp, impl=got, key={"kind": "lookup"})
                return


def constructed_case(ctx, tag, i):
    """a statistics object built through the public constructor from in-memory lists: Python ints, numpy integers,
    float32 scalars and None entries, as a caller that collects counts and scores by hand would pass them"""
    rng = ctx.rng
    groups = rng.sample(GROUPS, rng.randint(1, 3))
    metrics = rng.sample(METRICS, rng.randint(1, 4))
    n = rng.randint(2, 12)
    subjects = [f"s{k}" for k in range(n)]
    kinds = ["int", "npint", "f32", "float", "f64"]
    vd, cols = {}, {}
    for g in groups:
        vd[g] = {}
        for m in metrics:
            kind = rng.choice(kinds + ["mixed"])
            col_vals, col = [], []
            for _ in range(n):
                k2 = rng.choice(kinds) if kind == "mixed" else kind
                if rng.random() < 0.2:
                    col_vals.append(None)
                    col.append(None)
                    continue
                base = rng.choice([rng.randint(0, 9), rng.randint(0, 8) / 8, rng.randint(0, 40) / 4])
                v = {"int": lambda: int(base), "npint": lambda: np.int64(int(base)), "f32": lambda: np.float32(base),
                     "float": lambda: float(base), "f64": lambda: np.float64(base)}[k2]()
                col_vals.append(v)
                col.append(float(v))
            vd[g][m] = col_vals
            cols[(g, m)] = col
    inp = {"constructed": True, "groups": groups, "metrics": metrics, "subjects": subjects,
           "values": {g: {m: [None if v is None else [type(v).__name__, float(v)] for v in vd[g][m]] for m in metrics} for g in groups}, "src": f"{tag}{i}"}
    ctx.case(inp, True)
    ctx.count("constructed_in_memory")
    with quiet():
        st = Panoptica_Statistic(subjects, vd)
    for (g, m), col in cols.items():
        fin = [x for x in col if x is not None]
        if not fin:
            continue
        try:
            with quiet():
                sm = st.get_summary(g, m)
            got = (sm.avg, sm.std, sm.min, sm.max)
        except Exception as e:
            ctx.violation(f"get_summary({g},{m}) on an in-memory statistics object raised {type(e).__name__} although the column holds finite values {fin[:5]}",
                          inp, key={"kind": "summary-raises"})
            continue
        want = (float(np.average(fin)), float(np.std(fin)), min(fin), max(fin))
        rel = 1e-5 if any(isinstance(v, np.float32) for v in vd[g][m]) else 1e-9       # numpy accumulates float32 lists in float32
        if not (close(got[0], want[0], rel=rel) and close(got[1], want[1], rel=rel, abs_=1e-6 if rel > 1e-9 else 1e-9) and float(got[2]) == want[2] and float(got[3]) == want[3]):
            ctx.violation(f"summary of {g}/{m} of an in-memory statistics object is {got}, but its finite values {fin[:6]}.. give {want}", inp,
                          impl=[float(x) for x in got], model=want, key={"kind": "summary"})
    check_lookup(ctx, inp, st, groups, metrics, subjects, cols)


def repeated_value_tables(ctx):
    """columns whose finite values are several copies of one number (np.average of [0.8, 0.8, 0.8] is 0.8000000000000002,
    above the maximum): the summary must still be returned"""
    k = 0
    for v in (0.8, 0.1, 0.2, 0.95, 0.7, 0.3, 1 / 3):
        for n in (3, 6, 7):
            col = [v] * n
            table = [[x, "nan" if j == 1 else x] for j, x in enumerate(col)]
            one_table(ctx, ["liver", "grp_2", "my-grp"][: 1 + k % 3], ["sq_dsc", "sq"], [f"s{j}" for j in range(n)],
                      [row * (1 + k % 3) for row in table], f"corpus.repeated{k}")
            k += 1
    ctx.count("repeated_value_columns", k)


def optimized_interpreter_tables(ctx, n):
    """the same tables queried in a child interpreter started with -O"""
    rng = ctx.rng
    d = VERIF / ".work" / f"c20o_{os.getpid()}"
    d.mkdir(parents=True, exist_ok=True)
    tasks, meta = [], []
    for i in range(n):
        groups = rng.sample(GROUPS, rng.randint(1, 2))
        metrics = rng.sample(METRICS, rng.randint(1, 3))
        subjects = [f"s{k}" for k in range(rng.randint(2, 6))]
        table = [[rng.choice([rng.random(), 0.8, None, "nan", rng.randint(0, 5)]) for _ in range(len(groups) * len(metrics))] for _ in subjects]
        p = str(d / f"t{i}.tsv")
        write_table(p, groups, metrics, subjects, table)
        cols = [[g, m] for g in groups for m in metrics]
        tasks.append({"kind": "stat_file", "path": p, "columns": cols, "subjects": subjects})
        meta.append((groups, metrics, subjects, table))
    res = forms.run_child([{"kind": "info"}] + tasks, optimize=True)
    try:
        if isinstance(res, dict) or not isinstance(res[0], dict) or res[0].get("debug") is not False:
            ctx.notes.append("child interpreter with -O could not be started: " + str(res)[:200])
            return
        for (groups, metrics, subjects, table), out in zip(meta, res[1:]):
            inp = {"groups": groups, "metrics": metrics, "subjects": subjects, "table": table, "mode": "python -O", "src": "optimized"}
            ctx.case(inp, True)
            ctx.count("python_-O")
            if isinstance(out, str):
                ctx.violation(f"loading the table raised {out} in an interpreter started with -O", inp, key={"kind": "summary-raises"})
                continue
            for gi, g in enumerate(groups):
                for mi, m in enumerate(metrics):
                    col = [finite_or_none(row[gi * len(metrics) + mi]) for row in table]
                    fin = [x for x in col if x is not None]
                    got = out["summaries"][f"{g}|{m}"]
                    if fin:
                        want = (float(np.average(fin)), float(np.std(fin)), min(fin), max(fin))
                        if isinstance(got, str) or not (close(got[0], want[0]) and close(got[1], want[1], abs_=1e-9) and got[2] == want[2] and got[3] == want[3]):
                            ctx.violation(f"in an interpreter started with -O the summary of {g}/{m} is {got}, but the finite recorded values give {want}",
                                          inp, impl=got, key={"kind": "summary"})
                    for si, sname in enumerate(subjects):
                        o = out["subjects"][sname]
                        gv = o if isinstance(o, str) else o[f"{g}|{m}"]
                        if isinstance(gv, str) or not ((gv is None and col[si] is None) or (gv is not None and col[si] is not None and gv == col[si])):
                            ctx.violation(f"in an interpreter started with -O get_one_subject('{sname}')['{g}']['{m}'] gives {gv}, recorded {col[si]}", inp,
                                          impl=gv, key={"kind": "lookup"})
                            break
    finally:
        shutil.rmtree(d, ignore_errors=True)


def rand_table(ctx, tag, i):
    rng = ctx.rng
    groups = rng.sample(GROUPS, rng.randint(1, 4))
    metrics = rng.sample(METRICS, rng.randint(1, 6))
    n = rng.randint(1, 30)
    subjects = [f"s{k}" for k in range(n)]
    if i % 5 == 2:
        # subject names that differ only in case or in surrounding blanks are different subjects
        subjects = [nm for k in range(n) for nm in (f"P{k:02d}_a", f"P{k:02d}_A", f" P{k:02d}_a", f"p{k:02d}_a ")][:n]
        ctx.count("look_alike_subject_names")
    rng.shuffle(subjects)
    W = len(groups) * len(metrics)
    colmode = [rng.choice(["finite", "finite", "mixed", "mixed", "none"]) for _ in range(W)]
    table = []
    for _ in range(n):
        row = []
        for c in range(W):
            if colmode[c] == "none":
                row.append(rng.choice(NONFINITE))
            elif colmode[c] == "mixed" and rng.random() < 0.35:
                row.append(rng.choice(NONFINITE))
            else:
                row.append(rng.choice([rng.random(), rng.randint(0, 9) / 10, rng.randint(0, 5), rng.random() * 100, 0.9, 0.2,
                                       rng.random() * 1e-5, -rng.random() * 1e-4, 1.11e-16, 1e16 * rng.randint(1, 9), -0.25, -3.0, 2.5e-07, 1e-300]))
        table.append(row)
    cols = one_table(ctx, groups, metrics, subjects, table, f"{tag}{i}")
    # permuted rows: same summaries (checked against the oracle again on the permuted table)
    perm = list(range(n))
    rng.shuffle(perm)
    one_table(ctx, groups, metrics, [subjects[k] for k in perm], [table[k] for k in perm], f"{tag}{i}.perm")


def run(ctx):
    one_table(ctx, ["liver"], ["sq_assd", "sq_dsc"], ["s0", "s1", "s2", "s3"],
              [[0.5, 0.9], ["inf", 0.2], [1.5, 0.5], ["-inf", "nan"]], "corpus.inf")
    one_table(ctx, ["liver"], ["sq_dsc"], ["s0", "s1", "s2"], [[0.2], [0.9], [0.5]], "corpus.unsorted-no-missing")
    one_table(ctx, ["liver"], ["tp", "sq_dsc"], ["P01_a", "P01_A", "p02", "P02", " P03", "P03 ", "P03"],
              [[1, 0.5], [0, 0.25], [2, 0.75], [3, 0.125], [4, 0.9], [5, 0.8], [6, 0.7]], "corpus.look-alike-subjects")
    repeated_value_tables(ctx)
    optimized_interpreter_tables(ctx, ctx.scale(15, 100))
    for i in range(ctx.scale(150, 1500)):
        rand_table(ctx, "rand", i)
    for i in range(ctx.scale(80, 800)):
        constructed_case(ctx, "mem", i)


def search(ctx):
    for i in range(ctx.scale(300, 1500)):
        rand_table(ctx, "search", i)


def replay(ctx, rec):
    i = rec["input"]
    if i.get("mode") == "python -O":
        optimized_interpreter_tables(ctx, 30)
        return
    if i.get("constructed"):
        for k in range(200):
            constructed_case(ctx, "replay", k)
        return
    one_table(ctx, i["groups"], i["metrics"], i["subjects"], i["table"], "replay")
