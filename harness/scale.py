"""Large-scale scenes, described by small *recipes* so that a replay file can regenerate them without storing
millions of voxels, and vectorised exact oracles for them (numpy integer arithmetic only — no model, no library
metric code).  The sizes straddle the places where an implementation might switch to a "fast path": 2^20, 2^21,
2^22 and 2^24 voxels per array / per instance, axis lengths beyond 46 341 (sqrt of 2^31) and 65 536."""
from __future__ import annotations
from fractions import Fraction
import numpy as np


# ----------------------------------------------------------------------------------------------------------------
# recipes -> arrays
# ----------------------------------------------------------------------------------------------------------------
def build(rec: dict):
    """returns (pred, ref) for a recipe"""
    k = rec["kind"]
    dt = np.dtype(rec.get("dtype", "uint8"))
    if k == "embed":
        # a small scene placed into a large zero canvas; optional mirroring of every axis in `flip`
        sp, sr = np.array(rec["small_pred"], dtype=dt), np.array(rec["small_ref"], dtype=dt)
        pred, ref = np.zeros(rec["canvas"], dtype=dt), np.zeros(rec["canvas"], dtype=dt)
        sl = tuple(slice(o, o + s) for o, s in zip(rec["offset"], sp.shape))
        pred[sl], ref[sl] = sp, sr
        for ax in rec.get("flip", []):
            pred, ref = np.flip(pred, ax), np.flip(ref, ax)
        if rec.get("contiguous", True):
            pred, ref = np.ascontiguousarray(pred), np.ascontiguousarray(ref)
        return pred, ref
    if k == "runs":
        # C-order runs of constant label in an array of the given shape: [[start, length, label], ...] per side
        n = int(np.prod(rec["shape"]))
        pred, ref = np.zeros(n, dtype=dt), np.zeros(n, dtype=dt)
        for s, l, v in rec["pred_runs"]:
            pred[s:s + l] = v
        for s, l, v in rec["ref_runs"]:
            ref[s:s + l] = v
        return pred.reshape(rec["shape"]), ref.reshape(rec["shape"])
    if k == "boxes":
        # axis-aligned boxes: [[lo...], [hi...], label] per side
        pred, ref = np.zeros(rec["shape"], dtype=dt), np.zeros(rec["shape"], dtype=dt)
        for lo, hi, v in rec["pred_boxes"]:
            pred[tuple(slice(a, b) for a, b in zip(lo, hi))] = v
        for lo, hi, v in rec["ref_boxes"]:
            ref[tuple(slice(a, b) for a, b in zip(lo, hi))] = v
        return pred, ref
    raise ValueError(k)


# ----------------------------------------------------------------------------------------------------------------
# exact oracles
# ----------------------------------------------------------------------------------------------------------------
def contingency(pred: np.ndarray, ref: np.ndarray):
    """exact voxel counts: sizes of every prediction / reference label and of every overlapping pair"""
    p = pred.ravel().astype(np.int64)
    r = ref.ravel().astype(np.int64)
    pl, pc = np.unique(p[p != 0], return_counts=True)
    rl, rc = np.unique(r[r != 0], return_counts=True)
    m = (p != 0) & (r != 0)
    pm, rm = p[m], r[m]
    inter = {}
    if pm.size:
        pi = np.searchsorted(pl, pm)
        ri = np.searchsorted(rl, rm)
        codes, cnt = np.unique(pi * len(rl) + ri, return_counts=True)
        for c, n in zip(codes.tolist(), cnt.tolist()):
            inter[(int(pl[c // len(rl)]), int(rl[c % len(rl)]))] = int(n)
    return ({int(a): int(b) for a, b in zip(pl, pc)}, {int(a): int(b) for a, b in zip(rl, rc)}, inter)


def pair_score(metric: str, psize, rsize, inter, r: int, ps) -> Fraction | None:
    """exact IoU / Dice / RVD of reference instance r against the union of prediction instances ps"""
    ps = list(dict.fromkeys(int(x) for x in ps))          # a label listed twice is still one label
    i = sum(inter.get((p, r), 0) for p in ps)
    P = sum(psize.get(p, 0) for p in ps)
    R = rsize.get(r, 0)
    if metric == "IOU":
        u = P + R - i
        return Fraction(i, u) if u else Fraction(0)
    if metric == "DSC":
        return Fraction(2 * i, P + R) if P + R else Fraction(0)
    if metric == "RVD":
        return Fraction(P - R, R) if R else (Fraction(0) if P == 0 else None)
    raise ValueError(metric)


def rounded(q: Fraction) -> float:
    """the correctly rounded float64 of an exact quotient — what one IEEE division of the two integer counts gives"""
    return q.numerator / q.denominator


def check_matching_counts(pred, ref, metric, thr: float, m2o, lmap: dict):
    """C03 validity of {pred: ref} from exact counts (IoU / Dice); list of failures.  A score meets the float
    threshold when its correctly rounded float64 value does (the metric is one division of two integer counts)"""
    psize, rsize, inter = contingency(pred, ref)
    cands = {(p, r): pair_score(metric, psize, rsize, inter, r, [p]) for (p, r) in inter}
    elig = {k: s for k, s in cands.items() if rounded(s) >= thr}
    fails = []
    refs = list(lmap.values())
    if not m2o and len(refs) != len(set(refs)):
        fails.append(f"reference assigned to two predictions without many-to-one: {lmap}")
    for p, r in lmap.items():
        if (p, r) not in cands:
            fails.append(f"assigned pair pred {p}/ref {r} does not overlap")
        elif (p, r) not in elig:
            fails.append(f"assigned pair pred {p}/ref {r} has exact score {cands[(p, r)]} which does not meet threshold {thr}")
    for (p, r), s in elig.items():
        if lmap.get(p) == r:
            continue
        if not (p in lmap or (not m2o and r in set(refs))):
            fails.append(f"pair ref {r}/pred {p} has exact score {s} >= threshold {thr} but both partners were left unassigned")
            continue
        if not any((p2 == p or (not m2o and r2 == r)) and cands.get((p2, r2), Fraction(-1)) >= s for p2, r2 in lmap.items()):
            fails.append(f"eligible pair ref {r}/pred {p} (score {s}) displaced only by worse-scoring pairs")
    return fails, cands


def border_coords(M: np.ndarray) -> np.ndarray:
    """foreground voxels with a background or out-of-array face neighbour (definition, vectorised)"""
    M = M.astype(bool)
    interior = M.copy()
    for ax in range(M.ndim):
        lo = np.zeros_like(M)
        hi = np.zeros_like(M)
        sl_a = [slice(None)] * M.ndim
        sl_b = [slice(None)] * M.ndim
        sl_a[ax], sl_b[ax] = slice(1, None), slice(None, -1)
        lo[tuple(sl_a)] = M[tuple(sl_b)]        # neighbour at index-1
        hi[tuple(sl_b)] = M[tuple(sl_a)]        # neighbour at index+1
        interior &= lo & hi
    return np.argwhere(M & ~interior)


def directed_sq(A: np.ndarray, B: np.ndarray, chunk=2048) -> np.ndarray:
    """for each row of A the exact squared distance to the nearest row of B (int64, chunked)"""
    A = A.astype(np.int64)
    B = B.astype(np.int64)
    out = np.empty(len(A), dtype=np.int64)
    for i in range(0, len(A), chunk):
        a = A[i:i + chunk]
        best = None
        for j in range(0, len(B), chunk):
            d = ((a[:, None, :] - B[None, j:j + chunk, :]) ** 2).sum(axis=2).min(axis=1)
            best = d if best is None else np.minimum(best, d)
        out[i:i + chunk] = best
    return out


def assd_exact(R: np.ndarray, P: np.ndarray) -> float:
    bR, bP = border_coords(R), border_coords(P)
    if len(bR) == 0 or len(bP) == 0:
        return float("nan")
    a = np.sqrt(directed_sq(bP, bR).astype(np.float64)).mean()
    b = np.sqrt(directed_sq(bR, bP).astype(np.float64)).mean()
    return float(np.mean((a, b)))


def float_at(q: Fraction) -> float:
    """a threshold exactly at the (rounded) score: the pair must match"""
    return rounded(q)


def float_above(q: Fraction) -> float:
    """the next float above the (rounded) score: the pair must not match"""
    return float(np.nextafter(rounded(q), np.inf))
