"""seedmatrix.py [ids...] — apply every kept seeded change to /repo, run the property's quick check, undo; writes
seeded/RESULTS.json (which check catches which change, with or without a failing input)."""
import json, os, subprocess, sys, glob, time
VERIF = os.path.dirname(os.path.dirname(os.path.abspath(__file__)))
res_path = os.path.join(VERIF, "seeded", "RESULTS.json")
results = json.load(open(res_path)) if os.path.exists(res_path) else {}
only = set(sys.argv[1:])
for d in sorted(glob.glob(os.path.join(VERIF, "seeded", "C*-*m[123]"))):
    name = os.path.basename(d)
    if only and name not in only and name.split("-")[0] not in only:
        continue
    meta = json.load(open(os.path.join(d, "meta.json")))
    pid = meta["property"]
    retired = str(meta.get("status", "")).startswith("retired")
    assert subprocess.run(["git", "-C", "/repo", "status", "--porcelain"], capture_output=True, text=True).stdout.strip() == "", "repo dirty"
    subprocess.run(["git", "-C", "/repo", "apply", os.path.join(d, "patch.diff")], check=True)
    try:
        t0 = time.time()
        checks = [pid] + [c for c in meta.get("also_check", [])]
        row = {}
        for c in checks:
            p = subprocess.run([os.path.join(VERIF, "bin", "check"), c, "quick"], capture_output=True, text=True, cwd=VERIF)
            lines = [l for l in p.stdout.splitlines() if l.startswith("VIOLATION")]
            row[c] = {"exit": p.returncode, "violations": len(lines),
                      "with_failing_input": any("no-failing-input-found" not in l for l in lines),
                      "first": lines[0] if lines else ""}
        results[name] = {"property": pid, "checks": row, "wall_s": round(time.time() - t0, 1)}
        if retired:
            results[name]["negative_control"] = True
        print(name + (" [negative control: must stay quiet]" if retired else ""), {c: ("CAUGHT+input" if r["with_failing_input"] else "CAUGHT(no input)" if r["exit"] == 1 else f"MISSED(exit {r['exit']})") for c, r in row.items()}, flush=True)
    finally:
        subprocess.run(["git", "-C", "/repo", "checkout", "--", "."], check=True)
json.dump(results, open(res_path, "w"), indent=1)
