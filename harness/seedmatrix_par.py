"""seedmatrix_par.py [--seed S] [--workers N] [--out FILE] [ids...] — the seeded matrix in parallel, without touching /repo:
every worker owns a scratch git worktree of /repo and a scratch copy of /verif (outside /repo and /verif, removed at
the end); a change is applied to the worker's worktree, the property's quick check runs there with PANOPTICA_REPO
pointing at it, and the change is undone.  Results go to seeded/RESULTS.json (seed 0) or seeded/RESULTS.seed<S>.json."""
from __future__ import annotations
import json, os, subprocess, sys, glob, time, shutil, threading, queue

VERIF = os.path.dirname(os.path.dirname(os.path.abspath(__file__)))
args = sys.argv[1:]
seed, workers, out = 0, 8, None
ids = []
while args:
    a = args.pop(0)
    if a == "--seed":
        seed = int(args.pop(0))
    elif a == "--workers":
        workers = int(args.pop(0))
    elif a == "--out":
        out = args.pop(0)
    else:
        ids.append(a)
out = out or os.path.join(VERIF, "seeded", "RESULTS.json" if seed == 0 else f"RESULTS.seed{seed}.json")
ROOT = f"/tmp/mx_{os.getpid()}"
todo = queue.Queue()
for d in sorted(glob.glob(os.path.join(VERIF, "seeded", "C*-*m[123]"))):
    name = os.path.basename(d)
    if ids and name not in ids and name.split("-")[0] not in ids:
        continue
    todo.put(d)
results, lock = {}, threading.Lock()


def sh(cmd, **kw):
    return subprocess.run(cmd, capture_output=True, text=True, **kw)


def worker(i):
    repo, verif = f"{ROOT}/{i}/repo", f"{ROOT}/{i}/verif"
    os.makedirs(f"{ROOT}/{i}", exist_ok=True)
    sh(["git", "-C", "/repo", "worktree", "add", "--detach", repo, "HEAD"])
    sh(["rsync", "-a", "--exclude", "replays", "--exclude", ".work", "--exclude", ".git", VERIF + "/", verif + "/"])
    env = dict(os.environ, PANOPTICA_REPO=repo, VERIF_SEED=str(seed))
    while True:
        try:
            d = todo.get_nowait()
        except queue.Empty:
            break
        name = os.path.basename(d)
        meta = json.load(open(os.path.join(d, "meta.json")))
        pid = meta["property"]
        retired = str(meta.get("status", "")).startswith("retired")
        ap = sh(["git", "-C", repo, "apply", os.path.join(d, "patch.diff")])
        if ap.returncode != 0:
            with lock:
                results[name] = {"property": pid, "checks": {pid: {"exit": 3, "violations": 0, "with_failing_input": False, "first": "PATCH DOES NOT APPLY"}}}
            continue
        t0 = time.time()
        row = {}
        for c in [pid] + list(meta.get("also_check", [])):
            p = sh([os.path.join(verif, "bin", "check"), c, "quick"], cwd=verif, env=env)
            lines = [l for l in p.stdout.splitlines() if l.startswith("VIOLATION")]
            row[c] = {"exit": p.returncode, "violations": len(lines), "with_failing_input": any("no-failing-input-found" not in l for l in lines),
                      "first": lines[0] if lines else ""}
        sh(["git", "-C", repo, "checkout", "--", "."])
        sh(["git", "-C", repo, "clean", "-fdq"])
        r = {"property": pid, "checks": row, "wall_s": round(time.time() - t0, 1)}
        if retired:
            r["negative_control"] = True
        with lock:
            results[name] = r
            print(name + (" [negative control: must stay quiet]" if retired else ""),
                  {c: ("CAUGHT+input" if x["with_failing_input"] else "CAUGHT(no input)" if x["exit"] == 1 else f"MISSED(exit {x['exit']})") for c, x in row.items()}, flush=True)
    sh(["git", "-C", "/repo", "worktree", "remove", "--force", repo])


ts = [threading.Thread(target=worker, args=(i,)) for i in range(workers)]
for t in ts:
    t.start()
for t in ts:
    t.join()
shutil.rmtree(ROOT, ignore_errors=True)
sh(["git", "-C", "/repo", "worktree", "prune"])
old = json.load(open(out)) if os.path.exists(out) and ids else {}
old.update(results)
json.dump(dict(sorted(old.items())), open(out, "w"), indent=1)
print("done", len(results))
