#!/bin/sh
# seedtest.sh <patch.diff> <Cxx>... : apply a seeded change to /repo, run the quick checks, undo it
P="$1"; shift
git -C /repo apply "$P" || { echo "PATCH DOES NOT APPLY: $P"; exit 3; }
for id in "$@"; do
  out=$(cd /verif && bin/check "$id" quick 2>&1 | grep -E "^(VIOLATION|OK|INFRA|KNOWN)" | head -3)
  echo "[$id] $out"
done
git -C /repo checkout -- .
