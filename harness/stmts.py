"""stmts.py A.lean B.lean — compare theorem/def/example *statements* (text up to `:= by` / `:=`)."""
import re, sys
def stmts(path):
    src = open(path).read()
    src = re.sub(r"/-.*?-/", "", src, flags=re.S)
    src = re.sub(r"--.*", "", src)
    out = {}
    # split into top-level declarations
    parts = re.split(r"\n(?=(?:theorem|lemma|def|example|structure|abbrev|instance)\b)", src)
    k = 0
    for p in parts:
        m = re.match(r"(theorem|lemma|def|example|structure|abbrev)\s+([^\s:(\[{]*)", p)
        if not m:
            continue
        kind, name = m.group(1), m.group(2)
        if kind == "example":
            k += 1
            name = f"example{k}"
        head = re.split(r":=\s*by\b|:=", p, maxsplit=1)[0]
        out[name] = (kind, " ".join(head.split()))
    return out
a, b = stmts(sys.argv[1]), stmts(sys.argv[2])
bad = 0
for n, (kind, h) in a.items():
    if kind in ("theorem", "example", "structure", "def") and (n not in b or b[n][1] != h):
        print("CHANGED/MISSING:", n)
        bad += 1
print("statements compared:", len(a), "changed:", bad)
sys.exit(1 if bad else 0)
