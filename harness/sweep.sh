#!/bin/bash
# sweep.sh <tier> <seed-from> <seed-to> [parallel] : run every check for a range of seeds on the unchanged tree; print non-zero exits
tier=${1:-quick}; a=${2:-1}; b=${3:-5}; par=${4:-6}
cd "$(dirname "$0")/.." || exit 2
( cd lean && lake build >/dev/null 2>&1 )
mkdir -p .work/sweep
for seed in $(seq $a $b); do for i in $(seq -w 1 20); do echo "C$i $seed"; done; done | \
  xargs -P $par -L 1 sh -c 'VERIF_SEED=$1 bin/check $0 '"$tier"' > .work/sweep/$0.$1.log 2>&1; rc=$?; [ $rc -ne 0 ] && echo "ALARM $0 seed=$1 exit=$rc" && grep -E "VIOLATION|INFRA" .work/sweep/$0.$1.log | head -3; true'
echo "sweep $tier seeds $a..$b finished"
