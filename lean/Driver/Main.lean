/-
  Line-protocol driver: one JSON request per line on stdin, one JSON answer per line on stdout.
  It only parses, calls the executable model (Panoptica.Model.*) and prints; it imports no
  Mathlib so it links as a native executable.
-/
import Lean.Data.Json
import Panoptica.Model.Basic
import Panoptica.Model.Matching
import Panoptica.Model.Metrics
import Panoptica.Model.Overlap
import Panoptica.Model.Relabel
import Panoptica.Model.Result
import Panoptica.Model.Geometry
import Panoptica.Model.Evaluate
import Panoptica.Model.Pipeline
import Panoptica.Model.Aggregator
import Panoptica.Model.Table
import Panoptica.Model.Purity
import Panoptica.Model.Config
open Lean Panoptica

abbrev P := Except String

def fld (j : Json) (k : String) : P Json := j.getObjVal? k
def fldOpt (j : Json) (k : String) : Option Json :=
  match j.getObjVal? k with
  | .ok .null => none
  | .ok v => some v
  | .error _ => none
def asNat (j : Json) : P Nat := j.getNat?
def asInt (j : Json) : P Int := j.getInt?
def asBool (j : Json) : P Bool := j.getBool?
def asStr (j : Json) : P String := j.getStr?
def asArr (j : Json) : P (Array Json) := j.getArr?
def asList {α} (f : Json → P α) (j : Json) : P (List α) := do
  let a ← asArr j
  a.toList.mapM f
def asNats (j : Json) : P (List Nat) := asList asNat j

def asRat (j : Json) : P Rat := do
  let a ← asArr j
  if a.size != 2 then throw "rat: need [num, den]"
  let n ← asInt a[0]!
  let d ← asNat a[1]!
  if d == 0 then throw "rat: zero denominator"
  pure ((n : Rat) / (d : Rat))

def ratJ (q : Rat) : Json := Json.arr #[Json.num (JsonNumber.fromInt q.num), Json.num (JsonNumber.fromNat q.den)]
def natsJ (l : List Nat) : Json := Json.arr (l.map (fun n => Json.num (JsonNumber.fromNat n))).toArray
def pairsJ (l : List (Nat × Nat)) : Json := Json.arr (l.map (fun (a, b) => natsJ [a, b])).toArray

def asMetric (j : Json) : P Metric := do
  let s ← asStr j
  match Metric.ofName? s with
  | some m => pure m
  | none => throw s!"unknown metric {s}"

def asEdge (j : Json) : P EdgeVal := do
  let s ← asStr j
  match EdgeVal.ofName? s with
  | some m => pure m
  | none => throw s!"unknown edge value {s}"

def scoreJ : Score → Json
  | .exact q => Json.mkObj [("q", ratJ q)]
  | .surf a b => Json.mkObj [("surf", Json.arr #[natsJ a, natsJ b])]
  | .err e => Json.mkObj [("err", Json.str e)]

def asScore (j : Json) : P Score := do
  match fldOpt j "q" with
  | some q => pure (.exact (← asRat q))
  | none =>
    match fldOpt j "surf" with
    | some s => do
      let a ← asArr s
      pure (.surf (← asNats a[0]!) (← asNats a[1]!))
    | none => throw "score: need q or surf"

def rvalJ : RVal → Json
  | .num q => Json.mkObj [("num", ratJ q)]
  | .nan => Json.str "nan"
  | .inf => Json.str "inf"
  | .ninf => Json.str "ninf"
  | .none => Json.str "none"

def asArrOf (j : Json) (dataKey : String) (shape : List Nat) : P Arr := do
  pure { shape := shape, data := ← asNats (← fld j dataKey) }

def asZeroTP (j : Json) : P ZeroTP := do
  pure { noInstances := ← asEdge (← fld j "NO_INSTANCES"), emptyPred := ← asEdge (← fld j "EMPTY_PRED"),
         emptyRef := ← asEdge (← fld j "EMPTY_REF"), normal := ← asEdge (← fld j "NORMAL") }

def asHandler (j : Json) : P Handler := do
  let tbl ← asList (fun e => do
      let a ← asArr e
      pure ((← asMetric a[0]!), (← asZeroTP a[1]!))) (← fld j "table")
  pure { table := tbl, emptyListStd := ← asEdge (← fld j "empty_list_std") }

def asBackend (j : Json) : P Backend := do
  match ← asStr j with
  | "cc3d" => pure .cc3d
  | "scipy" => pure .scipy
  | s => throw s!"unknown backend {s}"

def asMatcher (j : Json) : P MatcherCfg := do
  let kind ← asStr (← fld j "kind")
  let metric ← asMetric (← fld j "metric")
  let thr ← asScore (← fld j "thr")
  match kind with
  | "naive" => pure { kind := .naive (← asBool (← fld j "m2o")), metric := metric, thr := thr }
  | "merge" => pure { kind := .merge, metric := metric, thr := thr }
  | s => throw s!"unknown matcher {s}"

def asConfig (j : Json) : P Config := do
  let input ← match ← asStr (← fld j "input") with
    | "SEMANTIC" => pure InputType.SEMANTIC
    | "UNMATCHED" => pure InputType.UNMATCHED
    | "MATCHED" => pure InputType.MATCHED
    | s => throw s!"unknown input type {s}"
  let backend ← match fldOpt j "backend" with
    | some b => pure (some (← asBackend b))
    | none => pure none
  let matcher ← match fldOpt j "matcher" with
    | some m => pure (some (← asMatcher m))
    | none => pure none
  let decision ← match fldOpt j "decision" with
    | some d => do
      let a ← asArr d
      pure (some ((← asMetric a[0]!), (← asScore a[1]!)))
    | none => pure none
  let handler ← match fldOpt j "handler" with
    | some h => asHandler h
    | none => pure Handler.default
  pure { input := input, backend := backend, matcher := matcher,
         evalMetrics := ← asList asMetric (← fld j "eval_metrics"),
         decision := decision, handler := handler }

def listsJ (l : List (Metric × List Score)) : Json :=
  Json.mkObj (l.map (fun (m, vs) => (m.name, Json.arr (vs.map scoreJ).toArray)))

def pipeOutJ (o : PipeOut) : Json :=
  Json.mkObj [("n_ref", o.nRef), ("n_pred", o.nPred), ("tp", o.tp), ("lists", listsJ o.lists),
    ("matched_pred", match o.matchedPred with | some f => natsJ f | none => Json.null),
    ("lmap", match o.lmap with | some m => pairsJ m | none => Json.null)]

def exceptJ {α} (f : α → Json) : Except String α → Json
  | .ok a => Json.mkObj [("ok", f a)]
  | .error e => Json.mkObj [("error", Json.str e)]

def optJ {α} (f : α → Json) : Option α → Json
  | some a => f a
  | none => Json.null

def asGroup (j : Json) : P Group := do
  pure { name := ← asStr (← fld j "name"), labels := ← asNats (← fld j "labels"),
         merge := ← asBool (← fld j "merge"), single := ← asBool (← fld j "single") }

def resultInOf (j : Json) : P ResultIn := do
  let lists ← asList (fun e => do
      let a ← asArr e
      pure ((← asMetric a[0]!), (← asList asRat a[1]!))) (← fld j "lists")
  pure { nRef := ← asNat (← fld j "n_ref"), nPred := ← asNat (← fld j "n_pred"), tp := ← asNat (← fld j "tp"),
         lists := lists, handler := ← asHandler (← fld j "handler") }

def eoJ (x : Except String (Option RVal)) : Json :=
  match x with
  | .ok (some v) => rvalJ v
  | .ok none => Json.str "absent"
  | .error e => Json.mkObj [("error", Json.str e)]

/-! ### aggregator machine -/
open Panoptica.Agg in
def pcName : Agg.PC → String
  | .start => "start" | .read => "read" | .writeBuf => "writeBuf" | .relL1 => "relL1" | .relL1Skip => "relL1Skip"
  | .compute => "compute" | .wantL2 => "wantL2" | .writeOut1 => "writeOut1" | .writeOut2 => "writeOut2"
  | .relL2 => "relL2" | .sWant => "sWant" | .sRead => "sRead" | .sRel => "sRel" | .done => "done"

def cpcName : Agg.CPC → String
  | .checkExists => "checkExists" | .writeHdrNew => "writeHdrNew" | .readHdr => "readHdr"
  | .writeHdrEmpty => "writeHdrEmpty" | .rmBuf => "rmBuf" | .mkBuf => "mkBuf" | .acq1 => "acq1" | .acq2 => "acq2"
  | .readIds => "readIds" | .writeIds _ => "writeIds" | .rel2 => "rel2" | .rel1 => "rel1"

def phaseName : Agg.Phase → String
  | .idle => "idle" | .ctor pc => "ctor." ++ cpcName pc | .running => "running" | .failed => "failed"

def optNatJ : Option Nat → Json
  | some n => n
  | none => Json.null

def worldJ (n : Nat) (w : Agg.World) : Json :=
  Json.mkObj [("out_exists", w.outExists), ("hdrs", w.hdrs), ("buf_exists", w.bufExists),
    ("rows", Json.arr (w.st.out.map (fun r => Json.arr #[r.name, r.tid, r.complete])).toArray),
    ("buf", natsJ w.st.buf), ("l1", optNatJ w.st.l1), ("l2", optNatJ w.st.l2), ("phase", phaseName w.phase),
    ("pcs", Json.arr ((List.range n).map (fun i => Json.str (pcName (w.st.pc i)))).toArray),
    ("seen", Json.arr ((List.range n).map (fun i => Json.arr ((w.st.seen i).map (fun r => Json.arr #[r.name, r.tid, r.complete])).toArray)).toArray)]

def asKinds (j : Json) : P (Nat → Agg.Kind) := do
  let l ← asList asStr j
  pure (fun i => if l.getD i "eval" == "stat" then Agg.Kind.stat else Agg.Kind.eval)

def asAggOp (j : Json) : P Agg.Op := do
  let a ← asArr j
  match ← asStr a[0]! with
  | "new" => pure (Agg.Op.newSession (← asKinds a[1]!))
  | "ctor" => pure Agg.Op.ctor
  | "thread" => pure (Agg.Op.thread (← asNat a[1]!))
  | "crash" => pure Agg.Op.crash
  | s => throw s!"unknown agg op {s}"

def aggTrace (j : Json) : P Json := do
  let init ← fld j "init"
  let rows ← asNats (← fld init "rows")
  let w0 := Agg.initWorld (← asBool (← fld init "out_exists")) (← asBool (← fld init "hdr"))
    (rows.map (fun n => (⟨n, 0, true⟩ : Agg.Row))) (← asBool (← fld init "buf_exists")) (← asNats (← fld init "buf"))
  let names ← asNats (← fld j "names")
  let name : Nat → Nat := fun i => names.getD i 0
  let ops ← asList asAggOp (← fld j "ops")
  let n := names.length
  let (_, trace) := ops.foldl (fun (acc : Agg.World × List Json) op =>
    let w' := Agg.wstep name acc.1 op
    (w', acc.2 ++ [worldJ n w'])) (w0, [])
  pure (Json.arr trace.toArray)

/-! ### tables -/
def asWVal (j : Json) : P (Option (Tbl.WVal Nat)) :=
  match j with
  | .null => pure none
  | .str "nan" => pure (some .nan)
  | .str "inf" => pure (some .inf)
  | .str "ninf" => pure (some .ninf)
  | .str "none" => pure (some .none)
  | _ => do pure (some (.fin (← asNat j)))

def strJ (s : Tbl.Str) : Json := Json.str (String.ofList s)

def optRatArr (j : Json) : P (List (Option Rat)) :=
  asList (fun e => match e with | .null => pure none | _ => do pure (some (← asRat e))) j

def summaryJ (s : Tbl.Summary) : Json :=
  Json.mkObj [("avg", ratJ s.avg), ("var", ratJ s.var), ("min", ratJ s.min), ("max", ratJ s.max)]

def tblOp (j : Json) : P Json := do
  let groups := (← asList asStr (← fld j "groups")).map String.toList
  let keys := (← asList asStr (← fld j "keys")).map String.toList
  let subjects := (← asList asStr (← fld j "subjects")).map String.toList
  let vals ← asList (asList asWVal) (← fld j "values")
  -- rows as written: one cell per (group, key) in header order
  let rows := subjects.zip vals
  let t := Tbl.load (Tbl.mkHeader groups keys) rows
  let gets := subjects.map (fun s => Json.arr ((groups.flatMap (fun g => keys.map (fun m =>
      match t.get s g m with
      | some (some x) => (Json.num (JsonNumber.fromNat x))
      | some none => Json.str "missing"
      | none => Json.str "no-such-entry"))).toArray))
  pure (Json.mkObj [("keys", Json.arr (t.keys.map (fun k => Json.arr #[strJ k.1, strJ k.2])).toArray),
                    ("header", Json.arr ((Tbl.mkHeader groups keys).map strJ).toArray),
                    ("get", Json.arr gets.toArray)])

/-! ### purity machine -/
def asOptBool (j : Json) : P (Option Bool) :=
  match j with
  | .null => pure none
  | _ => do pure (some (← asBool j))

def asPureOp (j : Json) : P Pure.Op := do
  let a ← asArr j
  match ← asStr a[0]! with
  | "newEvaluator" => pure (.newEvaluator { evalMetrics := ← asList asMetric a[1]!, globalMetrics := ← asList asMetric a[2]!,
                                            saveGroupTimes := ← asBool a[3]!, tag := ← asNat a[4]! })
  | "keys" => pure (.keys (← asNat a[1]!))
  | "newAggregator" => pure (.newAggregator (← asNat a[1]!) (← asBool a[2]!))
  | "evaluate" => pure (.evaluate (← asNat a[1]!) (← asNat a[2]!)
      { resultAll := ← asBool a[3]!, saveGroupTimes := ← asOptBool a[4]!, logTimes := ← asOptBool a[5]!, verbose := ← asOptBool a[6]! })
  | "saveConfig" => pure (.saveConfig (← asNat a[1]!))
  | s => throw s!"unknown pure op {s}"

def strsJ (l : List String) : Json := Json.arr (l.map Json.str).toArray

def pureOutJ : Pure.Out → Json
  | .unit => Json.str "unit"
  | .keyList ks => Json.mkObj [("keys", strsJ ks)]
  | .result c i t => Json.mkObj [("result", Json.arr #[c.tag, i, t])]
  | .config c => Json.mkObj [("config", c.tag)]
  | .error => Json.str "error"

def pureRun (j : Json) : P Json := do
  let ops ← asList asPureOp (← fld j "ops")
  let (_, trace) := ops.foldl (fun (acc : Pure.World × List Json) op =>
    let (w', o) := Pure.step acc.1 op
    let adv := (List.range w'.evals.length).map (fun e => match Pure.advertised w' e with | some ks => strsJ ks | none => Json.null)
    (w', acc.2 ++ [Json.mkObj [("out", pureOutJ o), ("advertised", Json.arr adv.toArray),
                               ("agg_keys", Json.arr (w'.aggKeys.map (fun l => strsJ (w'.heap.getD l []))).toArray)]])) (Pure.empty, [])
  pure (Json.arr trace.toArray)

def handle (j : Json) : P Json := do
  let op ← asStr (← fld j "op")
  match op with
  | "ping" => pure (Json.str "pong")
  | "metric" => do
    let shape ← asNats (← fld j "shape")
    let ref ← asArrOf j "ref" shape
    let pred ← asArrOf j "pred" shape
    let m ← asMetric (← fld j "m")
    match fldOpt j "r" with
    | some r => do
      let r ← asNat r
      let ps ← asNats (← fld j "ps")
      pure (scoreJ (metricOn m pred ref r ps))
    | none =>
      -- without selection: the arrays themselves are the masks
      match m with
      | .IOU => pure (scoreJ (.exact (iou ref.data pred.data)))
      | .DSC => pure (scoreJ (.exact (dice ref.data pred.data)))
      | .RVD => pure (match rvd ref.data pred.data with
                      | .ok q => scoreJ (.exact q) | .error e => scoreJ (.err e))
      | .ASSD =>
        let R := coordsWhere ref (· != 0)
        let Pc := coordsWhere pred (· != 0)
        pure (scoreJ (.surf (surfaceSqDists R Pc) (surfaceSqDists Pc R)))
      | .clDSC => pure (scoreJ (.err "clDSC needs skeletons: use op cldice"))
  | "cldice" => do
    let ref ← asNats (← fld j "ref")
    let pred ← asNats (← fld j "pred")
    let sr ← asNats (← fld j "skel_ref")
    let sp ← asNats (← fld j "skel_pred")
    pure (optJ ratJ (clDice ref pred sr sp))
  | "overlap" => do
    let pred ← asNats (← fld j "pred")
    let ref ← asNats (← fld j "ref")
    pure (pairsJ (overlapPairs pred ref (labelsOf ref)))
  | "naive" => do
    let cands ← asList (fun e => do
        let a ← asArr e
        pure ({ score := ← asScore a[0]!, ref := ← asNat a[1]!, pred := ← asNat a[2]! } : Cand Score)) (← fld j "cands")
    let dec ← asBool (← fld j "dec")
    let thr ← asScore (← fld j "thr")
    let m2o ← asBool (← fld j "m2o")
    pure (exceptJ pairsJ (naiveMatch Score.le dec thr m2o cands))
  | "match" => do
    let shape ← asNats (← fld j "shape")
    let ref ← asArrOf j "ref" shape
    let pred ← asArrOf j "pred" shape
    let mc ← asMatcher (← fld j "matcher")
    let cs := scoredCands mc.metric pred ref
    let csJ := Json.arr (cs.map (fun c => Json.arr #[scoreJ c.score, c.ref, c.pred])).toArray
    let sortedJ := Json.arr ((sortBest Score.le mc.metric.decreasing cs).map
      (fun c => Json.arr #[scoreJ c.score, c.ref, c.pred])).toArray
    match mc.kind with
    | .naive m2o =>
      pure (Json.mkObj [("cands", csJ), ("sorted", sortedJ),
        ("lmap", exceptJ pairsJ (naiveMatch Score.le mc.metric.decreasing mc.thr m2o cs))])
    | .merge =>
      let st := mergeMatch Score.le mc.metric.decreasing mc.thr (fun r ps => metricOn mc.metric pred ref r ps) cs
      pure (Json.mkObj [("cands", csJ), ("sorted", sortedJ), ("lmap", exceptJ pairsJ (.ok st.lmap)),
        ("scores", Json.arr (st.scores.map (fun (r, s) => Json.arr #[r, scoreJ s])).toArray)])
  | "relabel" => do
    let pred ← asNats (← fld j "pred")
    let refLabels ← asNats (← fld j "ref_labels")
    let predLabels ← asNats (← fld j "pred_labels")
    let lm ← asList (fun e => do let a ← asArr e; pure ((← asNat a[0]!), (← asNat a[1]!))) (← fld j "lmap")
    let bits ← asNat (← fld j "bits")
    pure (Json.mkObj [("pred", natsJ (mapInstanceLabels bits pred refLabels predLabels lm)),
      ("bits", mapBits bits pred (fullLabelMap lm refLabels predLabels)),
      ("legacy", natsJ (mapInstanceLabelsLegacy bits pred refLabels predLabels lm))])
  | "cc" => do
    let shape ← asNats (← fld j "shape")
    let a ← asArrOf j "arr" shape
    let b ← match fldOpt j "backend" with
      | some b => asBackend b
      | none => pure (defaultBackend shape.length)
    let (o, n) := connectedComponents b a
    pure (Json.mkObj [("data", natsJ o.data), ("n", n)])
  | "assd" => do
    let shape ← asNats (← fld j "shape")
    let ref ← asArrOf j "ref" shape
    let pred ← asArrOf j "pred" shape
    let R := coordsWhere ref (· != 0)
    let Pc := coordsWhere pred (· != 0)
    pure (Json.mkObj [("pred_to_ref", natsJ (surfaceSqDists R Pc)), ("ref_to_pred", natsJ (surfaceSqDists Pc R)),
      ("border_ref", (border R).length), ("border_pred", (border Pc).length)])
  | "bbox" => do
    let shape ← asNats (← fld j "shape")
    let a ← asArrOf j "arr" shape
    let pad ← asNat (← fld j "pad")
    let sup := a.support
    if sup.isEmpty then throw "bbox: empty"
    pure (pairsJ (bboxNd shape sup pad))
  | "paired_crop" => do
    let shape ← asNats (← fld j "shape")
    let ref ← asArrOf j "ref" shape
    let pred ← asArrOf j "pred" shape
    let box := pairedCrop pred ref
    let cp := pred.crop box
    let cr := ref.crop box
    pure (Json.mkObj [("box", pairsJ (box.clip shape)), ("shape", natsJ cp.shape),
      ("pred", natsJ cp.data), ("ref", natsJ cr.data)])
  | "edge" => do
    let z ← asZeroTP (← fld j "handling")
    let tp ← asNat (← fld j "tp")
    let np ← asNat (← fld j "n_pred")
    let nr ← asNat (← fld j "n_ref")
    let (b, e) := z.call tp np nr
    pure (Json.mkObj [("is_edge", b), ("value", e.name)])
  | "result" => do
    let r ← resultInOf j
    let per := Metric.all.map (fun m => (m.name, Json.mkObj [
        ("sq", eoJ (r.sq m)), ("sq_std_sq", eoJ (r.sqStdSq m)), ("pq", eoJ (r.pq m)),
        ("list", match r.listMetric m with
          | .ok (some lm) => Json.mkObj [("avg", rvalJ lm.avg), ("sum", rvalJ lm.sum), ("min", rvalJ lm.min),
              ("max", rvalJ lm.max), ("std_sq", rvalJ lm.stdSq)]
          | .ok none => Json.str "absent"
          | .error e => Json.mkObj [("error", Json.str e)])]))
    pure (Json.mkObj [("fp", Json.num (JsonNumber.fromInt r.fp)), ("fn", Json.num (JsonNumber.fromInt r.fn)),
      ("rq", rvalJ r.rq), ("prec", optJ ratJ r.precision), ("rec", optJ ratJ r.recall),
      ("metrics", Json.mkObj per)])
  | "global" => do
    let h ← asHandler (← fld j "handler")
    let m ← asMetric (← fld j "m")
    let pe ← asBool (← fld j "pred_empty")
    let re ← asBool (← fld j "ref_empty")
    pure (Json.mkObj [("value", optJ rvalJ (globalBin h m pe re (.num 7))),
                      ("legacy", optJ rvalJ (globalBinLegacy h m pe re (.num 7)))])
  | "pipeline" => do
    let shape ← asNats (← fld j "shape")
    let ref ← asArrOf j "ref" shape
    let pred ← asArrOf j "pred" shape
    let cfg ← asConfig (← fld j "cfg")
    let bits ← asNat (← fld j "bits")
    match fldOpt j "groups" with
    | none => pure (exceptJ pipeOutJ (pipeline cfg bits pred ref))
    | some gs => do
      let gs ← asList asGroup gs
      pure (exceptJ (fun l => Json.arr (l.map (fun (n, o) => Json.arr #[Json.str n, exceptJ pipeOutJ o])).toArray)
        (evaluateGroups cfg bits gs pred ref))
  | "agg_trace" => aggTrace j
  | "pure_run" => pureRun j
  | "result_keys" => do
    pure (strsJ (Pure.resultKeys (← asList asMetric (← fld j "eval_metrics")) (← asList asMetric (← fld j "global_metrics"))))
  | "cfg_classes" => do
    pure (Json.arr (Cfg.expectedClasses.map (fun d => Json.mkObj [("name", Json.str d.name), ("params", strsJ d.params),
      ("repr_keys", strsJ (Cfg.reprKeys d)), ("wellformed", Cfg.WellFormed d),
      ("manual", Cfg.manualClasses.contains d.name)])).toArray)
  | "tbl" => tblOp j
  | "rsplit" => do
    let c := (← asStr (← fld j "cell")).toList
    let (a, b) := Tbl.rsplitDash c
    pure (Json.arr #[strJ a, strJ b])
  | "summary" => do
    let col ← optRatArr (← fld j "col")
    pure (summaryJ (Tbl.summary col))
  | "across" => do
    let cols ← asList optRatArr (← fld j "cols")
    pure (summaryJ (Tbl.acrossGroups cols))
  | s => throw s!"unknown op {s}"

partial def loop (inp out : IO.FS.Stream) : IO Unit := do
  let line ← inp.getLine
  if line.isEmpty then return ()
  let ans := match Json.parse line with
    | .ok j => (match handle j with
        | .ok r => Json.mkObj [("r", r)]
        | .error e => Json.mkObj [("bad", Json.str e)])
    | .error e => Json.mkObj [("bad", Json.str s!"json: {e}")]
  out.putStrLn ans.compress
  out.flush
  loop inp out

def main : IO Unit := do
  loop (← IO.getStdin) (← IO.getStdout)
