/-
  Extraction obligations (semantic) for the instance approximation, as read from /repo's current source:
  the backend is the configured one, else cc3d for three or more axes and scipy below (`defaultBackend`), and the
  method does not write to the approximator; on each side the side's own array goes through
  `_connected_components` with that backend unless the side's own label list is empty (then the array itself, count
  0); the result dtype is the one chosen for the larger of the two maxima, both arrays are cast and each count goes to
  its side; `_connected_components` calls `cc3d.connected_components(array, return_N=True)` (default connectivity: all
  neighbours) resp. `scipy.ndimage.label(array)` (default structure: face neighbours) and reports the library's count.
  This is the SEMANTIC branch of `pipeline` in Model/Pipeline.lean and `backendAdj` of Model/Geometry.lean.
-/
import Panoptica.Generated.Approx
import Panoptica.Model.Pipeline
namespace Panoptica.Extracted
open Panoptica.Codes Panoptica.Generated.Approx

def toModel : Bk → Option Panoptica.Backend
  | .cc3d => some .cc3d
  | .scipy => some .scipy
  | .other _ => none

/-- the default backend, for every number of axes -/
theorem backend_default_ok (nd : Nat) :
    (ndCond.eval (env1 "nd" nd)).bind (fun b => toModel (if b then onTrue else onFalse)) = some (Panoptica.defaultBackend nd) := by
  simp only [ndCond, onTrue, onFalse, Cmp.eval, IExpr.eval, env1, Panoptica.defaultBackend]
  by_cases h : nd ≥ 3 <;> simp [h, toModel] <;> omega

theorem backend_config_ok : usesConfiguredBackend = true ∧ writesToSelf = false ∧ bothSidesUseTheChosenBackend = true := by decide

theorem sides_ok : predSide = ("pred", "pred", true) ∧ refSide = ("ref", "ref", true) := by decide

def envPR (pmax rmax : Nat) : String → Nat := fun n => if n = "pmax" then pmax else if n = "rmax" then rmax else 0

theorem result_dtype_ok (pmax rmax : Nat) :
    dtypeArg.eval (envPR pmax rmax) = some (max pmax rmax) ∧ castBoth = true ∧ countsToTheirSides = true := by
  refine ⟨?_, by decide, by decide⟩
  simp [dtypeArg, IExpr.eval, envPR]
  all_goals omega

/-- the two library calls, with their default neighbourhoods, on the array itself; the count is the library's -/
theorem cc_dispatch_ok :
    dispatch.isPerm [(.cc3d, "cc3d.connected_components", true, ["return_N=True"]), (.scipy, "label", true, [])] = true ∧
    countIsTheLibrarysCount = true := by decide

/-- lifted to the model: the backend `pipeline` uses for semantic input is the extracted choice -/
theorem model_backend_is_extracted (cfgBackend : Option Panoptica.Backend) (nd : Nat) :
    cfgBackend.getD (Panoptica.defaultBackend nd) =
      (match cfgBackend with
       | some b => b
       | none => ((ndCond.eval (env1 "nd" nd)).bind (fun b => toModel (if b then onTrue else onFalse))).getD .scipy) := by
  cases cfgBackend with
  | some b => rfl
  | none => rw [backend_default_ok]; rfl

end Panoptica.Extracted
