/-
  Extraction obligations for the structure of the ASSD computation, as read from /repo's current source: the
  symmetric distance is `np.mean` of exactly two directed averages, one in each direction, with the caller's
  connectivity and spacing; a directed average is the mean of the surface distances; the masks are made boolean
  (`np.atleast_1d(x.astype(bool))`, nothing else is done to them — no squeeze, no crop); both borders are
  `x ^ binary_erosion(x, structure, iterations=1)` with the structuring element of connectivity 1 by default
  (face neighbours; outside the array counts as background); the distance map is that of the reference border and
  is read at the prediction border.  This is `surfaceSqDists` / `border` of Model/Geometry.lean, which the C07
  theorems are about.  (Structural facts: the extractor recognises the shapes, the obligations compare.)
-/
import Panoptica.Generated.AssdCode
import Panoptica.Model.Geometry
namespace Panoptica.Extracted
open Panoptica.Generated.AssdCode

theorem assd_symmetric_ok :
    directed.isPerm [("reference", "prediction", "connectivity", "voxelspacing"), ("prediction", "reference", "connectivity", "voxelspacing")] = true ∧
    combine = "np.mean of exactly the two directed values" := by decide

theorem assd_directed_ok :
    asdArgs = "its own (reference, prediction, voxelspacing, connectivity) in that order" ∧ asdReduce = "mean of the distances" := by decide

theorem assd_surface_ok :
    maskPreparation = [("prediction", "np.atleast_1d(x.astype(bool))"), ("reference", "np.atleast_1d(x.astype(bool))")] ∧
    footprint = "generate_binary_structure(ndim, connectivity)" ∧ defaultConnectivity = some 1 ∧
    borders = [("prediction", "x ^ binary_erosion(x, structure=footprint, iterations=1)"),
               ("reference", "x ^ binary_erosion(x, structure=footprint, iterations=1)")] ∧
    distanceMapOf = "complement of the reference border, sampling=None" ∧ readAt = "the prediction border" ∧
    returns = "the distances read" := by decide

/-- the model has this shape: for every border voxel of the prediction, the distance to the nearest border voxel
    of the reference -/
theorem model_surface_shape (ref pred : List Panoptica.Coord) :
    Panoptica.surfaceSqDists ref pred =
      (Panoptica.border pred).filterMap (fun p => Panoptica.nearestSq p (Panoptica.border ref)) := rfl

end Panoptica.Extracted
