/-
  Extraction obligations (semantic) for the crop, as read from /repo's current source: the slice
  `_get_bbox_nd` builds for one axis starts at `lo - pad` (stopping at zero) and stops at
  `min (hi + pad) n + 1` — exactly the pair `bboxNd` of Model/Geometry.lean puts into the box (numpy then
  clips the stop at `n`, `Box.clip`) — so every non-zero index of the axis lies inside and the stop
  never passes the axis by more than the one position numpy clips; `_get_paired_crop` takes the box of
  the union of the two foregrounds with padding 2 (the whole array when both are empty).
-/
import Panoptica.Generated.Bbox
import Panoptica.Model.Geometry
namespace Panoptica.Extracted
open Panoptica.Codes Panoptica.Generated.Bbox

def envBox (lo hi pad n : Nat) : String → Nat := fun v =>
  if v = "lo" then lo else if v = "hi" then hi else if v = "pad" then pad else if v = "n" then n else 0

theorem bbox_bounds_ok (lo hi pad n : Nat) :
    startE.eval (envBox lo hi pad n) = some (lo - pad) ∧
    stopE.eval (envBox lo hi pad n) = some (min (hi + pad) n + 1) := by
  constructor
  · simp [startE, IExpr.eval, envBox]
    all_goals omega
  · simp [stopE, IExpr.eval, envBox]
    all_goals omega

/-- what the bounds are for: after numpy's clipping the slice contains every index between the first and
    the last non-zero one, and nothing outside the axis -/
theorem bbox_covers (lo hi pad n x : Nat) (hlo : lo ≤ x) (hhi : x ≤ hi) (hn : hi < n) :
    ∃ a b, startE.eval (envBox lo hi pad n) = some a ∧ stopE.eval (envBox lo hi pad n) = some b ∧
      a ≤ x ∧ x < min b n ∧ min b n ≤ n := by
  obtain ⟨h1, h2⟩ := bbox_bounds_ok lo hi pad n
  refine ⟨_, _, h1, h2, by omega, by omega, by omega⟩

theorem paired_crop_ok :
    unionOfForegrounds = true ∧ emptyGivesWhole = true ∧ defaultPad = some 2 ∧ padPassedOn = true := by decide

/-- lifted to the model: the entry `bboxNd` computes for an axis is the extracted pair -/
theorem model_bbox_is_extracted (shape : List Nat) (support : List Panoptica.Coord) (pad : Nat) :
    Panoptica.bboxNd shape support pad =
      (List.range shape.length).map (fun ax =>
        let lo := Panoptica.minOf (Panoptica.axisVals support ax)
        let hi := Panoptica.maxOf (Panoptica.axisVals support ax)
        ((startE.eval (envBox lo hi pad (shape.getD ax 0))).getD 0, (stopE.eval (envBox lo hi pad (shape.getD ax 0))).getD 0)) := by
  unfold Panoptica.bboxNd
  apply List.map_congr_left
  intro ax _
  obtain ⟨h1, h2⟩ := bbox_bounds_ok (Panoptica.minOf (Panoptica.axisVals support ax)) (Panoptica.maxOf (Panoptica.axisVals support ax)) pad (shape.getD ax 0)
  simp only [h1, h2, Option.getD_some]

end Panoptica.Extracted
