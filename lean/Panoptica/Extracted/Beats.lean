/-
  Extraction obligation (semantic): both copies of `score_beats_threshold`, as read from /repo's
  current source, mean `beats` on every abstract case (direction x {score <, =, > threshold}).
-/
import Panoptica.Generated.Sites
namespace Panoptica.Extracted
open Panoptica.Sites

theorem beats_metric_ok : ∀ (dec : Bool), ∀ o ∈ Ord3.all, Panoptica.Generated.beatsMetric.eval dec o = some (beatsAbs dec o) := by decide

theorem beats_impl_ok : ∀ (dec : Bool), ∀ o ∈ Ord3.all, Panoptica.Generated.beatsMetricImpl.eval dec o = some (beatsAbs dec o) := by decide

end Panoptica.Extracted
