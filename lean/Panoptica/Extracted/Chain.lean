/-
  Extraction obligation (semantic): the scenario `if/elif` chain of
  `MetricZeroTPEdgeCaseHandling.__call__`, as read from /repo's current source, selects the scenario
  the model selects, on every abstract case (tp zero?, prediction count zero?, reference count zero?).
-/
import Panoptica.Generated.Sites
namespace Panoptica.Extracted
open Panoptica.Sites

theorem scenario_chain_ok : ∀ (tpZ pZ rZ : Bool), chainEval tpZ pZ rZ Panoptica.Generated.scenarioChain = some (modelChain tpZ pZ rZ) := by decide

end Panoptica.Extracted
