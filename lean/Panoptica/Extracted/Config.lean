/-
  Extraction obligation for C19: the class descriptors and enum member lists read from /repo's
  current source equal the ones the theorems in Properties/C19.lean are about.
-/
import Panoptica.Generated.Config
namespace Panoptica.Extracted

theorem classes_eq : Panoptica.Generated.classes = Panoptica.Cfg.expectedClasses := by decide

theorem enums_eq : Panoptica.Generated.enums = Panoptica.Cfg.expectedEnums := by decide

end Panoptica.Extracted
