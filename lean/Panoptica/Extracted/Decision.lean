/-
  Extraction obligation (semantic): the loop of `evaluate_matched_instance` that turns per-instance
  metric dictionaries into tp and the per-metric lists, as read from /repo's current source, counts an
  instance and appends all its values exactly when there is no decision metric, or a threshold is set
  and the instance's decision value beats it — the model's `passesDecision` / `evalMatched`.
-/
import Panoptica.Generated.Sites
namespace Panoptica.Extracted
open Panoptica.Sites

theorem decision_loop_ok : ∀ dn ts b : Bool,
    (Panoptica.Generated.decisionLoopBody.exec (decisionVal dn ts b)).map (·.1)
      = some (if dn || (ts && b) then ["incTp", "appendAll"] else []) := by decide

end Panoptica.Extracted
