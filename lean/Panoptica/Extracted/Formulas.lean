/-
  Extraction obligations (semantic): the derived quantities of `PanopticaResult`, as read from
  /repo's current source, evaluate to the model's functions for every triple of counts.
-/
import Panoptica.Generated.Formulas
import Mathlib.Tactic.Ring
import Mathlib.Tactic.FieldSimp
import Mathlib.Tactic.Push
import Mathlib.Data.Rat.Defs
import Mathlib.Tactic.Linarith
set_option linter.unusedSimpArgs false
namespace Panoptica.Extracted
open Panoptica Panoptica.Formulas

theorem fp_ok (r : ResultIn) :
    Generated.fpExpr.eval r.tp r.nPred r.nRef = some (.num ((r.fp : Int) : Rat)) := by
  simp [Generated.fpExpr, VExpr.eval, AExpr.eval, ResultIn.fp]

theorem fn_ok (r : ResultIn) :
    Generated.fnExpr.eval r.tp r.nPred r.nRef = some (.num ((r.fn : Int) : Rat)) := by
  simp [Generated.fnExpr, VExpr.eval, AExpr.eval, ResultIn.fn]

theorem prec_ok (r : ResultIn) :
    Generated.precExpr.eval r.tp r.nPred r.nRef = r.precision.map Val.num := by
  simp only [Generated.precExpr, VExpr.eval, AExpr.eval, ResultIn.precision, ResultIn.fp]
  by_cases h : ((r.tp : Int) + ((r.nPred : Int) - (r.tp : Int))) = 0
  · have h' : ((r.tp : Rat) + ((r.nPred : Rat) - (r.tp : Rat))) = 0 := by exact_mod_cast h
    simp [h, h']
  · have h' : ¬ ((r.tp : Rat) + ((r.nPred : Rat) - (r.tp : Rat))) = 0 := by exact_mod_cast h
    simp [h]

theorem rec_ok (r : ResultIn) :
    Generated.recExpr.eval r.tp r.nPred r.nRef = r.recall.map Val.num := by
  simp only [Generated.recExpr, VExpr.eval, AExpr.eval, ResultIn.recall, ResultIn.fn]
  by_cases h : ((r.tp : Int) + ((r.nRef : Int) - (r.tp : Int))) = 0
  · have h' : ((r.tp : Rat) + ((r.nRef : Rat) - (r.tp : Rat))) = 0 := by exact_mod_cast h
    simp [h, h']
  · have h' : ¬ ((r.tp : Rat) + ((r.nRef : Rat) - (r.tp : Rat))) = 0 := by exact_mod_cast h
    simp [h, h']

/-- `rq`: the zero-tp guard, and `tp / (tp + fp/2 + fn/2)` = `2tp / (2tp + fp + fn)` otherwise
    (Python raises ZeroDivisionError where the denominator vanishes; the model has no value there) -/
theorem rq_ok (r : ResultIn) (hd : r.tp = 0 ∨ (2 * (r.tp : Int) + r.fp + r.fn) ≠ 0) :
    Generated.rqExpr.eval r.tp r.nPred r.nRef = some r.rq := by
  by_cases h0 : r.tp = 0
  · by_cases hs : 0 < r.nPred + r.nRef
    · have : (0 : Rat) < (r.nPred : Rat) + (r.nRef : Rat) := by exact_mod_cast hs
      simp [Generated.rqExpr, VExpr.eval, BCond.eval, AExpr.eval, ResultIn.rq, h0, hs, this]
    · have h1 : r.nPred = 0 := by omega
      have h2 : r.nRef = 0 := by omega
      simp [Generated.rqExpr, VExpr.eval, BCond.eval, AExpr.eval, ResultIn.rq, h0, h1, h2]
  · have hd' : (2 * (r.tp : Int) + r.fp + r.fn) ≠ 0 := by
      rcases hd with hd | hd
      · exact absurd hd h0
      · exact hd
    have hq : ((2 * (r.tp : Int) + r.fp + r.fn : Int) : Rat) ≠ 0 := by exact_mod_cast hd'
    have ht : (r.tp : Rat) ≠ 0 := by exact_mod_cast h0
    have hb : ((r.tp : Rat) == 0) = false := by simpa using ht
    have hb2 : (r.tp == 0) = false := by simpa using h0
    simp only [Generated.rqExpr, VExpr.eval, BCond.eval, AExpr.eval, ResultIn.rq, Option.map, hb, hb2]
    have hY : (r.tp : Rat) + ((1 : Nat) : Rat) / ((2 : Nat) : Rat) * ((r.nPred : Rat) - r.tp) + ((1 : Nat) : Rat) / ((2 : Nat) : Rat) * ((r.nRef : Rat) - r.tp) ≠ 0 := by
      intro h
      apply hq
      simp only [ResultIn.fp, ResultIn.fn]
      push_cast at h ⊢
      linarith
    have hq' : ((((2 * (r.tp : Int) + r.fp + r.fn : Int) : Rat)) == 0) = false := by simpa using hq
    simp only [hq', show ¬ (2 = 0) by decide, if_false, hY]
    simp only [Bool.false_eq_true, if_false]
    congr 2
    simp only [ResultIn.fp, ResultIn.fn] at hq ⊢
    push_cast at hq hY ⊢
    field_simp
    try ring

/-- which list metric and which mode every `sq*` reads -/
theorem readers_ok : Generated.listReaders =
    [("sq", "IOU", "AVG"), ("sq_assd", "ASSD", "AVG"), ("sq_assd_std", "ASSD", "STD"),
     ("sq_cldsc", "clDSC", "AVG"), ("sq_cldsc_std", "clDSC", "STD"), ("sq_dsc", "DSC", "AVG"),
     ("sq_dsc_std", "DSC", "STD"), ("sq_rvd", "RVD", "AVG"), ("sq_rvd_std", "RVD", "STD"),
     ("sq_std", "IOU", "STD")] := by decide

/-- the segmentation-quality field that belongs to a `pq*` name -/
def sqFieldOf (pq : String) : String := "sq" ++ (pq.drop 2).toString

/-- every `pq*` is the float product of its own `sq*` field with `rq`, whatever their values
    (numbers, NaN, ±inf, None) -/
theorem products_ok (fieldOf : String → RVal) (rq : RVal) :
    ∀ p ∈ Generated.products, p.2.eval fieldOf rq = mulVal (fieldOf (sqFieldOf p.1)) rq := by
  intro p hp
  simp only [Generated.products, List.mem_cons, List.mem_nil_iff, or_false] at hp
  rcases hp with rfl | rfl | rfl <;> simp [PExpr.eval, sqFieldOf] <;> rfl

theorem products_names : Generated.products.map (·.1) = ["pq", "pq_cldsc", "pq_dsc"] := by decide

end Panoptica.Extracted
