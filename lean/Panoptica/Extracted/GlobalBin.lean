/-
  Extraction obligation (semantic): the edge-case branch of `PanopticaResult._calc_global_bin_metric`,
  as read from /repo's current source, is entered exactly when a foreground is empty and hands
  `handle_zero_tp` the counts the model's `globalBin` hands it: tp = 0, a prediction count that is zero
  iff the prediction foreground is empty, a reference count that is zero iff the reference foreground
  is empty (the pre-fix code passed the emptiness flags themselves — `globalBinLegacy`).
-/
import Panoptica.Generated.Sites
namespace Panoptica.Extracted
open Panoptica.Sites

theorem global_bin_call_ok :
    Panoptica.Generated.globalBinCall.metricArgOk = true ∧
    Panoptica.Generated.globalBinCall.returnsResultIfEdge = true ∧
    ∀ pe re : Bool,
      (Panoptica.Generated.globalBinCall.guard.eval pe re).map (· != 0) = some (pe || re) ∧
      Panoptica.Generated.globalBinCall.tp.eval pe re = some 0 ∧
      Panoptica.Generated.globalBinCall.nPred.eval pe re = some (if pe then 0 else 1) ∧
      Panoptica.Generated.globalBinCall.nRef.eval pe re = some (if re then 0 else 1) := by decide

end Panoptica.Extracted
