/-
  Extraction obligations (semantic) for the class-group evaluation, as read from /repo's current source:
  `_evaluate_group` restricts the pair's own prediction and reference array with the group and rebuilds a pair of the
  same class; the group is evaluated as one already-matched instance exactly when it is a single-instance group and
  the input is not matched input already (for both flags and all three input types); then the restricted arrays are
  wrapped as a matched pair and the decision threshold becomes 0.0 (the behaviour recorded as known finding C12 and
  contained in `evaluateGroup` of Model/Pipeline.lean), otherwise it is the configured one; `panoptic_evaluate` is
  called with the evaluator's own settings.  `extract_label` copies first, zeroes what is not in the group, and only
  a merge group binarises.
-/
import Panoptica.Generated.GroupCode
import Panoptica.Model.Pipeline
namespace Panoptica.Extracted
open Panoptica.GroupCode Panoptica.Generated.GroupCode

theorem single_cond_ok :
    ∀ single ∈ [true, false], ∀ ty ∈ [InTy.semantic, InTy.unmatched, InTy.matched],
      singleCond.eval single ty = some (single && ty != InTy.matched) := by decide

theorem single_mode_ok :
    convertedToMatchedPair = true ∧ thresholdWhenSingle = "0.0" ∧ thresholdDefault = "self.decision_threshold" := by decide

theorem group_restriction_ok :
    restricted.map (·.2) = ["prediction", "reference"] ∧ rebuiltInSameClass = true := by decide

theorem group_wiring_ok :
    wiring = [("decision_metric", "self.decision_metric"), ("decision_threshold", "THRESHOLD"), ("edge_case_handler", "self.edge_case_handler"),
              ("global_metrics", "self.global_metrics"), ("input_pair", "GROUPED"), ("instance_approximator", "self.instance_approximator"),
              ("instance_matcher", "self.instance_matcher"), ("instance_metrics", "self.eval_metrics")] := by decide

theorem extract_label_ok :
    extractSteps = ["copy", "zero what is not in the group", "if binary: set non-zero to 1", "return"] ∧
    plainGroupBinary = "False" ∧ mergeGroupBinary = "True" := by decide

def toInput : InTy → Panoptica.InputType
  | .semantic => .SEMANTIC
  | .unmatched => .UNMATCHED
  | .matched => .MATCHED

/-- lifted to the model: the test of `evaluateGroup` is the extracted condition -/
theorem model_single_is_extracted (single : Bool) (ty : InTy) :
    (single && toInput ty != Panoptica.InputType.MATCHED) = (singleCond.eval single ty).getD false := by
  have h := single_cond_ok single (by cases single <;> decide) ty (by cases ty <;> decide)
  rw [h]
  cases single <;> cases ty <;> rfl

end Panoptica.Extracted
