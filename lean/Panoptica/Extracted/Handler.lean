/-
  Extraction obligation for C08 / C13: the constructor of `MetricZeroTPEdgeCaseHandling`
  (utils/edge_case_handling.py), as read from /repo's current source, fills each of the four
  zero-TP scenarios with the scenario's own argument when one was given and with
  `default_result` otherwise — so a handler written the short way (a default plus the scenarios
  that differ) is the handler the theorems of C08 and C13 are about.
-/
import Panoptica.Generated.Config
namespace Panoptica.Extracted
open Panoptica.Cfg

/-- what the constructor stores, from the regenerated descriptor -/
def handlerStores : List (String × Store) :=
  ((Panoptica.Generated.classes.find? (fun d => d.name == "MetricZeroTPEdgeCaseHandling")).map (·.stores)).getD []

/-- table key of a scenario and the constructor argument that configures it -/
def scenarioParams : List (String × String) :=
  [("edgecase_dict[EMPTY_PRED]", "empty_prediction_result"), ("edgecase_dict[EMPTY_REF]", "empty_reference_result"),
   ("edgecase_dict[NO_INSTANCES]", "no_instances_result"), ("edgecase_dict[NORMAL]", "normal")]

theorem handler_ctor_ok :
    ∀ e ∈ scenarioParams, lookup handlerStores e.1 = some (Store.ifNoneParam e.2 "default_result") := by decide

/-- … read semantically: the value stored for a scenario, for any argument assignment -/
theorem handler_entry_sem {V : Type} (S : Sem V) (args : String → V) :
    ∀ e ∈ scenarioParams, (lookup handlerStores e.1).map (evalStore S args) =
      some (if S.isNone (args e.2) then args "default_result" else args e.2) := by
  intro e he
  rw [handler_ctor_ok e he]
  rfl

/-- exactly the four scenarios fall back to `default_result` (in whatever order the constructor fills them);
    nothing else in the constructor does -/
theorem handler_keys_ok :
    ((handlerStores.filter (fun e => match e.2 with | .ifNoneParam _ _ => true | _ => false)).map (·.1)).isPerm
      (scenarioParams.map (·.1)) = true := by decide

end Panoptica.Extracted
