/-
  Extraction obligations for the per-instance evaluation, as read from /repo's current source: an instance is the
  same label on both sides; it contributes nothing exactly when one of its two masks is empty (all four
  combinations); otherwise both masks are cut with the padded box of their union and every evaluated metric is called
  with (reference mask, prediction mask); one tuple per matched label, in `_evaluate_instance`'s parameter order (what an
  accepted instance adds to tp and the lists is `decision_loop_ok`, Extracted/Decision.lean); the evaluated pair carries the matched pair's
  own arrays and counts (prediction count to `num_pred_instances`, reference count to `num_ref_instances`).
  This is `evaluateInstance` / `evalMatched` of Model/Evaluate.lean and the `evalPhase` of Model/Pipeline.lean.
-/
import Panoptica.Generated.InstanceCode
namespace Panoptica.Extracted
open Panoptica.Generated.InstanceCode

theorem instance_guard_ok :
    ∀ rE ∈ [true, false], ∀ pE ∈ [true, false], emptyGuard.eval rE pE = some (rE || pE) := by decide

theorem instance_eval_ok :
    masks = "reference == idx, prediction == idx (the same label)" ∧ guardReturnsEmptyDict = true ∧
    crop = "box of the two masks, default padding" ∧ bothMasksCut = true ∧
    metricCall = "metric(reference mask, prediction mask)" := by decide

theorem instance_collect_ok :
    instanceTuples = "one per label of the pair's matched_instances" ∧ tupleOrderIsParameterOrder = true ∧
    listsInit = "an empty list per evaluated metric" := by decide

theorem instance_result_ok :
    resultWiring = [("list_metrics", "score_dict"), ("num_pred_instances", "PAIR.n_prediction_instance"),
                    ("num_ref_instances", "PAIR.n_reference_instance"), ("prediction_arr", "PAIR.prediction_arr"),
                    ("reference_arr", "PAIR.reference_arr"), ("tp", "tp")] := by decide

end Panoptica.Extracted
