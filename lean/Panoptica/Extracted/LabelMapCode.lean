/-
  Extraction obligations for `InstanceLabelMap` (utils/instancelabelmap.py), as read from /repo's current source: for EVERY
  label map and every argument (incl. `None` where the method accepts it) the extracted query expressions compute what the
  model's `LMap` functions compute — `contains_pred` = "is a key", `contains_ref` = "is a value", `contains_and` / `contains_or`
  = conjunction / disjunction with an absent argument counting as true; `get_pred_labels_matched_to_ref` collects the keys whose
  value is the reference, in insertion order (`LMap.predsOf`); `get_one_to_one_dictionary` hands out the dictionary;
  `add_labelmap_entry` raises exactly when the prediction is a key with another value and otherwise stores the reference
  (`LMap.add`, proved below to have that reading).
-/
import Panoptica.Generated.LabelMapCode
set_option linter.unusedSimpArgs false
namespace Panoptica.Extracted
open Panoptica Panoptica.LMCode Panoptica.Generated.LabelMapCode

theorem contains_pred_ok (m : LMap) (p : Lab) : contains_pred.eval m (args1 p) = some (m.containsPred p) := by
  cases h : m.containsPred p <;> cases h' : m.containsRef p <;> simp [contains_pred, Q.eval, args1, h, h']

theorem contains_ref_ok (m : LMap) (r : Lab) : contains_ref.eval m (args1 r) = some (m.containsRef r) := by
  cases h : m.containsPred r <;> cases h' : m.containsRef r <;> simp [contains_ref, Q.eval, args1, h, h']

/-- finishing tactic: split on the arguments being `None` and on the two membership facts, then evaluate -/
macro "lm_cases" m:ident p:ident r:ident "with" q:ident : tactic => `(tactic|
  (cases $p:ident with
   | none => cases $r:ident with
     | none => simp [$q:ident, Q.eval, args2]
     | some y => cases h : LMap.containsRef $m:ident y <;> simp [$q:ident, Q.eval, args2, h]
   | some x => cases $r:ident with
     | none => cases h : LMap.containsPred $m:ident x <;> simp [$q:ident, Q.eval, args2, h]
     | some y => cases h : LMap.containsPred $m:ident x <;> cases h' : LMap.containsRef $m:ident y <;>
         simp [$q:ident, Q.eval, args2, h, h']))

theorem contains_and_ok (m : LMap) (p r : Option Lab) :
    contains_and.eval m (args2 p r) = some ((p.map m.containsPred).getD true && (r.map m.containsRef).getD true) := by
  lm_cases m p r with contains_and

theorem contains_or_ok (m : LMap) (p r : Option Lab) :
    contains_or.eval m (args2 p r) = some ((p.map m.containsPred).getD true || (r.map m.containsRef).getD true) := by
  lm_cases m p r with contains_or

theorem matched_to_ref_ok :
    matchedToRef_over = "the entries in insertion order" ∧ matchedToRef_collects = "key" ∧
    matchedToRef_condition = "value == argument 0" ∧ oneToOne_returns = "the dictionary" := by decide

/-- the raising guard, for all four situations: raises iff the prediction is a key whose value differs -/
theorem add_guard_ok :
    ∀ k ∈ [true, false], ∀ d ∈ [true, false], add_raiseGuard.eval k d = some (k && d) := by decide

theorem add_entry_ok :
    add_loopOver = "the prediction labels (a single label is wrapped into a list)" ∧ add_thenSets = "labelmap[p] = reference label" := by decide

/-- the model's `LMap.add` read the same way: an error iff the prediction is mapped to another reference -/
theorem model_add_is_extracted (m : LMap) (p r : Lab) :
    (∃ e, m.add p r = .error e) ↔ ∃ r', m.lookup p = some r' ∧ r' ≠ r := by
  unfold LMap.add
  cases h : m.lookup p with
  | none => simp
  | some r' =>
    by_cases hr : r' = r
    · simp [hr]
    · simp [hr]

end Panoptica.Extracted
