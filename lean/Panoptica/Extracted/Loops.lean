/-
  Extraction obligations (semantic): the bodies of the two matcher loops, as read from /repo's
  current source, do in every abstract situation (prediction already assigned? reference already
  assigned? many-to-one allowed? candidate passes the threshold? direction of the metric, and how the
  merged score compares with the stored one) exactly what the model's `naiveStep` / `mergeStep` do.
-/
import Panoptica.Generated.Sites
namespace Panoptica.Extracted
open Panoptica.Sites

theorem naive_loop_ok :
    ∀ v ∈ LEnv.all, (Panoptica.Generated.naiveLoopBody.exec v).map (·.1) = some (naiveAbs v) := by decide

theorem merge_loop_ok :
    ∀ v ∈ LEnv.all, (Panoptica.Generated.mergeLoopBody.exec v).map (·.1) = some (mergeAbs v) := by decide

end Panoptica.Extracted
