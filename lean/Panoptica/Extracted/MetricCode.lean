/-
  Extraction obligations (semantic) for the three count-based metric helpers, as read from /repo's current
  source: for all counts the extracted bodies evaluate to the closed forms of `dice`, `iou`, `rvd`
  (Model/Metrics.lean) — Dice `2I / (R + P)` with 0 for two empty masks; IoU `I / U` with 0 for an empty union;
  RVD `(P − R) / R` with 0 for two empty masks and a ZeroDivisionError (`none`) for an empty reference against a
  non-empty prediction.
-/
import Panoptica.Generated.MetricCode
import Panoptica.Model.Metrics
import Panoptica.Proofs.MetricCode
set_option linter.unusedSimpArgs false
set_option linter.unusedVariables false
set_option linter.unreachableTactic false
set_option linter.unusedTactic false
namespace Panoptica.Extracted
open Panoptica.MetricCode Panoptica.Generated.MetricCode

theorem dice_body_ok (I U R P : Nat) :
    diceBody.eval (envM I U R P) =
      some (if R = 0 ∧ P = 0 then 0 else (2 * (I : Rat)) / ((R : Rat) + (P : Rat))) := by
  rcases count_cases R with rfl | ⟨hR, hR1, hR2, hR3⟩ <;>
  rcases count_cases P with rfl | ⟨hP, hP1, hP2, hP3⟩ <;>
  rcases count_cases U with rfl | ⟨hU, hU1, hU2, hU3⟩
  all_goals metric_close diceBody

theorem iou_body_ok (I U R P : Nat) :
    iouBody.eval (envM I U R P) = some (if U = 0 then 0 else (I : Rat) / (U : Rat)) := by
  rcases count_cases R with rfl | ⟨hR, hR1, hR2, hR3⟩ <;>
  rcases count_cases P with rfl | ⟨hP, hP1, hP2, hP3⟩ <;>
  rcases count_cases U with rfl | ⟨hU, hU1, hU2, hU3⟩
  all_goals metric_close iouBody

theorem rvd_body_ok (I U R P : Nat) :
    rvdBody.eval (envM I U R P) =
      (if R = 0 ∧ P = 0 then some 0 else if R = 0 then none else some (((P : Rat) - (R : Rat)) / (R : Rat))) := by
  rcases count_cases R with rfl | ⟨hR, hR1, hR2, hR3⟩ <;>
  rcases count_cases P with rfl | ⟨hP, hP1, hP2, hP3⟩ <;>
  rcases count_cases U with rfl | ⟨hU, hU1, hU2, hU3⟩
  all_goals metric_close rvdBody

/-- lifted to the model: `dice`, `iou`, `rvd` on flat masks are the extracted bodies at the masks' counts -/
theorem model_dice_is_extracted (ref pred : Panoptica.Flat) :
    some (Panoptica.dice ref pred) =
      diceBody.eval (envM (Panoptica.interCount ref pred) (Panoptica.unionCount ref pred) (Panoptica.sumVals ref) (Panoptica.sumVals pred)) := by
  rw [dice_body_ok]
  simp only [Panoptica.dice]
  by_cases hR : Panoptica.sumVals ref = 0 <;> by_cases hP : Panoptica.sumVals pred = 0 <;>
    simp [hR, hP]

theorem model_iou_is_extracted (ref pred : Panoptica.Flat) :
    some (Panoptica.iou ref pred) =
      iouBody.eval (envM (Panoptica.interCount ref pred) (Panoptica.unionCount ref pred) (Panoptica.sumVals ref) (Panoptica.sumVals pred)) := by
  rw [iou_body_ok]
  simp only [Panoptica.iou]
  by_cases hU : Panoptica.unionCount ref pred = 0 <;> simp [hU]

theorem model_rvd_is_extracted (ref pred : Panoptica.Flat) :
    (match Panoptica.rvd ref pred with | .ok x => some x | .error _ => none) =
      rvdBody.eval (envM (Panoptica.interCount ref pred) (Panoptica.unionCount ref pred) (Panoptica.sumVals ref) (Panoptica.sumVals pred)) := by
  rw [rvd_body_ok]
  simp only [Panoptica.rvd]
  by_cases hR : Panoptica.sumVals ref = 0 <;> by_cases hP : Panoptica.sumVals pred = 0 <;>
    simp [hR, hP]

end Panoptica.Extracted
