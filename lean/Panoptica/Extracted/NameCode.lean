/-
  Extraction obligation for `config_dir_by_name` (utils/filepath.py), as read from /repo's current source: for EVERY name the
  extracted expression evaluates to the model's `byName` (the name itself when it already ends in ".yaml", the name with
  ".yaml" appended otherwise), the directory is the package directory, and the pair (directory, name) is returned.
  What `byName` guarantees for all names is in Properties/C19Names.lean.
-/
import Panoptica.Generated.NameCode
set_option linter.unusedSimpArgs false
namespace Panoptica.Extracted
open Panoptica.NameCode Panoptica.Generated.NameCode

theorem by_name_ok (n : List Char) : byNameCode.eval n = some (byName n) := by
  have e : ".yaml".toList = ext := rfl
  cases h : ext.isSuffixOf n <;>
    simp only [byNameCode, NExpr.eval, NCond.eval, byName, e, h, Option.map_some, Bool.not_true, Bool.not_false,
      Bool.false_eq_true, if_true, if_false, ↓reduceIte]

theorem by_name_glue_ok :
    directoryIs = "two levels above this file (the package directory)" ∧ returnsPair = "(directory, name)" := by decide

end Panoptica.Extracted
