/-
  Extraction obligations (semantic) for `_calc_overlapping_labels` (_functionals.py): the integer
  expressions read from /repo's current source evaluate — for all naturals — to the pair code
  `p * M + r`, `M = max(ref_labels) + 1`, the keep filter `code > M` and the decoding
  `(code % M, code / M)`; the code is accumulated in 64-bit unsigned arithmetic; the background of
  the *reference* zeroes the code; the codes are the distinct values of that array.  Together:
  the per-voxel function and the filter/decoding of `overlapPairsM twoPow64` (Model/Overlap.lean),
  the function the candidate-discovery theorems of C09 (and, through them, C03 / C14) are about.
-/
import Panoptica.Generated.Overlap
import Panoptica.Model.Overlap
namespace Panoptica.Extracted
open Panoptica.Codes Panoptica.Generated.Overlap

/-- finishing steps that do not depend on how the source spells a sum, a product or a comparison -/
macro "fin_arith" : tactic => `(tactic| all_goals (first | omega | ac_rfl | (simp only [Nat.mul_comm, Nat.add_comm, Nat.add_left_comm, Nat.mul_left_comm]; done)))
macro "fin_bool" : tactic => `(tactic| all_goals (first | omega | (rw [Bool.eq_iff_iff]; simp; all_goals omega)))

theorem acc_bits_ok : accBits = some 64 := by decide

theorem masked_ok : masked = Side.ref := by decide

theorem unique_ok : codesAreUnique = true := by decide

theorem max_ref_ok (mx : Nat) : maxRefE.eval (envMx mx) = some (mx + 1) := by
  simp [maxRefE, IExpr.eval, envMx]
  fin_arith

theorem code_ok (p r M i : Nat) : codeE.eval (env4 p r M i) = some (p * M + r) := by
  simp [codeE, IExpr.eval, env4]
  fin_arith

theorem keep_ok (p r M i : Nat) : keepC.eval (env4 p r M i) = some (decide (i > M)) := by
  simp [keepC, Cmp.eval, IExpr.eval, env4]
  fin_bool

theorem decode_ok (p r M i : Nat) (hM : M ≠ 0) :
    decFst.eval (env4 p r M i) = some (i % M) ∧ decSnd.eval (env4 p r M i) = some (i / M) := by
  simp [decFst, decSnd, IExpr.eval, env4, hM]

/-- lifted to the model: one entry of `encodeArr twoPow64 (mx + 1)` is the extracted code of the cast
    prediction voxel, wrapped at the extracted width and zeroed by the extracted side -/
theorem model_entry_is_extracted (p r mx : Nat) :
    Panoptica.encodeArr Panoptica.twoPow64 (mx + 1) [p] [r] =
      [ (match masked with
         | .ref => if r == 0 then 0 else ((codeE.eval (env4 (p % 2 ^ (accBits.getD 0)) r ((maxRefE.eval (envMx mx)).getD 0) 0)).getD 0) % 2 ^ (accBits.getD 0)
         | _ => 0) ] := by
  rw [masked_ok, acc_bits_ok, max_ref_ok, code_ok]
  simp [Panoptica.encodeArr, Panoptica.twoPow64]

/-- … and the filter / decoding of `overlapPairsM` are the extracted ones -/
theorem model_decode_is_extracted (codes : List Nat) (mx : Nat) :
    (codes.filter (fun i => i > mx + 1)).map (fun i => (i % (mx + 1), i / (mx + 1))) =
      (codes.filter (fun i => (keepC.eval (env4 0 0 (mx + 1) i)).getD false)).map
        (fun i => ((decFst.eval (env4 0 0 (mx + 1) i)).getD 0, (decSnd.eval (env4 0 0 (mx + 1) i)).getD 0)) := by
  have h : ∀ i, (keepC.eval (env4 0 0 (mx + 1) i)).getD false = decide (i > mx + 1) := by
    intro i; rw [keep_ok]; rfl
  have hd : ∀ i, ((decFst.eval (env4 0 0 (mx + 1) i)).getD 0, (decSnd.eval (env4 0 0 (mx + 1) i)).getD 0) = (i % (mx + 1), i / (mx + 1)) := by
    intro i
    obtain ⟨h1, h2⟩ := decode_ok 0 0 (mx + 1) i (by omega)
    rw [h1, h2]; rfl
  simp only [h, hd]

end Panoptica.Extracted
