/-
  Extraction obligations (semantic) for the phase program of `panoptic_evaluate`, as read from /repo's
  current source: from each of the three input types, and for both outcomes of each of the two
  zero-instance tests, the actions executed are exactly the stages of `pipeline` (Model/Pipeline.lean) in its
  order, and the run ends with a result; every call is wired with the caller's own settings (the zero-instance
  step and the evaluation get the configured instance metrics, the decision metric and threshold go to the
  evaluation, the result object is built from the evaluated pair's own fields); the input is cropped and a
  copy is processed.
-/
import Panoptica.Generated.Phases
namespace Panoptica.Extracted
open Panoptica.Phases Panoptica.Generated.Phases

/-- 3 input types × 2 × 2 outcomes of the zero-instance tests -/
theorem phases_ok :
    ∀ t ∈ [Ty.semantic, Ty.unmatched, Ty.matched], ∀ zU ∈ [true, false], ∀ zM ∈ [true, false],
      run zU zM phases t = some (expected zU zM t, Ty.result) := by decide

def wiringOf (a : Act) : List (List (String × String)) := (phases.filter (fun p => p.act = a)).map (·.wiring)

theorem wiring_ok :
    wiringOf .zeroCases = [[("0", "PAIR"), ("edge_case_handler", "edge_case_handler"), ("eval_metrics", "instance_metrics"), ("global_metrics", "global_metrics")],
                           [("0", "PAIR"), ("edge_case_handler", "edge_case_handler"), ("eval_metrics", "instance_metrics"), ("global_metrics", "global_metrics")]] ∧
    wiringOf .evaluate = [[("0", "PAIR"), ("decision_metric", "decision_metric"), ("decision_threshold", "decision_threshold"), ("eval_metrics", "instance_metrics")]] ∧
    wiringOf .mkResult = [[("edge_case_handler", "edge_case_handler"), ("global_metrics", "global_metrics"), ("list_metrics", "PAIR.list_metrics"),
                           ("num_pred_instances", "PAIR.num_pred_instances"), ("num_ref_instances", "PAIR.num_ref_instances"),
                           ("prediction_arr", "PAIR.prediction_arr"), ("reference_arr", "PAIR.reference_arr"), ("tp", "PAIR.tp")]] ∧
    wiringOf .approximate = [[("0", "PAIR")]] ∧ wiringOf .matchInstances = [[("0", "PAIR")]] := by decide

theorem entry_ok : cropsBeforeCopy = true ∧ worksOnCopy = true := by decide

/-- the stages, spelled out: what `pipeline` does for each input type (its `match` on the input type, the
    zero tests of `matchPhase` / `evalPhase`) -/
theorem expected_spelled_out (zU zM : Bool) :
    expected zU zM .matched = .zeroCases :: (if zM then [] else [.evaluate, .mkResult]) ∧
    expected zU zM .unmatched = .zeroCases :: (if zU then [] else .matchInstances :: expected zU zM .matched) ∧
    expected zU zM .semantic = .approximate :: expected zU zM .unmatched := by
  cases zU <;> cases zM <;> decide

end Panoptica.Extracted
