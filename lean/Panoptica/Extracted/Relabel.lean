/-
  Extraction obligations (semantic) for the relabelling after matching, as read from /repo's current
  source: `_get_smallest_fitting_uint` chooses, for every value, the width the model's
  `smallestUintBits` chooses (hence a width that holds the value); `map_instance_labels` starts its
  fresh labels at `max(ref_labels) + 1`, gives the k-th unmatched prediction the k-th label after that, and calls a prediction unmatched when it is not a key of the label map;
  `_map_labels` builds a table of length `max(array, keys, values) + 1` in the array's dtype promoted
  with the smallest width that holds that maximum.  These are the functions `fullLabelMap`,
  `assignFresh`, `mapBits` of Model/Relabel.lean, which the C04 theorems (and the reported
  assignment of C03, the fresh labels of C09 / C11) are about.
-/
import Panoptica.Generated.Relabel
import Panoptica.Model.Relabel
namespace Panoptica.Extracted
open Panoptica.Codes Panoptica.Generated.Relabel

macro "fin_arith'" : tactic => `(tactic| all_goals (first | omega | ac_rfl | (simp only [Nat.mul_comm, Nat.add_comm, Nat.add_left_comm, Nat.mul_left_comm]; done)))

/-- the dtype chain picks `smallestUintBits v` for every value -/
theorem fit_ok (v : Nat) : chainVal (env1 "v" v) fitChain fitElse = some (Panoptica.smallestUintBits v) := by
  simp only [fitChain, fitElse, chainVal, Cmp.eval, IExpr.eval, env1, Panoptica.smallestUintBits]
  by_cases h1 : v < 256
  · simp [h1] <;> omega
  · by_cases h2 : v < 65536
    · simp [h1, h2] <;> omega
    · by_cases h3 : v < 4294967295
      · simp [h1, h2, h3] <;> omega
      · simp [h1, h2, h3] <;> omega

/-- … and that width holds the value -/
theorem fit_holds (v : Nat) (hv : v < 2 ^ 64) : ∃ b, chainVal (env1 "v" v) fitChain fitElse = some b ∧ v < 2 ^ b := by
  refine ⟨_, fit_ok v, ?_⟩
  unfold Panoptica.smallestUintBits
  split
  · omega
  · split
    · omega
    · split <;> omega

def envFresh (mx nref npred pmx : Nat) : String → Nat := fun n =>
  if n = "mx" then mx else if n = "nref" then nref else if n = "npred" then npred else if n = "pmx" then pmx else 0

/-- the first fresh label is one beyond the largest reference label — whatever the instance counts are -/
theorem fresh_base_ok (mx nref npred pmx : Nat) : freshBase.eval (envFresh mx nref npred pmx) = some (mx + 1) := by
  simp [freshBase, IExpr.eval, envFresh]
  fin_arith'

def envBK (b k : Nat) : String → Nat := fun n => if n = "b" then b else if n = "k" then k else 0

/-- the k-th unmatched prediction (in label order, k = 0, 1, …) is given the k-th label after the first fresh one —
    whether the source counts with a running counter or with `enumerate` -/
theorem fresh_kth_ok (b k : Nat) : freshKth.eval (envBK b k) = some (b + k) := by
  simp [freshKth, IExpr.eval, envBK]
  fin_arith'

/-- unmatched = not a key of the prediction → reference dictionary -/
theorem missed_ok : missedTest = MissedTest.notInKeys := by decide

def envTab (amax kmax vmax : Nat) : String → Nat := fun n =>
  if n = "amax" then amax else if n = "kmax" then kmax else if n = "vmax" then vmax else 0

/-- the look-up table has one entry for every value up to the largest of array, keys and values, and is built in the
    array's dtype promoted with the width chosen for exactly that largest value -/
theorem table_ok (amax kmax vmax : Nat) :
    tableLen.eval (envTab amax kmax vmax) = some (Nat.max amax (Nat.max kmax vmax) + 1) ∧
    tableFitArg.eval (envTab amax kmax vmax) = some (Nat.max amax (Nat.max kmax vmax)) ∧
    tablePromotesInput = true := by
  refine ⟨?_, ?_, by decide⟩
  · simp [tableLen, IExpr.eval, envTab]
    all_goals omega
  · simp [tableFitArg, IExpr.eval, envTab]
    all_goals omega

theorem assignFresh_getElem? (ps : List Nat) (c k : Nat) :
    (Panoptica.assignFresh ps c)[k]? = (ps[k]?).map (fun p => (p, c + k)) := by
  induction ps generalizing c k with
  | nil => simp [Panoptica.assignFresh]
  | cons p ps ih =>
    cases k with
    | zero => simp [Panoptica.assignFresh]
    | succ k =>
      simp only [Panoptica.assignFresh, List.getElem?_cons_succ, ih]
      cases ps[k]? <;> simp <;> omega

/-- lifted to the model: the k-th entry of `assignFresh ps c` pairs the k-th unmatched prediction with the extracted
    k-th label after `c`; `fullLabelMap` starts it at the extracted base -/
theorem model_fresh_is_extracted (ps : List Nat) (c k : Nat) :
    (Panoptica.assignFresh ps c)[k]? = (ps[k]?).map (fun p => (p, (freshKth.eval (envBK c k)).getD 0)) := by
  rw [fresh_kth_ok, assignFresh_getElem?]; rfl

theorem model_base_is_extracted (lm : Panoptica.LMap) (refLabels predLabels : List Nat) :
    Panoptica.fullLabelMap lm refLabels predLabels =
      lm ++ Panoptica.assignFresh (predLabels.filter (fun p => !lm.containsPred p))
        ((freshBase.eval (envFresh (Panoptica.maxOf refLabels) refLabels.length predLabels.length (Panoptica.maxOf predLabels))).getD 0) := by
  rw [fresh_base_ok]; rfl

/-- … and `mapBits` is the extracted promotion of the array's width with the extracted fitting width -/
theorem model_bits_is_extracted (arrBits : Nat) (arr : Panoptica.Flat) (m : List (Nat × Nat)) :
    Panoptica.mapBits arrBits arr m =
      Nat.max arrBits ((chainVal (env1 "v"
        ((tableFitArg.eval (envTab (Panoptica.maxOf arr) (Panoptica.maxOf (m.map (·.1))) (Panoptica.maxOf (m.map (·.2))))).getD 0))
        fitChain fitElse).getD 0) := by
  rw [(table_ok _ _ _).2.1, Option.getD_some, fit_ok, Option.getD_some]
  rfl

end Panoptica.Extracted
