/-
  Extraction obligations (semantic): the lock / file-operation skeleton of `Panoptica_Aggregator`,
  as read from /repo's current source, produces — on every outcome of its guards — exactly the
  sequence of lock and file events that the model's step functions (`Agg.step`, `Agg.ctorStep`, the
  functions the C16 / C17 theorems quantify over) produce.
-/
import Panoptica.Generated.Skeleton
namespace Panoptica.Extracted
open Panoptica.Agg

/-- `evaluate` of a subject nobody has claimed: claim under `inevalfilelock`, compute outside any
    lock, append the row under `filelock` -/
theorem evaluate_fresh_ok :
    (Panoptica.Generated.evaluateProg.exec (evalEnv false)).map (·.1)
      = some (soloEvs (fun _ => 5) (initSt (fun _ => .eval) []) 0 12) := by decide

/-- `evaluate` of a claimed subject: read the claims under `inevalfilelock`, release, return -/
theorem evaluate_claimed_ok :
    (Panoptica.Generated.evaluateProg.exec (evalEnv true)).map (·.1)
      = some (soloEvs (fun _ => 5) (initSt (fun _ => .eval) [⟨5, 9, true⟩]) 0 12) := by decide

/-- `make_statistic`: read the output file under `filelock` -/
theorem stat_ok :
    (Panoptica.Generated.statProg.exec (evalEnv false)).map (·.1)
      = some (soloEvs (fun _ => 5) (initSt (fun _ => .stat) []) 0 12) := by decide

/-- the constructor's file part, in each of the ten file states -/
theorem ctor_ok :
    ∀ w ∈ ctorWorlds, (Panoptica.Generated.ctorProg.exec (ctorEnv w)).map (·.1) = some (ctorEvs w 20).1 := by
  decide

/-- the two module-level locks are two separate `multiprocessing.Lock()` objects -/
theorem locks_ok : Panoptica.Generated.moduleLocksDistinct = true := by decide

/-! ### which file each operation acts on

`evaluateProg`, `statProg` and `ctorProg` name their files `.out` / `.buf` after the *variable* that is passed; the
facts below follow the *value* of that variable through the constructor (a symbolic evaluation by the extractor: `P` is
the path given, `str`/`Path` are the identity, `+ '.tsv'` appends, the buffer is a sibling named after the stem). -/

/-- every operation classified as acting on the output file (the buffer file) is given exactly the path the
    constructor stores as the output file (the buffer file) — in every branch of the constructor, and in `evaluate`,
    `_save_one_subject` and `make_statistic`, which only see the stored attributes -/
theorem out_paths_ok :
    Panoptica.Generated.pathUses.all (fun u =>
      match Panoptica.Generated.pathBranches.find? (fun b => b.1 == u.2.2.1) with
      | some b => if u.1 == "out" then u.2.2.2 == b.2.1 else u.1 == "buf" && u.2.2.2 == b.2.2
      | none => false) = true := by decide

/-- the stored output file is the given path if it carries an extension and the given path plus `.tsv` otherwise;
    the buffer file is the sibling `<stem>_panoptica_aggregator_tmp.tsv` of *that* (resolved) path -/
theorem path_branches_ok :
    (Panoptica.Generated.pathBranches.map (fun b => (b.2.1, b.2.2))).isPerm
      [("P", "sibling(P, stem(P)+'_panoptica_aggregator_tmp.tsv')"),
       ("P+'.tsv'", "sibling(P+'.tsv', stem(P+'.tsv')+'_panoptica_aggregator_tmp.tsv')")] = true := by decide

/-- non-vacuity: the facts cover both files in both branches -/
theorem path_uses_nonempty :
    (Panoptica.Generated.pathUses.filter (fun u => u.1 == "out")).length ≥ 8 ∧
    (Panoptica.Generated.pathUses.filter (fun u => u.1 == "buf")).length ≥ 8 := by decide

end Panoptica.Extracted
