/-
  Extraction obligations (semantic): the lock / file-operation skeleton of `Panoptica_Aggregator`,
  as read from /repo's current source, produces — on every outcome of its guards — exactly the
  sequence of lock and file events that the model's step functions (`Agg.step`, `Agg.ctorStep`, the
  functions the C16 / C17 theorems quantify over) produce.
-/
import Panoptica.Generated.Skeleton
namespace Panoptica.Extracted
open Panoptica.Agg

/-- `evaluate` of a subject nobody has claimed: claim under `inevalfilelock`, compute outside any
    lock, append the row under `filelock` -/
theorem evaluate_fresh_ok :
    (Panoptica.Generated.evaluateProg.exec (evalEnv false)).map (·.1)
      = some (soloEvs (fun _ => 5) (initSt (fun _ => .eval) []) 0 12) := by decide

/-- `evaluate` of a claimed subject: read the claims under `inevalfilelock`, release, return -/
theorem evaluate_claimed_ok :
    (Panoptica.Generated.evaluateProg.exec (evalEnv true)).map (·.1)
      = some (soloEvs (fun _ => 5) (initSt (fun _ => .eval) [⟨5, 9, true⟩]) 0 12) := by decide

/-- `make_statistic`: read the output file under `filelock` -/
theorem stat_ok :
    (Panoptica.Generated.statProg.exec (evalEnv false)).map (·.1)
      = some (soloEvs (fun _ => 5) (initSt (fun _ => .stat) []) 0 12) := by decide

/-- the constructor's file part, in each of the ten file states -/
theorem ctor_ok :
    ∀ w ∈ ctorWorlds, (Panoptica.Generated.ctorProg.exec (ctorEnv w)).map (·.1) = some (ctorEvs w 20).1 := by
  decide

/-- the two module-level locks are two separate `multiprocessing.Lock()` objects -/
theorem locks_ok : Panoptica.Generated.moduleLocksDistinct = true := by decide

end Panoptica.Extracted
