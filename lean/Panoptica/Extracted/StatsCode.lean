/-
  Extraction obligations (semantic) for the statistics side, as read from /repo's current source: a cell of the
  table is kept exactly when it holds a finite number (empty, NaN, +inf and −inf are all "missing") — the model's
  `classify`; a summary is average (`np.average`), population standard deviation (`np.std` without `ddof`), `min`
  and `max` of the value list itself, with no further arguments; `get_summary` summarises the recorded values
  with the `None`s removed; the across-groups summary is, per metric, the summary of the per-group averages.
-/
import Panoptica.Generated.StatsCode
namespace Panoptica.Extracted
open Panoptica.StatsCode Panoptica.Generated.StatsCode

/-- all five kinds of cell -/
theorem cell_classification_ok :
    ∀ k ∈ [Cell.empty, Cell.finite, Cell.nan, Cell.posInf, Cell.negInf], cellTree.eval k = some (expectedLeaf k) := by decide

/-- lifted to the model: on what the aggregator can write (a finite value, NaN, ±inf, nothing) the tree keeps the value
    exactly when `Table.classify` does -/
def cellOf {F : Type} : Option (Panoptica.Tbl.WVal F) → Cell
  | some (.fin _) => .finite
  | some .nan => .nan
  | some .inf => .posInf
  | some .ninf => .negInf
  | some .none => .empty
  | none => .empty

theorem model_classify_is_extracted {F : Type} (v : Option (Panoptica.Tbl.WVal F)) :
    (cellTree.eval (cellOf v) = some Leaf.keep) ↔ (Panoptica.Tbl.classify v).isSome = true := by
  have h := cell_classification_ok
  cases v with
  | none =>
    have := h Cell.empty (by decide)
    simp [cellOf, this, expectedLeaf, Panoptica.Tbl.classify]
  | some w =>
    cases w with
    | fin x => have := h Cell.finite (by decide); simp [cellOf, this, expectedLeaf, Panoptica.Tbl.classify]
    | nan => have := h Cell.nan (by decide); simp [cellOf, this, expectedLeaf, Panoptica.Tbl.classify]
    | inf => have := h Cell.posInf (by decide); simp [cellOf, this, expectedLeaf, Panoptica.Tbl.classify]
    | ninf => have := h Cell.negInf (by decide); simp [cellOf, this, expectedLeaf, Panoptica.Tbl.classify]
    | none => have := h Cell.empty (by decide); simp [cellOf, this, expectedLeaf, Panoptica.Tbl.classify]

theorem summary_fields_ok :
    (summaryFields.filter (fun f => f.1 != "value_list")).isPerm
      [("avg", "np.average", []), ("std", "np.std", []), ("min", "min", []), ("max", "max", [])] = true := by decide

theorem summary_inputs_ok :
    getFilter = "not None" ∧ summaryOf = "the recorded values without None" ∧
    acrossGroups = "per metric: the averages of get_summary over all groups" := by decide

end Panoptica.Extracted
