/-
  Extraction obligations for the layout of the results table, as read from /repo's current source: header and rows
  are built by the *same* two nested loops — groups outside, metrics inside, over the same two attributes — after a
  first cell (`subject_name` / the subject's name); a column is named `<group>-<metric>`; every group's cells come from
  a fresh `to_dict()` of that group's own result (an absent metric gives an empty cell); the loader splits a column
  name at its last `-`, files column `idx` under the idx-th name and takes the subject from the first cell.  This is
  the shape of `mkHeader` / `mkRow` / `load` in Model/Table.lean, which the C18 theorems (`aligned`,
  `header_roundtrip`, `row_width`) are about.  (The facts here are structural: the extractor recognises the shapes and
  names them; the obligations compare the names.)
-/
import Panoptica.Generated.TableCode
import Panoptica.Model.Table
namespace Panoptica.Extracted
open Panoptica.Generated.TableCode

theorem header_layout_ok :
    headerFirst = "subject_name" ∧ headerCell = ["outer", "lit:-", "inner"] ∧
    headerOuter = "self.class_group_names" ∧ headerInner = "self.evaluation_metrics" := by decide

/-- rows use the very loops of the header -/
theorem row_layout_ok :
    rowFirst = "the subject name" ∧ rowOuter = headerOuter ∧ rowInner = headerInner ∧
    rowDict = "a fresh to_dict() of this group's own result, taken inside the group loop" ∧
    rowCell = "the group's value of the metric, or the empty string" ∧ rowWritten = "one row to the output file" := by decide

theorem loader_layout_ok :
    loaderFirstColumn = headerFirst ∧ loaderSplit = "at the last '-' of every column name after the first" ∧
    loaderFiledUnder = "column idx of the row (after the first) under the idx-th column name: (group, metric)" ∧
    loaderSubject = "first cell of the row" := by decide

/-- the model's header and row have exactly this shape (groups outside, metrics inside, `g-m`) -/
theorem model_layout (groups keys : List Panoptica.Tbl.Str) (subject : Panoptica.Tbl.Str) {F : Type}
    (res : Panoptica.Tbl.Str → Panoptica.Tbl.Str → Option (Panoptica.Tbl.WVal F)) :
    Panoptica.Tbl.mkHeader groups keys =
      Panoptica.Tbl.subjectCol :: groups.flatMap (fun g => keys.map (fun m => g ++ '-' :: m)) ∧
    Panoptica.Tbl.mkRow groups keys subject res = (subject, groups.flatMap (fun g => keys.map (fun m => res g m))) := by
  exact ⟨rfl, rfl⟩

end Panoptica.Extracted
