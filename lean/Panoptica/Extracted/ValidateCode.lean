/-
  Extraction obligations for the input validation of the processing pairs, as read from /repo's current source: in all 128
  situations `_check_array_integrity` accepts exactly the pairs the model accepts (two arrays of one shape and one dtype, of the
  expected kind when a kind is expected); semantic pairs expect any integer dtype, both instance pairs an unsigned one; the
  pair constructor validates before it stores anything. This is what the harness's "rejected call" cases assume (C15) and the
  dtype premise of the renaming / relabelling theorems (C09, C04: instance maps are unsigned).
-/
import Panoptica.Generated.ValidateCode
namespace Panoptica.Extracted
open Panoptica.VCode Panoptica.Generated.ValidateCode

theorem validation_ok : ∀ f ∈ allFacts, accepts requirements f = some (modelAccepts f) := by decide +kernel

theorem allFacts_complete (f : Facts) : f ∈ allFacts := by
  rcases f with ⟨a, b, c, d, e, g, h⟩
  cases a <;> cases b <;> cases c <;> cases d <;> cases e <;> cases g <;> cases h <;> decide

/-- hence for every call -/
theorem validation_all (f : Facts) : accepts requirements f = some (modelAccepts f) :=
  validation_ok f (allFacts_complete f)

theorem expected_dtypes_ok :
    semanticExpects = .anyInteger ∧ unmatchedExpects = .unsignedInteger ∧ matchedExpects = .unsignedInteger := by decide

theorem validates_first_ok : constructorStartsWith = "validates (prediction, reference, expected dtype) first" := by decide

end Panoptica.Extracted
