/-
  Panoptica.Model.Aggregator — `Panoptica_Aggregator` (panoptica_aggregator.py) as a small-step
  machine: constructor, concurrent `evaluate(subject)` calls, `make_statistic()` calls, crashes and
  restarts, over the two files (output .tsv, claim buffer) and the two module-level locks
  (`inevalfilelock` = l1, `filelock` = l2).

  Threads are numbered; thread `i` runs the program `prog i` (evaluate subject `name i`, or build a
  statistics object). A schedule is any list of thread numbers; picking a blocked or finished
  thread is a no-op. Every lock operation and every file operation is one atomic step, except the
  row append which is split into two steps (`writeOut1` leaves an incomplete row, `writeOut2`
  completes it) so that "a reader never sees a partial row" is a real statement.
-/
namespace Panoptica.Agg

inductive Kind where
  | eval | stat
  deriving DecidableEq, Repr

inductive PC where
  -- evaluate(subject_name)
  | start | read | writeBuf | relL1 | relL1Skip | compute | wantL2 | writeOut1 | writeOut2 | relL2
  -- make_statistic()
  | sWant | sRead | sRel
  | done
  deriving DecidableEq, Repr

structure Row where
  name : Nat
  tid : Nat
  complete : Bool
  deriving DecidableEq, Repr

structure St where
  buf : List Nat          -- claim buffer file: subject names
  out : List Row          -- output file: rows after the header
  l1 : Option Nat         -- owner of inevalfilelock
  l2 : Option Nat         -- owner of filelock
  pc : Nat → PC
  seen : Nat → List Row   -- what statistics thread i has read

def upd {α : Type} (f : Nat → α) (i : Nat) (v : α) : Nat → α := fun j => if j = i then v else f j

def completeLast : List Row → List Row
  | [] => []
  | [r] => [{ r with complete := true }]
  | r :: rs => r :: completeLast rs

/-- one atomic action of thread `i`; `none` = blocked or finished -/
def step (name : Nat → Nat) (s : St) (i : Nat) : Option St :=
  match s.pc i with
  | .start => if s.l1 = none then some { s with l1 := some i, pc := upd s.pc i .read } else none
  | .read => if name i ∈ s.buf then some { s with pc := upd s.pc i .relL1Skip }
             else some { s with pc := upd s.pc i .writeBuf }
  | .writeBuf => some { s with buf := s.buf ++ [name i], pc := upd s.pc i .relL1 }
  | .relL1 => some { s with l1 := none, pc := upd s.pc i .compute }
  | .relL1Skip => some { s with l1 := none, pc := upd s.pc i .done }
  | .compute => some { s with pc := upd s.pc i .wantL2 }
  | .wantL2 => if s.l2 = none then some { s with l2 := some i, pc := upd s.pc i .writeOut1 } else none
  | .writeOut1 => some { s with out := s.out ++ [⟨name i, i, false⟩], pc := upd s.pc i .writeOut2 }
  | .writeOut2 => some { s with out := completeLast s.out, pc := upd s.pc i .relL2 }
  | .relL2 => some { s with l2 := none, pc := upd s.pc i .done }
  | .sWant => if s.l2 = none then some { s with l2 := some i, pc := upd s.pc i .sRead } else none
  | .sRead => some { s with seen := upd s.seen i s.out, pc := upd s.pc i .sRel }
  | .sRel => some { s with l2 := none, pc := upd s.pc i .done }
  | .done => none

/-- run a schedule; blocked / finished picks are no-ops -/
def run (name : Nat → Nat) (s : St) : List Nat → St
  | [] => s
  | i :: is => match step name s i with
    | some s' => run name s' is
    | none => run name s is

/-- state right after the constructor: the buffer holds the names of the rows already recorded -/
def initSt (kind : Nat → Kind) (old : List Row) : St :=
  { buf := old.map (·.name), out := old, l1 := none, l2 := none,
    pc := fun i => match kind i with | .eval => .start | .stat => .sWant,
    seen := fun _ => [] }

/-- number of steps thread `i` still has to take (termination measure) -/
def remaining : PC → Nat
  | .start => 10 | .read => 9 | .writeBuf => 8 | .relL1 => 7 | .compute => 6 | .wantL2 => 5
  | .writeOut1 => 4 | .writeOut2 => 3 | .relL2 => 2 | .relL1Skip => 1
  | .sWant => 3 | .sRead => 2 | .sRel => 1
  | .done => 0

/-! ### constructor, crash, restart (one output path) -/

inductive CPC where
  | checkExists | writeHdrNew | readHdr | writeHdrEmpty | rmBuf | mkBuf | acq1 | acq2 | readIds
  | writeIds (ids : List Nat) | rel2 | rel1
  deriving DecidableEq, Repr

inductive Phase where
  | idle                  -- no live session (before the first one, or after a crash)
  | ctor (pc : CPC)       -- constructor running (single-threaded)
  | running               -- constructor returned; evaluate / make_statistic threads may run
  | failed                -- constructor raised (header mismatch)
  deriving DecidableEq, Repr

structure World where
  outExists : Bool
  hdrs : Nat              -- header lines at the top of the output file
  bufExists : Bool
  st : St                 -- st.out = rows of the output file, st.buf = lines of the buffer file
  phase : Phase

/-- one step of the constructor (after the fixes: header written into an empty file; claims rebuilt
    from the rows, not from the header cell) -/
def ctorStep (w : World) (pc : CPC) : World :=
  match pc with
  | .checkExists => { w with phase := .ctor (if w.outExists then .readHdr else .writeHdrNew) }
  | .writeHdrNew => { w with outExists := true, hdrs := w.hdrs + 1, phase := .ctor .rmBuf }
  | .readHdr =>
      if w.hdrs = 0 ∧ w.st.out = [] then { w with phase := .ctor .writeHdrEmpty }
      else if w.hdrs = 0 then { w with phase := .failed }      -- first row is not the header
      else { w with phase := .ctor .rmBuf }
  | .writeHdrEmpty => { w with hdrs := w.hdrs + 1, phase := .ctor .rmBuf }
  | .rmBuf => { w with bufExists := false, st := { w.st with buf := [] }, phase := .ctor .mkBuf }
  | .mkBuf => { w with bufExists := true, phase := .ctor .acq1 }
  | .acq1 => { w with st := { w.st with l1 := some 0 }, phase := .ctor .acq2 }
  | .acq2 => { w with st := { w.st with l2 := some 0 }, phase := .ctor .readIds }
  | .readIds => { w with phase := .ctor (.writeIds (w.st.out.map (·.name))) }
  | .writeIds ids => { w with st := { w.st with buf := w.st.buf ++ ids }, phase := .ctor .rel2 }
  | .rel2 => { w with st := { w.st with l2 := none }, phase := .ctor .rel1 }
  | .rel1 => { w with st := { w.st with l1 := none }, phase := .running }

inductive Op where
  | newSession (kind : Nat → Kind)   -- a new aggregator object on this output path
  | ctor                              -- next constructor step
  | thread (i : Nat)                  -- thread i takes a step (if enabled)
  | crash                             -- the process is killed: threads and locks vanish, files stay

/-- a crash between the two halves of one row write is a kill inside a single `write` call, which
    the model (like the property: "between any two file operations") excludes -/
def midRow (w : World) : Prop := ∃ r ∈ w.st.out, r.complete = false

instance (w : World) : Decidable (midRow w) := by unfold midRow; exact inferInstance

def wstep (name : Nat → Nat) (w : World) : Op → World
  | .newSession kind =>
    match w.phase with
    | .idle => { w with phase := .ctor .checkExists,
                        st := { w.st with pc := fun i => match kind i with | .eval => .start | .stat => .sWant,
                                          seen := fun _ => [] } }
    | _ => w
  | .ctor => match w.phase with
    | .ctor pc => ctorStep w pc
    | _ => w
  | .thread i => match w.phase with
    | .running => (match step name w.st i with | some s' => { w with st := s' } | none => w)
    | _ => w
  | .crash =>
    if midRow w then w
    else { w with phase := .idle, st := { w.st with l1 := none, l2 := none, pc := fun _ => .done } }

def wrun (name : Nat → Nat) (w : World) (ops : List Op) : World := ops.foldl (wstep name) w

/-- the four initial file states of the property: absent, empty, header only, header + rows -/
def initWorld (outExists : Bool) (hdr : Bool) (rows : List Row) (bufExists : Bool) (buf : List Nat) : World :=
  { outExists := outExists, hdrs := if hdr then 1 else 0, bufExists := bufExists,
    st := { buf := buf, out := rows, l1 := none, l2 := none, pc := fun _ => .done, seen := fun _ => [] },
    phase := .idle }

/-! ### buffer file naming -/

/-- `Path(out).stem + "_panoptica_aggregator_tmp.tsv"` for an output file name `stem ++ ".tsv"` -/
def bufName (stem : String) : String := stem ++ "_panoptica_aggregator_tmp.tsv"

/-- the pre-fix constant name, kept to document the repaired defect -/
def bufNameLegacy (_stem : String) : String := "panoptica_aggregator_tmp.tsv"

end Panoptica.Agg
