/-
  Panoptica.Model.Basic — shared vocabulary of the executable model.
  No imports outside Lean core: everything here is linked into the driver executable.
-/
namespace Panoptica

/-- Instance / semantic label. `0` is background. -/
abbrev Lab := Nat

/-- A flat label map (row-major data of an n-d array; the shape is irrelevant for counting). -/
abbrev Flat := List Lab

/-- The metrics of `panoptica.metrics.Metric`, in the enum's declaration order
    (this is the iteration order of `for m in Metric` in `PanopticaResult.__init__`). -/
inductive Metric where
  | DSC | IOU | ASSD | clDSC | RVD
  deriving DecidableEq, Repr, Inhabited

def Metric.all : List Metric := [.DSC, .IOU, .ASSD, .clDSC, .RVD]

/-- `_Metric.decreasing`: lower is better for ASSD and RVD. -/
def Metric.decreasing : Metric → Bool
  | .ASSD => true
  | .RVD => true
  | _ => false

def Metric.name : Metric → String
  | .DSC => "DSC" | .IOU => "IOU" | .ASSD => "ASSD" | .clDSC => "clDSC" | .RVD => "RVD"

def Metric.ofName? : String → Option Metric
  | "DSC" => some .DSC | "IOU" => some .IOU | "ASSD" => some .ASSD
  | "clDSC" => some .clDSC | "RVD" => some .RVD | _ => none

/-- `EdgeCaseResult`: the five values a handler may prescribe. -/
inductive EdgeVal where
  | INF | NAN | ZERO | ONE | NONE
  deriving DecidableEq, Repr, Inhabited

def EdgeVal.name : EdgeVal → String
  | .INF => "INF" | .NAN => "NAN" | .ZERO => "ZERO" | .ONE => "ONE" | .NONE => "NONE"

def EdgeVal.ofName? : String → Option EdgeVal
  | "INF" => some .INF | "NAN" => some .NAN | "ZERO" => some .ZERO
  | "ONE" => some .ONE | "NONE" => some .NONE | _ => none

/-- A reported value: a number in `S`, or one of the non-numbers Python can produce. -/
inductive Val (S : Type) where
  | num (x : S)
  | nan
  | inf
  | ninf
  | none
  deriving DecidableEq, Repr

def EdgeVal.toVal {S : Type} (zero one : S) : EdgeVal → Val S
  | .INF => .inf | .NAN => .nan | .ZERO => .num zero | .ONE => .num one | .NONE => .none

/-- `score_beats_threshold`: `≥` for increasing metrics, `≤` for decreasing ones.
    The order is a parameter `le : S → S → Bool` so that theorems hold for every total preorder. -/
def beats {S : Type} (le : S → S → Bool) (decreasing : Bool) (score thr : S) : Bool :=
  if decreasing then le score thr else le thr score

/-- strict improvement in the metric's direction (merge matcher). -/
def strictlyBetter {S : Type} (le : S → S → Bool) (decreasing : Bool) (new old : S) : Bool :=
  if decreasing then (le new old && !le old new) else (le old new && !le new old)

/-- number of positions where `p` holds -/
def countP' {α : Type} (p : α → Bool) (l : List α) : Nat := (l.filter p).length

/-- Sorted list of the distinct non-zero values: `np.unique(arr[arr != 0])`. -/
def insertSorted (x : Nat) : List Nat → List Nat
  | [] => [x]
  | y :: ys => if x < y then x :: y :: ys else if x = y then y :: ys else y :: insertSorted x ys

def uniqueSorted (l : List Nat) : List Nat := l.foldr insertSorted []

def labelsOf (a : Flat) : List Lab := uniqueSorted (a.filter (· != 0))

def maxOf (l : List Nat) : Nat := l.foldl max 0

end Panoptica
