/-
  Panoptica.Model.Codes — a small language for the integer arithmetic of `_calc_overlapping_labels`
  (_functionals.py): the pair code, `max_ref`, the keep filter and the decoding, as read from the
  source by harness/extract/overlap_code.py (Generated/Overlap.lean).  The obligations
  (Extracted/Overlap.lean) state what these expressions *evaluate* to for all naturals, in which
  unsigned width the code is accumulated, and which side's background is masked; together that is
  exactly the per-voxel function `encodeArr` / `overlapPairsM` of Model/Overlap.lean at M = 2^64.
-/
namespace Panoptica.Codes

/-- integer expressions over named quantities (`p`: prediction voxel, `r`: reference voxel,
    `M`: `max_ref`, `mx`: the largest reference label, `i`: a code) -/
inductive IExpr where
  | var (name : String)
  | lit (n : Nat)
  | add (a b : IExpr) | mul (a b : IExpr) | mod (a b : IExpr) | div (a b : IExpr)
  | max (a b : IExpr) | min (a b : IExpr)
  | monus (a b : IExpr)       -- `max(a - b, 0)`
  | sub (a b : IExpr)         -- Python int subtraction; `none` when it would go below zero (never an index / size then)
  | other (src : String)
  deriving Repr, DecidableEq

/-- `none`: outside the subset (Python's `%` / `//` by zero raise; the obligations exclude that case) -/
def IExpr.eval (env : String → Nat) : IExpr → Option Nat
  | .var n => some (env n)
  | .lit n => some n
  | .add a b => match a.eval env, b.eval env with | some x, some y => some (x + y) | _, _ => none
  | .mul a b => match a.eval env, b.eval env with | some x, some y => some (x * y) | _, _ => none
  | .mod a b => match a.eval env, b.eval env with | some x, some y => if y = 0 then none else some (x % y) | _, _ => none
  | .div a b => match a.eval env, b.eval env with | some x, some y => if y = 0 then none else some (x / y) | _, _ => none
  | .max a b => match a.eval env, b.eval env with | some x, some y => some (Nat.max x y) | _, _ => none
  | .min a b => match a.eval env, b.eval env with | some x, some y => some (Nat.min x y) | _, _ => none
  | .monus a b => match a.eval env, b.eval env with | some x, some y => some (x - y) | _, _ => none
  | .sub a b => match a.eval env, b.eval env with | some x, some y => if x < y then none else some (x - y) | _, _ => none
  | .other _ => none

inductive Cmp where
  | gt (a b : IExpr) | ge (a b : IExpr) | lt (a b : IExpr) | le (a b : IExpr)
  | not (c : Cmp)
  | other (src : String)
  deriving Repr

def Cmp.eval (env : String → Nat) : Cmp → Option Bool
  | .gt a b => match a.eval env, b.eval env with | some x, some y => some (decide (x > y)) | _, _ => none
  | .ge a b => match a.eval env, b.eval env with | some x, some y => some (decide (x ≥ y)) | _, _ => none
  | .lt a b => match a.eval env, b.eval env with | some x, some y => some (decide (x < y)) | _, _ => none
  | .le a b => match a.eval env, b.eval env with | some x, some y => some (decide (x ≤ y)) | _, _ => none
  | .not c => (c.eval env).map (!·)
  | .other _ => none

/-- which array's background zeroes the code -/
inductive Side where
  | ref | pred | other (src : String)
  deriving Repr, DecidableEq

/-- environment builder -/
def env4 (p r M i : Nat) : String → Nat := fun n =>
  if n = "p" then p else if n = "r" then r else if n = "M" then M else if n = "i" then i else 0

def envMx (mx : Nat) : String → Nat := fun n => if n = "mx" then mx else 0

/-- one named quantity -/
def env1 (name : String) (v : Nat) : String → Nat := fun n => if n = name then v else 0

/-- `if c₁: b₁ elif c₂: b₂ … else: e` over one quantity: the value of the first branch whose condition holds -/
def chainVal (env : String → Nat) : List (Cmp × Nat) → Nat → Option Nat
  | [], e => some e
  | (c, b) :: rest, e => match c.eval env with
    | some true => some b
    | some false => chainVal env rest e
    | none => none

end Panoptica.Codes
