/-
  Panoptica.Model.Config — configuration round trip (utils/config.py: `to_yaml` =
  `represent_mapping("!Cls", cls._yaml_repr(node))`, `from_yaml` = `cls(**data)`).
  A configurable class is described by data: its constructor parameters, how each attribute is
  computed from the parameters (`stores`) and which attribute each YAML key reads (`repr`).
  The descriptors of panoptica's classes are regenerated from the source on every run
  (Generated/Config.lean) and compared with `expectedClasses` below (Extracted/Config.lean).
-/
namespace Panoptica.Cfg

inductive Norm where
  | id
  | other (src : String)      -- a normalisation performed on the parameter before it is stored
  deriving DecidableEq, Repr

/-- how the constructor computes a stored attribute -/
inductive Store where
  | param (p : String) (n : Norm)           -- attr := n(p)
  | ifNoneParam (p q : String)              -- attr := p if p is not None else q
  | ifNoneNew (p cls : String)              -- attr := p if p is not None else Cls()
  | const (src : String)                    -- does not depend on the parameters (caches, fresh containers)
  | other (src : String)                    -- outside the extractor's subset
  deriving DecidableEq, Repr

/-- what a YAML key of `_yaml_repr` reads -/
inductive ReprE where
  | attr (a : String)
  | other (src : String)                    -- a transformed value: not a plain attribute read
  deriving DecidableEq, Repr

structure ClassDesc where
  name : String
  bases : List String
  inherits : Option String
  params : List String
  noneDefault : List String                 -- parameters whose default is None
  stores : List (String × Store)
  repr : List (String × ReprE)
  deriving DecidableEq, Repr

/-- the parameter a store is "about" -/
def Store.mainParam : Store → Option String
  | .param p _ => some p
  | .ifNoneParam p _ => some p
  | .ifNoneNew p _ => some p
  | _ => none

def reprKeys (d : ClassDesc) : List String := d.repr.map (·.1)

/-- decidable well-formedness: every YAML key is a constructor parameter and reads exactly the
    attribute the constructor stores for that parameter; nothing is transformed on the way out;
    fall-back parameters (`default_result`) default to None and are not keys themselves -/
def WellFormed (d : ClassDesc) : Bool :=
  (d.stores.map (·.1)).Nodup && (reprKeys d).Nodup &&
  d.repr.all (fun (k, e) => match e with
    | .attr a => d.params.contains k &&
        d.stores.any (fun (a', st) => a' == a && st.mainParam == some k)
    | .other _ => false) &&
  d.stores.all (fun (_, st) => match st with
    | .other _ => false
    | .ifNoneParam _ q => d.noneDefault.contains q && !(reprKeys d).contains q
    | _ => true)

/-! ### semantics -/

structure Sem (V : Type) where
  none : V
  isNone : V → Bool
  norm : String → V → V
  new : String → V
  const : String → V

variable {V : Type}

def lookup (l : List (String × V)) (k : String) : Option V := (l.find? (fun e => e.1 == k)).map (·.2)

/-- `cls(**data)`: a parameter takes the loaded value if present, its default otherwise -/
def argOf (defaults : String → V) (data : List (String × V)) (p : String) : V :=
  (lookup data p).getD (defaults p)

def evalStore (S : Sem V) (args : String → V) : Store → V
  | .param p .id => args p
  | .param p (.other n) => S.norm n (args p)
  | .ifNoneParam p q => if S.isNone (args p) then args q else args p
  | .ifNoneNew p c => if S.isNone (args p) then S.new c else args p
  | .const s => S.const s
  | .other s => S.const s

/-- the attribute table after `cls(**data)` -/
def construct (S : Sem V) (defaults : String → V) (d : ClassDesc) (data : List (String × V)) : List (String × V) :=
  d.stores.map (fun (a, st) => (a, evalStore S (argOf defaults data) st))

/-- `_yaml_repr(node)` -/
def represent (d : ClassDesc) (attrs : List (String × V)) : List (String × V) :=
  d.repr.filterMap (fun (k, e) => match e with
    | .attr a => (lookup attrs a).map (fun v => (k, v))
    | .other _ => Option.none)

/-! ### panoptica's classes (must equal what the extractor reads from the source) -/

def expectedClasses : List ClassDesc := [
  { name := "Panoptica_Evaluator", bases := ["SupportsConfig"], inherits := none,
    params := ["expected_input", "instance_approximator", "instance_matcher", "edge_case_handler", "segmentation_class_groups", "instance_metrics", "global_metrics", "decision_metric", "decision_threshold", "save_group_times", "log_times", "verbose"], noneDefault := ["instance_approximator", "instance_matcher", "edge_case_handler", "segmentation_class_groups", "decision_metric", "decision_threshold"],
    stores := [("expected_input", .param "expected_input" .id), ("instance_approximator", .param "instance_approximator" .id), ("instance_matcher", .param "instance_matcher" .id), ("eval_metrics", .param "instance_metrics" .id), ("global_metrics", .param "global_metrics" .id), ("decision_metric", .param "decision_metric" .id), ("decision_threshold", .param "decision_threshold" .id), ("resulting_metric_keys", .const "None"), ("save_group_times", .param "save_group_times" .id), ("segmentation_class_groups", .ifNoneNew "segmentation_class_groups" "_NoSegmentationClassGroups"), ("edge_case_handler", .ifNoneNew "edge_case_handler" "EdgeCaseHandler"), ("log_times", .param "log_times" .id), ("verbose", .param "verbose" .id)],
    repr := [("expected_input", .attr "expected_input"), ("instance_approximator", .attr "instance_approximator"), ("instance_matcher", .attr "instance_matcher"), ("edge_case_handler", .attr "edge_case_handler"), ("segmentation_class_groups", .attr "segmentation_class_groups"), ("instance_metrics", .attr "eval_metrics"), ("global_metrics", .attr "global_metrics"), ("decision_metric", .attr "decision_metric"), ("decision_threshold", .attr "decision_threshold"), ("save_group_times", .attr "save_group_times"), ("log_times", .attr "log_times"), ("verbose", .attr "verbose")] },
  { name := "NaiveThresholdMatching", bases := ["InstanceMatchingAlgorithm"], inherits := none,
    params := ["matching_metric", "matching_threshold", "allow_many_to_one"], noneDefault := [],
    stores := [("allow_many_to_one", .param "allow_many_to_one" .id), ("matching_metric", .param "matching_metric" .id), ("matching_threshold", .param "matching_threshold" .id)],
    repr := [("matching_metric", .attr "matching_metric"), ("matching_threshold", .attr "matching_threshold"), ("allow_many_to_one", .attr "allow_many_to_one")] },
  { name := "MaximizeMergeMatching", bases := ["InstanceMatchingAlgorithm"], inherits := none,
    params := ["matching_metric", "matching_threshold"], noneDefault := [],
    stores := [("matching_metric", .param "matching_metric" .id), ("matching_threshold", .param "matching_threshold" .id)],
    repr := [("matching_metric", .attr "matching_metric"), ("matching_threshold", .attr "matching_threshold")] },
  { name := "ConnectedComponentsInstanceApproximator", bases := ["InstanceApproximator"], inherits := none,
    params := ["cca_backend"], noneDefault := ["cca_backend"],
    stores := [("cca_backend", .param "cca_backend" .id)],
    repr := [("cca_backend", .attr "cca_backend")] },
  { name := "MetricZeroTPEdgeCaseHandling", bases := ["SupportsConfig"], inherits := none,
    params := ["default_result", "no_instances_result", "empty_prediction_result", "empty_reference_result", "normal"], noneDefault := ["default_result", "no_instances_result", "empty_prediction_result", "empty_reference_result", "normal"],
    stores := [("default_result", .param "default_result" .id), ("edgecase_dict", .const "{}"), ("edgecase_dict[EMPTY_PRED]", .ifNoneParam "empty_prediction_result" "default_result"), ("edgecase_dict[EMPTY_REF]", .ifNoneParam "empty_reference_result" "default_result"), ("edgecase_dict[NO_INSTANCES]", .ifNoneParam "no_instances_result" "default_result"), ("edgecase_dict[NORMAL]", .ifNoneParam "normal" "default_result")],
    repr := [("no_instances_result", .attr "edgecase_dict[NO_INSTANCES]"), ("empty_prediction_result", .attr "edgecase_dict[EMPTY_PRED]"), ("empty_reference_result", .attr "edgecase_dict[EMPTY_REF]"), ("normal", .attr "edgecase_dict[NORMAL]")] },
  { name := "EdgeCaseHandler", bases := ["SupportsConfig"], inherits := none,
    params := ["listmetric_zeroTP_handling", "empty_list_std"], noneDefault := [],
    stores := [("listmetric_zeroTP_handling", .param "listmetric_zeroTP_handling" .id), ("empty_list_std", .param "empty_list_std" .id)],
    repr := [("listmetric_zeroTP_handling", .attr "listmetric_zeroTP_handling"), ("empty_list_std", .attr "empty_list_std")] },
  { name := "LabelGroup", bases := ["SupportsConfig"], inherits := none,
    params := ["value_labels", "single_instance"], noneDefault := [],
    stores := [("value_labels", .param "value_labels" (.other "sorted(set([value_labels] if isinstance(value_labels, int) else value_labels))")), ("single_instance", .param "single_instance" .id)],
    repr := [("value_labels", .attr "value_labels"), ("single_instance", .attr "single_instance")] },
  { name := "LabelMergeGroup", bases := ["LabelGroup"], inherits := some "super().__init__(value_labels, single_instance)",
    params := ["value_labels", "single_instance"], noneDefault := [],
    stores := [("value_labels", .param "value_labels" (.other "sorted(set([value_labels] if isinstance(value_labels, int) else value_labels))")), ("single_instance", .param "single_instance" .id)],
    repr := [("value_labels", .attr "value_labels"), ("single_instance", .attr "single_instance")] },
  { name := "_LabelGroupAny", bases := ["LabelGroup"], inherits := none,
    params := [], noneDefault := [],
    stores := [],
    repr := [] },
  { name := "SegmentationClassGroups", bases := ["SupportsConfig"], inherits := none,
    params := ["groups"], noneDefault := [],
    stores := [("group_dictionary", .const "{}"), ("labels", .const "[]"), ("group_dictionary", .other "assigned inside: if isinstance(groups, list)"), ("labels", .const "labels")],
    repr := [("groups", .attr "group_dictionary")] },
  { name := "_NoSegmentationClassGroups", bases := ["SegmentationClassGroups"], inherits := none,
    params := [], noneDefault := [],
    stores := [("group_dictionary", .const "{NO_GROUP_KEY: _LabelGroupAny()}")],
    repr := [] }
]

def expectedEnums : List (String × List String) := [
  ("Metric", ["DSC", "IOU", "ASSD", "clDSC", "RVD"]),
  ("InputType", ["SEMANTIC", "UNMATCHED_INSTANCE", "MATCHED_INSTANCE"]),
  ("CCABackend", ["cc3d", "scipy"]),
  ("EdgeCaseResult", ["INF", "NAN", "ZERO", "ONE", "NONE"]),
  ("EdgeCaseZeroTP", ["NO_INSTANCES", "EMPTY_PRED", "EMPTY_REF", "NORMAL"])
]

/-- the one class whose constructor branches on the type of its argument (list / dict of groups)
    and is therefore outside the extractor's subset; its round trip is covered by correspondence only -/
def manualClasses : List String := ["SegmentationClassGroups"]

end Panoptica.Cfg
