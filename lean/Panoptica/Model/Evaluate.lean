/-
  Panoptica.Model.Evaluate — `evaluate_matched_instance` (instance_evaluator.py, after the fix:
  tp counts the instances that pass the decision threshold), instance counting of
  `MatchedInstancePair` (utils/processing_pair.py), scores as a sum type so that one executable
  model serves IoU/Dice/RVD (exact rationals) and ASSD (two lists of exact squared distances).
-/
import Panoptica.Model.Metrics
import Panoptica.Model.Geometry
import Panoptica.Model.Matching
namespace Panoptica

/-- A per-instance metric value. `surf a b`: ASSD given as the two directed lists of squared
    border distances (pred→ref, ref→pred); its real value is
    `((Σ√aᵢ)/|a| + (Σ√bᵢ)/|b|)/2`. `err`: the metric raised. -/
inductive Score where
  | exact (q : Rat)
  | surf (a b : List Nat)
  | err (msg : String)
  deriving Repr

def meanSqrt (l : List Nat) : Float :=
  (l.foldl (fun acc d => acc + Float.sqrt d.toFloat) 0.0) / l.length.toFloat

def ratToFloat (q : Rat) : Float := Float.ofInt q.num / Float.ofNat q.den

def Score.toFloat : Score → Float
  | .exact q => ratToFloat q
  | .surf a b => (meanSqrt a + meanSqrt b) / 2.0
  | .err _ => 0.0 / 0.0

/-- order used by the executable model: exact on rationals, float64 on surface distances -/
def Score.le (x y : Score) : Bool :=
  match x, y with
  | .exact a, .exact b => a ≤ b
  | _, _ => x.toFloat ≤ y.toFloat

/-- the decision test of `evaluate_matched_instance` on one instance's metric dictionary -/
def passesDecision {V : Type} (le : V → V → Bool) (decision : Option (Metric × V))
    (d : List (Metric × V)) : Bool :=
  match decision with
  | none => true
  | some (dm, thr) =>
    match d.find? (fun e => e.1 == dm) with
    | some (_, v) => beats le dm.decreasing v thr
    | none => false

/-- `evaluate_matched_instance`: `dicts` are the per-matched-label metric dictionaries in label
    order; returns tp and, per evaluated metric, the list of values of the passing instances. -/
def evalMatched {V : Type} (le : V → V → Bool) (evalMetrics : List Metric)
    (decision : Option (Metric × V)) (dicts : List (List (Metric × V))) :
    Nat × List (Metric × List V) :=
  let passing := dicts.filter (passesDecision le decision)
  (passing.length,
   evalMetrics.map (fun m => (m, passing.filterMap (fun d => (d.find? (fun e => e.1 == m)).map (·.2)))))

/-- `MatchedInstancePair.matched_instances`: labels present in both maps, in prediction-label order -/
def matchedInstances (pred ref : Flat) : List Lab :=
  (labelsOf pred).filter (fun l => (labelsOf ref).contains l)

def coordsWhere (a : Arr) (p : Lab → Bool) : List Coord :=
  (a.voxels.filter (fun v => p v.2)).map (·.1)

/-- metric `m` of reference instance `r` against the union of prediction instances `ps`
    (`Metric.__call__(ref, pred, r, ps)`); clDSC is not modelled (skeletonisation is external) -/
def metricOn (m : Metric) (pred ref : Arr) (r : Lab) (ps : List Lab) : Score :=
  match m with
  | .IOU => .exact (iouSel ref.data pred.data r ps)
  | .DSC => .exact (diceSel ref.data pred.data r ps)
  | .RVD => match rvdSel ref.data pred.data r ps with
            | .ok q => .exact q
            | .error e => .err e
  | .ASSD =>
    let R := coordsWhere ref (· == r)
    let P := coordsWhere pred (fun l => ps.contains l)
    .surf (surfaceSqDists R P) (surfaceSqDists P R)
  | .clDSC => .err "clDSC not modelled"

/-- `_evaluate_instance(ref, pred, ref_idx, eval_metrics)` -/
def evaluateInstance (evalMetrics : List Metric) (pred ref : Arr) (l : Lab) : List (Metric × Score) :=
  evalMetrics.map (fun m => (m, metricOn m pred ref l [l]))

end Panoptica
