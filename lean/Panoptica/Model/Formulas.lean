/-
  Panoptica.Model.Formulas — a small expression language for the derived quantities of
  `PanopticaResult` (panoptica_result.py: `fp`, `fn`, `prec`, `rec`, `rq`, `pq*`, and which list
  metric / mode each `sq*` reads), as read from the source by harness/extract/formulas.py.
  The obligations (Extracted/Formulas.lean) state that the extracted expressions *evaluate* to the
  model's functions (`ResultIn.fp`, `.fn`, `.precision`, `.recall`, `.rq`, `mulVal`) for every count —
  semantic, so an algebraically equivalent rewrite keeps them.
-/
import Panoptica.Model.Result
namespace Panoptica.Formulas

/-- arithmetic over the three counts, the derived counts `fp` / `fn`, and numeric literals -/
inductive AExpr where
  | tp | nPred | nRef | fp | fn
  | lit (num den : Nat)
  | add (a b : AExpr) | sub (a b : AExpr) | mul (a b : AExpr) | div (a b : AExpr)
  | other (src : String)
  deriving Repr

/-- `none`: division by zero (ZeroDivisionError) or an expression outside the subset -/
def AExpr.eval (tp nPred nRef : Nat) : AExpr → Option Rat
  | .tp => some (tp : Rat)
  | .nPred => some (nPred : Rat)
  | .nRef => some (nRef : Rat)
  | .fp => some ((nPred : Rat) - (tp : Rat))
  | .fn => some ((nRef : Rat) - (tp : Rat))
  | .lit n d => if d = 0 then none else some ((n : Rat) / (d : Rat))
  | .add a b => match a.eval tp nPred nRef, b.eval tp nPred nRef with
    | some x, some y => some (x + y) | _, _ => none
  | .sub a b => match a.eval tp nPred nRef, b.eval tp nPred nRef with
    | some x, some y => some (x - y) | _, _ => none
  | .mul a b => match a.eval tp nPred nRef, b.eval tp nPred nRef with
    | some x, some y => some (x * y) | _, _ => none
  | .div a b => match a.eval tp nPred nRef, b.eval tp nPred nRef with
    | some x, some y => if y = 0 then none else some (x / y) | _, _ => none
  | .other _ => none

inductive BCond where
  | eqz (a : AExpr)      -- a == 0
  | nez (a : AExpr)      -- a != 0
  | gtz (a : AExpr)      -- a > 0
  | other (src : String)
  deriving Repr

def BCond.eval (tp nPred nRef : Nat) : BCond → Option Bool
  | .eqz a => (a.eval tp nPred nRef).map (· == 0)
  | .nez a => (a.eval tp nPred nRef).map (· != 0)
  | .gtz a => (a.eval tp nPred nRef).map (fun x => decide (0 < x))
  | .other _ => none

/-- function bodies: `if c: return A` … `return B`, conditional expressions, `np.nan` -/
inductive VExpr where
  | num (a : AExpr)
  | nan
  | ite (c : BCond) (t e : VExpr)
  | other (src : String)
  deriving Repr

def VExpr.eval (tp nPred nRef : Nat) : VExpr → Option RVal
  | .num a => (a.eval tp nPred nRef).map Val.num
  | .nan => some .nan
  | .ite c t e => match c.eval tp nPred nRef with
    | some true => t.eval tp nPred nRef
    | some false => e.eval tp nPred nRef
    | none => none
  | .other _ => none

/-- products of two already computed result fields (`res.sq * res.rq`) -/
inductive PExpr where
  | sqField (name : String)     -- `res.sq`, `res.sq_dsc`, … (what each reads: `Generated.listReaders`)
  | rq
  | mul (a b : PExpr)
  | other (src : String)
  deriving Repr

/-- evaluation given the values of the fields; `none` = Python raises (a `None` operand) or the
    expression is outside the subset -/
def PExpr.eval (sqOf : String → RVal) (rq : RVal) : PExpr → Option RVal
  | .sqField n => some (sqOf n)
  | .rq => some rq
  | .mul a b => match a.eval sqOf rq, b.eval sqOf rq with
    | some x, some y => mulVal x y | _, _ => none
  | .other _ => none

end Panoptica.Formulas
