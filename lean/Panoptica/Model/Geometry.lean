/-
  Panoptica.Model.Geometry — n-d arrays as shape + row-major data, coordinates, adjacency,
  connected components by saturation (the specified function behind cc3d / scipy.ndimage.label),
  face border and nearest-border squared distances (the specified functions behind
  binary_erosion / euclidean_feature_transform in metrics/assd.py), bounding box and crop
  (utils/numpy_utils.py: _get_bbox_nd, _functionals.py: _get_paired_crop).
-/
import Panoptica.Model.Basic
namespace Panoptica

abbrev Coord := List Int

structure Arr where
  shape : List Nat
  data : Flat
  deriving Repr

def shapeSize (s : List Nat) : Nat := s.foldl (· * ·) 1

/-- all coordinates of an array of the given shape in row-major (raster) order -/
def allCoords : List Nat → List Coord
  | [] => [[]]
  | n :: rest => (List.range n).flatMap (fun (i : Nat) => (allCoords rest).map (fun c => (Int.ofNat i) :: c))

/-- voxels with their labels in raster order -/
def Arr.voxels (a : Arr) : List (Coord × Lab) := (allCoords a.shape).zip a.data

/-- foreground voxels (label ≠ 0) with their labels: the `Vol` view of the array -/
def Arr.fg (a : Arr) : List (Coord × Lab) := a.voxels.filter (fun v => v.2 != 0)

def absDiffs : Coord → Coord → List Nat
  | a :: as, b :: bs => (a - b).natAbs :: absDiffs as bs
  | _, _ => []

/-- face neighbours: coordinates differ by exactly 1 in exactly one axis (4/6-connectivity) -/
def faceAdj (a b : Coord) : Bool :=
  a.length == b.length && (absDiffs a b).foldl (· + ·) 0 == 1

/-- full neighbours: Chebyshev distance 1 (8/26-connectivity) -/
def fullAdj (a b : Coord) : Bool :=
  a.length == b.length && a != b && (absDiffs a b).all (· ≤ 1)

/-- squared Euclidean distance -/
def sqDist (a b : Coord) : Nat := ((absDiffs a b).map (fun d => d * d)).foldl (· + ·) 0

/-! ### connected components -/

section CC
variable {α : Type} [BEq α]

/-- one round of saturation: everything in `V` that is in `S` or adjacent to a member of `S` -/
def expand (adj : α → α → Bool) (V S : List α) : List α :=
  V.filter (fun v => S.contains v || S.any (fun s => adj s v))

def iter (adj : α → α → Bool) (V : List α) : Nat → List α → List α
  | 0, S => S
  | n+1, S => iter adj V n (expand adj V S)

/-- the connected component of `seed` in the graph `(V, adj)`: `|V|` rounds of saturation -/
def closure (adj : α → α → Bool) (V : List α) (seed : α) : List α :=
  iter adj V V.length (V.filter (· == seed))

/-- label components 1..n in the order of their first element in `V`.
    `labelled` maps already labelled elements; `fuel` bounds the recursion by `|V|`. -/
def ccGo (adj : α → α → Bool) (V : List α) : List α → List (α × Nat) → Nat → List (α × Nat)
  | [], acc, _ => acc
  | v :: rest, acc, next =>
    if acc.any (fun e => e.1 == v) then ccGo adj V rest acc next
    else
      let comp := closure adj V v
      ccGo adj V rest (acc ++ comp.map (fun x => (x, next))) (next + 1)

/-- component numbering of all elements of `V` -/
def ccLabel (adj : α → α → Bool) (V : List α) : List (α × Nat) := ccGo adj V V [] 1

def ccCount (adj : α → α → Bool) (V : List α) : Nat :=
  maxOf ((ccLabel adj V).map (·.2))

end CC

inductive Backend where
  | cc3d | scipy
  deriving DecidableEq, Repr

/-- adjacency on labelled voxels for each backend: cc3d = full connectivity *and* equal semantic
    label; scipy.ndimage.label = face connectivity on the non-zero mask -/
def backendAdj : Backend → (Coord × Lab) → (Coord × Lab) → Bool
  | .cc3d => fun a b => fullAdj a.1 b.1 && a.2 == b.2
  | .scipy => fun a b => faceAdj a.1 b.1

/-- default backend choice of `ConnectedComponentsInstanceApproximator._approximate_instances` -/
def defaultBackend (ndim : Nat) : Backend := if ndim ≥ 3 then .cc3d else .scipy

def lookupLabel (tbl : List ((Coord × Lab) × Nat)) (v : Coord × Lab) : Nat :=
  match tbl.find? (fun e => e.1 == v) with
  | some e => e.2
  | none => 0

/-- `_connected_components(arr, backend)`: labelled array and number of components -/
def connectedComponents (b : Backend) (a : Arr) : Arr × Nat :=
  let V := a.fg
  let tbl := ccLabel (backendAdj b) V
  ({ shape := a.shape, data := a.voxels.map (fun v => if v.2 == 0 then 0 else lookupLabel tbl v) },
   ccCount (backendAdj b) V)

/-! ### borders and surface distances (ASSD) -/

/-- coordinates of the `true` voxels of a mask array -/
def Arr.support (a : Arr) : List Coord := (a.fg).map (·.1)

/-- face neighbours of `c` (all 2·ndim of them, inside the array or not) -/
def faceNeighbours : Coord → List Coord
  | [] => []
  | x :: xs => ((x - 1) :: xs) :: ((x + 1) :: xs) :: (faceNeighbours xs).map (fun t => x :: t)

/-- `X ^ binary_erosion(X)`: voxels of `X` with a face neighbour outside `X`
    (out-of-array counts as outside: `border_value=0`) -/
def border (X : List Coord) : List Coord :=
  X.filter (fun c => (faceNeighbours c).any (fun n => !X.contains n))

/-- squared distance from `a` to the nearest element of `B` (`none` for empty `B`) -/
def nearestSq (a : Coord) : List Coord → Option Nat
  | [] => none
  | b :: bs => match nearestSq a bs with
    | none => some (sqDist a b)
    | some d => some (min (sqDist a b) d)

/-- `__surface_distances(reference, prediction)` squared: for every border voxel of `pred`
    the squared distance to the nearest border voxel of `ref` -/
def surfaceSqDists (ref pred : List Coord) : List Nat :=
  let rb := border ref
  (border pred).filterMap (fun p => nearestSq p rb)

/-! ### bounding box and crop -/

/-- per axis `[lo, hi)` -/
abbrev Box := List (Nat × Nat)

def axisVals (cs : List Coord) (ax : Nat) : List Nat := cs.map (fun c => (c.getD ax 0).toNat)

def minOf : List Nat → Nat
  | [] => 0
  | x :: xs => xs.foldl min x

/-- `_get_bbox_nd(img, px_dist)` for a non-empty support -/
def bboxNd (shape : List Nat) (support : List Coord) (pad : Nat) : Box :=
  (List.range shape.length).map (fun ax =>
    let vs := axisVals support ax
    let lo := minOf vs
    let hi := maxOf vs
    (lo - pad, min (hi + pad) (shape.getD ax 0) + 1))

/-- numpy slicing with `slice(lo, hi)`: the upper end is clipped to the axis length -/
def Box.clip (b : Box) (shape : List Nat) : Box :=
  (b.zip shape).map (fun (p, n) => (min p.1 n, min p.2 n))

def inBox (b : Box) (c : Coord) : Bool :=
  (b.zip c).all (fun (p, x) => (p.1 : Int) ≤ x && x < (p.2 : Int))

/-- `arr[crop]` -/
def Arr.crop (a : Arr) (b : Box) : Arr :=
  let b' := b.clip a.shape
  { shape := b'.map (fun p => p.2 - p.1),
    data := (a.voxels.filter (fun v => inBox b' v.1)).map (·.2) }

/-- `_get_paired_crop(pred, ref, px_pad=2)` (after the fix: union of the foregrounds);
    the whole array when both are empty -/
def pairedCrop (pred ref : Arr) (pad : Nat := 2) : Box :=
  let sup := ((pred.voxels.zip ref.voxels).filter (fun (p, r) => p.2 != 0 || r.2 != 0)).map (fun (p, _) => p.1)
  if sup.isEmpty then bboxNd pred.shape (allCoords pred.shape) pad
  else bboxNd pred.shape sup pad

end Panoptica
