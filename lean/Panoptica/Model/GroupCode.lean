/-
  Panoptica.Model.GroupCode — the decisions of the class-group evaluation, as read from the source by
  harness/extract/group_code.py: in `Panoptica_Evaluator._evaluate_group` when a group is evaluated as one
  already-matched instance (a condition over "the group is a single-instance group" and the type of the input),
  what the decision threshold becomes then, which arrays are restricted and how the call to `panoptic_evaluate`
  is wired; in `LabelGroup.extract_label` that the array is copied first, which voxels are zeroed and what a
  merge group does.  Obligations: Extracted/GroupCode.lean.
-/
namespace Panoptica.GroupCode

inductive InTy where
  | semantic | unmatched | matched
  deriving DecidableEq, Repr

inductive GCond where
  | single | isSemantic | isUnmatched | isMatched
  | not (c : GCond) | and (a b : GCond) | or (a b : GCond)
  | other (src : String)
  deriving Repr

def GCond.eval (single : Bool) (ty : InTy) : GCond → Option Bool
  | .single => some single
  | .isSemantic => some (ty = .semantic)
  | .isUnmatched => some (ty = .unmatched)
  | .isMatched => some (ty = .matched)
  | .not c => (c.eval single ty).map (!·)
  | .and a b => match a.eval single ty, b.eval single ty with | some x, some y => some (x && y) | _, _ => none
  | .or a b => match a.eval single ty, b.eval single ty with | some x, some y => some (x || y) | _, _ => none
  | .other _ => none

end Panoptica.GroupCode
