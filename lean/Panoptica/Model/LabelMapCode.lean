/-
  Panoptica.Model.LabelMapCode — a small language for the queries of `InstanceLabelMap` (utils/instancelabelmap.py), as the
  extractor harness/extract/labelmap_code.py reads them from the source: boolean expressions over "argument i is a key",
  "argument i is a value", "argument i is None"; and the guard of `add_labelmap_entry` over "p is a key" / "p's value differs".
  An argument is `none` for Python's `None` (never a key, never a value: the dictionary holds integers).
-/
import Panoptica.Model.Matching
namespace Panoptica.LMCode
open Panoptica

inductive Q where
  | inKeys (i : Nat) | inVals (i : Nat) | isNone (i : Nat)
  | tt | ff
  | not (a : Q) | and (a b : Q) | or (a b : Q) | ite (c a b : Q)
  | other (src : String)
  deriving Repr

def Q.eval (m : LMap) (args : Nat → Option Lab) : Q → Option Bool
  | .inKeys i => some (match args i with | some l => m.containsPred l | none => false)
  | .inVals i => some (match args i with | some l => m.containsRef l | none => false)
  | .isNone i => some (args i).isNone
  | .tt => some true
  | .ff => some false
  | .not a => (a.eval m args).map (!·)
  | .and a b => match a.eval m args, b.eval m args with | some x, some y => some (x && y) | _, _ => none
  | .or a b => match a.eval m args, b.eval m args with | some x, some y => some (x || y) | _, _ => none
  | .ite c a b => match c.eval m args with
    | some true => a.eval m args
    | some false => b.eval m args
    | none => none
  | .other _ => none

/-- the guard of `add_labelmap_entry` that raises -/
inductive G where
  | isKey | valueDiffers
  | not (a : G) | and (a b : G) | or (a b : G)
  | other (src : String)
  deriving Repr

/-- `isKey`: p is a key; `differs`: the stored value differs from the new reference (only meaningful when p is a key:
    Python would raise KeyError otherwise, modelled as `none`); `and` / `or` short-circuit like Python's -/
def G.eval (isKey : Bool) (differs : Bool) : G → Option Bool
  | .isKey => some isKey
  | .valueDiffers => if isKey then some differs else none
  | .not a => (a.eval isKey differs).map (!·)
  | .and a b => match a.eval isKey differs with
    | some false => some false
    | some true => b.eval isKey differs
    | none => none
  | .or a b => match a.eval isKey differs with
    | some true => some true
    | some false => b.eval isKey differs
    | none => none
  | .other _ => none

def args1 (x : Lab) : Nat → Option Lab := fun i => if i = 0 then some x else none
def args2 (p r : Option Lab) : Nat → Option Lab := fun i => if i = 0 then p else if i = 1 then r else none

end Panoptica.LMCode
