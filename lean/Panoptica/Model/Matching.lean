/-
  Panoptica.Model.Matching — NaiveThresholdMatching._match_instances,
  MaximizeMergeMatching._match_instances, InstanceLabelMap, the best-first ordering
  (panoptica/instance_matcher.py, utils/instancelabelmap.py, _functionals.py:74-76).
-/
import Panoptica.Model.Basic
namespace Panoptica

/-- One scored candidate pair `(score, (ref_label, pred_label))`. -/
structure Cand (S : Type) where
  score : S
  ref : Lab
  pred : Lab
  deriving Repr

/-- `InstanceLabelMap.labelmap`: dict pred ↦ ref, kept as an association list in insertion order. -/
abbrev LMap := List (Lab × Lab)

namespace LMap
def containsPred (m : LMap) (p : Lab) : Bool := m.any (fun e => e.1 == p)
def containsRef (m : LMap) (r : Lab) : Bool := m.any (fun e => e.2 == r)
def lookup (m : LMap) (p : Lab) : Option Lab := (m.find? (fun e => e.1 == p)).map (·.2)
/-- `get_pred_labels_matched_to_ref` -/
def predsOf (m : LMap) (r : Lab) : List Lab := (m.filter (fun e => e.2 == r)).map (·.1)
/-- `add_labelmap_entry(pred, ref)`: raises when `pred` is already mapped to a different reference. -/
def add (m : LMap) (p r : Lab) : Except String LMap :=
  match m.lookup p with
  | some r' => if r' = r then .ok m else .error "prediction label already assigned differently"
  | none => .ok (m ++ [(p, r)])
end LMap

/-- `sorted(mm_pairs, key=score, reverse=not decreasing)`: stable; best score first. -/
def sortBest {S : Type} (le : S → S → Bool) (decreasing : Bool) (cs : List (Cand S)) : List (Cand S) :=
  cs.mergeSort (fun a b => if decreasing then le a.score b.score else le b.score a.score)

/-! ### Threshold matcher -/

/-- the conflict test of the loop (after the fix: an assigned prediction is always skipped) -/
def naiveSkip (m2o : Bool) (m : LMap) (p r : Lab) : Bool :=
  m.containsPred p || (m.containsRef r && !m2o)

/-- one iteration of the loop, as coded (`add_labelmap_entry` may raise) -/
def naiveStepE {S : Type} (le : S → S → Bool) (dec : Bool) (thr : S) (m2o : Bool)
    (m : LMap) (c : Cand S) : Except String LMap :=
  if naiveSkip m2o m c.pred c.ref then .ok m
  else if beats le dec c.score thr then m.add c.pred c.ref
  else .ok m

def naiveLoopE {S : Type} (le : S → S → Bool) (dec : Bool) (thr : S) (m2o : Bool)
    (cs : List (Cand S)) : Except String LMap :=
  cs.foldlM (naiveStepE le dec thr m2o) []

/-- the same iteration without the exception path (proved equal to `naiveStepE`) -/
def naiveStep {S : Type} (le : S → S → Bool) (dec : Bool) (thr : S) (m2o : Bool)
    (m : LMap) (c : Cand S) : LMap :=
  if naiveSkip m2o m c.pred c.ref then m
  else if beats le dec c.score thr then m ++ [(c.pred, c.ref)]
  else m

def naiveLoop {S : Type} (le : S → S → Bool) (dec : Bool) (thr : S) (m2o : Bool)
    (cs : List (Cand S)) : LMap :=
  cs.foldl (naiveStep le dec thr m2o) []

/-- `NaiveThresholdMatching._match_instances` given the scored candidates in discovery order -/
def naiveMatch {S : Type} (le : S → S → Bool) (dec : Bool) (thr : S) (m2o : Bool)
    (cs : List (Cand S)) : Except String LMap :=
  naiveLoopE le dec thr m2o (sortBest le dec cs)

/-! ### Merge matcher -/

/-- `score_ref`: dict ref ↦ current combined score -/
abbrev ScoreRef (S : Type) := List (Lab × S)

def ScoreRef.get? {S : Type} (s : ScoreRef S) (r : Lab) : Option S :=
  (s.find? (fun e => e.1 == r)).map (·.2)

def ScoreRef.set {S : Type} (s : ScoreRef S) (r : Lab) (x : S) : ScoreRef S :=
  if s.any (fun e => e.1 == r) then s.map (fun e => if e.1 == r then (r, x) else e)
  else s ++ [(r, x)]

structure MergeState (S : Type) where
  lmap : LMap
  scores : ScoreRef S

/-- one iteration of `MaximizeMergeMatching._match_instances`.
    `comb r ps` is the matching metric of reference `r` against the union of predictions `ps`
    (`new_combination_score`). -/
def mergeStep {S : Type} (le : S → S → Bool) (dec : Bool) (thr : S)
    (comb : Lab → List Lab → S) (st : MergeState S) (c : Cand S) : MergeState S :=
  if st.lmap.containsPred c.pred then st
  else if st.lmap.containsRef c.ref then
    let newScore := comb c.ref (st.lmap.predsOf c.ref ++ [c.pred])
    match st.scores.get? c.ref with
    | some old =>
      if strictlyBetter le dec newScore old then
        { lmap := st.lmap ++ [(c.pred, c.ref)], scores := st.scores.set c.ref newScore }
      else st
    | none => st   -- unreachable: every matched reference has a score (invariant `scores_def`)
  else if beats le dec c.score thr then
    { lmap := st.lmap ++ [(c.pred, c.ref)], scores := st.scores.set c.ref c.score }
  else st

def mergeLoop {S : Type} (le : S → S → Bool) (dec : Bool) (thr : S)
    (comb : Lab → List Lab → S) (cs : List (Cand S)) : MergeState S :=
  cs.foldl (mergeStep le dec thr comb) { lmap := [], scores := [] }

def mergeMatch {S : Type} (le : S → S → Bool) (dec : Bool) (thr : S)
    (comb : Lab → List Lab → S) (cs : List (Cand S)) : MergeState S :=
  mergeLoop le dec thr comb (sortBest le dec cs)

end Panoptica
