/-
  Panoptica.Model.MetricCode — a small language for the bodies of `_compute_dice_coefficient`, `_compute_iou` and
  `_compute_relative_volume_difference` (panoptica/metrics/*.py) after their numpy reductions have been named:
  `I` = number of voxels in both masks, `U` = in either, `R` / `P` = sum of the reference / prediction mask.
  Read from the source by harness/extract/metric_code.py (Generated/MetricCode.lean); the obligations
  (Extracted/MetricCode.lean) state that the bodies evaluate, for all counts, to the closed forms used by
  `dice`, `iou`, `rvd` of Model/Metrics.lean (`none` = Python raises ZeroDivisionError).
-/
namespace Panoptica.MetricCode

inductive QExpr where
  | var (name : String)
  | lit (num den : Nat)
  | add (a b : QExpr) | sub (a b : QExpr) | mul (a b : QExpr) | div (a b : QExpr)
  | other (src : String)
  deriving Repr

def QExpr.eval (env : String → Nat) : QExpr → Option Rat
  | .var n => some (env n : Rat)
  | .lit n d => if d = 0 then none else some ((n : Rat) / (d : Rat))
  | .add a b => match a.eval env, b.eval env with | some x, some y => some (x + y) | _, _ => none
  | .sub a b => match a.eval env, b.eval env with | some x, some y => some (x - y) | _, _ => none
  | .mul a b => match a.eval env, b.eval env with | some x, some y => some (x * y) | _, _ => none
  | .div a b => match a.eval env, b.eval env with | some x, some y => if y = 0 then none else some (x / y) | _, _ => none
  | .other _ => none

inductive QCond where
  | eq0 (a : QExpr) | ne0 (a : QExpr)
  | not (c : QCond) | and (a b : QCond) | or (a b : QCond)
  | other (src : String)
  deriving Repr

def QCond.eval (env : String → Nat) : QCond → Option Bool
  | .eq0 a => (a.eval env).map (fun x => decide (x = 0))
  | .ne0 a => (a.eval env).map (fun x => decide (x ≠ 0))
  | .not c => (c.eval env).map (!·)
  | .and a b => match a.eval env, b.eval env with | some x, some y => some (x && y) | _, _ => none
  | .or a b => match a.eval env, b.eval env with | some x, some y => some (x || y) | _, _ => none
  | .other _ => none

/-- function body: guarded early returns, then the final expression -/
inductive QBody where
  | ret (e : QExpr)
  | ite (c : QCond) (t e : QBody)
  | other (src : String)
  deriving Repr

def QBody.eval (env : String → Nat) : QBody → Option Rat
  | .ret e => e.eval env
  | .ite c t e => match c.eval env with
    | some true => t.eval env
    | some false => e.eval env
    | none => none
  | .other _ => none

def envM (I U R P : Nat) : String → Nat := fun n =>
  if n = "I" then I else if n = "U" then U else if n = "R" then R else if n = "P" then P else 0

end Panoptica.MetricCode
