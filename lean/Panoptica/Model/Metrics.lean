/-
  Panoptica.Model.Metrics — label selection (`_Metric.__call__`), Dice, IoU, RVD, clDice on
  flat arrays (panoptica/metrics/{metrics,dice,iou,relative_volume_difference,cldice}.py).
  Values are exact rationals (core `Rat`); the implementation performs one float division of two
  integers, compared by the harness against the correctly rounded quotient.
-/
import Panoptica.Model.Basic
namespace Panoptica

/-- `reference_arr == ref_instance_idx` -/
def selRef (a : Flat) (r : Lab) : List Bool := a.map (fun x => x == r)
/-- `np.isin(prediction_arr, pred_instance_idx)`: the union of the listed labels -/
def selPred (a : Flat) (ps : List Lab) : List Bool := a.map (fun x => ps.contains x)

/-- numeric view of a bool mask (`np.sum` of a bool array counts `True`) -/
def maskVals (m : List Bool) : Flat := m.map (fun b => if b then 1 else 0)

def sumVals (a : Flat) : Nat := a.foldl (· + ·) 0

/-- `np.sum(np.logical_and(x, y))` -/
def interCount : Flat → Flat → Nat
  | x :: xs, y :: ys => (if x != 0 && y != 0 then 1 else 0) + interCount xs ys
  | _, _ => 0

/-- `np.sum(np.logical_or(x, y))` -/
def unionCount : Flat → Flat → Nat
  | x :: xs, y :: ys => (if x != 0 || y != 0 then 1 else 0) + unionCount xs ys
  | _, _ => 0

/-- `_compute_dice_coefficient` (note: the denominators are `np.sum` of the *values*) -/
def dice (ref pred : Flat) : Rat :=
  let rs := sumVals ref
  let ps := sumVals pred
  if rs == 0 && ps == 0 then 0 else (2 * (interCount ref pred : Nat) : Rat) / ((rs + ps : Nat) : Rat)

/-- `_compute_iou` -/
def iou (ref pred : Flat) : Rat :=
  let u := unionCount ref pred
  if u == 0 then 0 else ((interCount ref pred : Nat) : Rat) / ((u : Nat) : Rat)

/-- `_compute_relative_volume_difference`: raises ZeroDivisionError for an empty reference and a
    non-empty prediction (Python float division). -/
def rvd (ref pred : Flat) : Except String Rat :=
  let rs := sumVals ref
  let ps := sumVals pred
  if rs == 0 && ps == 0 then .ok 0
  else if rs == 0 then .error "ZeroDivisionError"
  else .ok ((((ps : Int) - (rs : Int) : Int) : Rat) / ((rs : Nat) : Rat))

/-- `cl_score(volume, skeleton) = sum(volume*skeleton)/sum(skeleton)`; skeletons are parameters. -/
def clScore (vol skel : Flat) : Option Rat :=
  let s := sumVals skel
  if s == 0 then none else some (((interCount vol skel : Nat) : Rat) / ((s : Nat) : Rat))

/-- `_compute_centerline_dice_coefficient` given the two skeletons -/
def clDice (ref pred skelRef skelPred : Flat) : Option Rat :=
  match clScore pred skelRef, clScore ref skelPred with
  | some tprec, some tsens => if tprec + tsens == 0 then none else some (2 * tprec * tsens / (tprec + tsens))
  | _, _ => none

/-- selection as performed by `_Metric.__call__` when both indices are given -/
def selectPair (ref pred : Flat) (r : Lab) (ps : List Lab) : Flat × Flat :=
  (maskVals (selRef ref r), maskVals (selPred pred ps))

def diceSel (ref pred : Flat) (r : Lab) (ps : List Lab) : Rat :=
  let (a, b) := selectPair ref pred r ps; dice a b
def iouSel (ref pred : Flat) (r : Lab) (ps : List Lab) : Rat :=
  let (a, b) := selectPair ref pred r ps; iou a b
def rvdSel (ref pred : Flat) (r : Lab) (ps : List Lab) : Except String Rat :=
  let (a, b) := selectPair ref pred r ps; rvd a b

end Panoptica
