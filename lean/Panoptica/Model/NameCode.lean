/-
  Panoptica.Model.NameCode — configuration names (utils/filepath.py `config_dir_by_name`): a name given with or without the
  extension designates the file `<name>.yaml`. Names are lists of characters. The small expression language is what the
  extractor harness/extract/filepath_code.py reads from the source.
-/
namespace Panoptica.NameCode

def ext : List Char := ".yaml".toList

/-- the file name a configuration name designates -/
def byName (n : List Char) : List Char := if ext.isSuffixOf n then n else n ++ ext

inductive NCond where
  | endsWith (s : String)            -- name.endswith(s)
  | not (c : NCond)
  | other (src : String)
  deriving Repr

inductive NExpr where
  | name
  | appendLit (a : NExpr) (s : String)
  | ite (c : NCond) (a b : NExpr)
  | other (src : String)
  deriving Repr

def NCond.eval (n : List Char) : NCond → Option Bool
  | .endsWith s => some (s.toList.isSuffixOf n)
  | .not c => (c.eval n).map (!·)
  | .other _ => none

def NExpr.eval (n : List Char) : NExpr → Option (List Char)
  | .name => some n
  | .appendLit a s => (a.eval n).map (· ++ s.toList)
  | .ite c a b => match c.eval n with
    | some true => a.eval n
    | some false => b.eval n
    | none => none
  | .other _ => none

end Panoptica.NameCode
