/-
  Panoptica.Model.Overlap — `_calc_overlapping_labels` (_functionals.py): the integer pair
  encoding `pred * max_ref + ref` in 64-bit unsigned arithmetic, `np.unique`, the `> max_ref`
  filter and the decoding; plus the encoding-free specification `overlapSpec`.
-/
import Panoptica.Model.Basic
namespace Panoptica

def twoPow64 : Nat := 18446744073709551616

/-- the encoded overlap array: `(pred.astype(uint64) * max_ref + ref)`, zeroed where `ref == 0` -/
def encodeArr (M maxRef : Nat) : Flat → Flat → Flat
  | p :: ps, r :: rs => (if r == 0 then 0 else ((p % M) * maxRef + r) % M) :: encodeArr M maxRef ps rs
  | _, _ => []

/-- `_calc_overlapping_labels`: list of `(ref, pred)` in ascending order of the code. -/
def overlapPairsM (M : Nat) (pred ref : Flat) (refLabels : List Lab) : List (Lab × Lab) :=
  let maxRef := maxOf refLabels + 1
  let codes := uniqueSorted (encodeArr M maxRef pred ref)
  (codes.filter (fun i => i > maxRef)).map (fun i => (i % maxRef, i / maxRef))

def overlapPairs (pred ref : Flat) (refLabels : List Lab) : List (Lab × Lab) :=
  overlapPairsM twoPow64 pred ref refLabels

/-- specification: `(r, p)` overlap iff some voxel carries `p ≠ 0` in pred and `r ≠ 0` in ref -/
def overlaps : Flat → Flat → Lab → Lab → Bool
  | p :: ps, r :: rs, r0, p0 => (p == p0 && r == r0) || overlaps ps rs r0 p0
  | _, _, _, _ => false

/-- size of the intersection of instance `p0` of pred with instance `r0` of ref -/
def ovCount : Flat → Flat → Lab → Lab → Nat
  | p :: ps, r :: rs, r0, p0 => (if p == p0 && r == r0 then 1 else 0) + ovCount ps rs r0 p0
  | _, _, _, _ => 0

def cnt (a : Flat) (l : Lab) : Nat := (a.filter (· == l)).length

end Panoptica
