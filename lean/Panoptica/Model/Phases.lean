/-
  Panoptica.Model.Phases — `panoptic_evaluate` (panoptica_evaluator.py) as a program over the *type* of the
  object being processed: a list of phases `if isinstance(processing_pair, T): processing_pair = act(...)`,
  executed in order.  Each action's effect on the type is fixed (approximation turns a semantic pair into an
  unmatched one, …; the zero-instance step either leaves the pair alone or ends with a result).  The phase list
  and the argument wiring of every call are read from the source (Generated/Phases.lean); the obligations
  (Extracted/Phases.lean) state that from every input type and for every outcome of the two zero-instance tests
  the executed actions are the stages of `pipeline` (Model/Pipeline.lean) in its order, ending in a result.
-/
namespace Panoptica.Phases

inductive Ty where
  | semantic | unmatched | matched | evaluated | result | other (src : String)
  deriving DecidableEq, Repr

inductive Act where
  | approximate | zeroCases | matchInstances | evaluate | mkResult | other (src : String)
  deriving DecidableEq, Repr

structure Phase where
  guard : Ty
  act : Act
  /-- keyword (or position) ↦ source text of the argument -/
  wiring : List (String × String)
  deriving DecidableEq, Repr

/-- type after an action; `zero`: the zero-instance test fires; `none`: the action does not accept this type -/
def post (zero : Bool) : Act → Ty → Option Ty
  | .approximate, .semantic => some .unmatched
  | .zeroCases, .unmatched => some (if zero then .result else .unmatched)
  | .zeroCases, .matched => some (if zero then .result else .matched)
  | .matchInstances, .unmatched => some .matched
  | .evaluate, .matched => some .evaluated
  | .mkResult, .evaluated => some .result
  | _, _ => none

/-- run the phases in order from type `t`; `zU` / `zM`: outcome of the zero-instance test on the unmatched / matched
    pair.  Returns the executed actions and the final type. -/
def run (zU zM : Bool) : List Phase → Ty → Option (List Act × Ty)
  | [], t => some ([], t)
  | ph :: rest, t =>
    if ph.guard = t then
      match post (if t = .unmatched then zU else zM) ph.act t with
      | some t' => (run zU zM rest t').map (fun r => (ph.act :: r.1, r.2))
      | none => none
    else run zU zM rest t

/-- the stages of `pipeline` (Model/Pipeline.lean) for each input type -/
def expected (zU zM : Bool) : Ty → List Act
  | .semantic => .approximate :: expected' zU zM
  | .unmatched => expected' zU zM
  | .matched => expectedM zM
  | _ => []
where
  expectedM (zM : Bool) : List Act := .zeroCases :: (if zM then [] else [.evaluate, .mkResult])
  expected' (zU zM : Bool) : List Act := .zeroCases :: (if zU then [] else .matchInstances :: expectedM zM)

end Panoptica.Phases
