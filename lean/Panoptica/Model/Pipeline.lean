/-
  Panoptica.Model.Pipeline — `panoptic_evaluate` and `Panoptica_Evaluator._evaluate_group`
  (panoptica_evaluator.py): approximate → match → relabel → evaluate → result, class groups.
  The whole-pair and per-instance crops are *not* part of this model: every stage below is
  expressed on coordinates and counts, which a crop containing the foreground does not change
  (crop lemma, Properties/C10); the correspondence compares the cropping code against it.
-/
import Panoptica.Model.Evaluate
import Panoptica.Model.Overlap
import Panoptica.Model.Relabel
import Panoptica.Model.Result
namespace Panoptica

inductive InputType where
  | SEMANTIC | UNMATCHED | MATCHED
  deriving DecidableEq, Repr

inductive MatcherKind where
  | naive (m2o : Bool)
  | merge
  deriving Repr

structure MatcherCfg where
  kind : MatcherKind
  metric : Metric
  thr : Score
  deriving Repr

structure Config where
  input : InputType
  backend : Option Backend         -- `None` = default by dimensionality
  matcher : Option MatcherCfg
  evalMetrics : List Metric
  decision : Option (Metric × Score)
  handler : Handler
  deriving Repr

/-- what the model reports for one evaluated group -/
structure PipeOut where
  nRef : Nat
  nPred : Nat
  tp : Nat
  lists : List (Metric × List Score)
  /-- the matched (relabelled) arrays when the pipeline went through matching -/
  matchedPred : Option Flat
  lmap : Option LMap
  deriving Repr

/-- scored candidates in discovery order (`_calc_matching_metric_of_overlapping_labels` before sorting) -/
def scoredCands (m : Metric) (pred ref : Arr) : List (Cand Score) :=
  (overlapPairs pred.data ref.data (labelsOf ref.data)).map
    (fun (r, p) => { score := metricOn m pred ref r [p], ref := r, pred := p })

def runMatcher (mc : MatcherCfg) (pred ref : Arr) : Except String LMap :=
  let cs := scoredCands mc.metric pred ref
  match mc.kind with
  | .naive m2o => naiveMatch Score.le mc.metric.decreasing mc.thr m2o cs
  | .merge =>
    .ok (mergeMatch Score.le mc.metric.decreasing mc.thr
          (fun r ps => metricOn mc.metric pred ref r ps) cs).lmap

/-- third phase on matched arrays -/
def evalPhase (cfg : Config) (pred ref : Arr) (lm : Option LMap) (mp : Option Flat) : Except String PipeOut :=
  let nPred := (labelsOf pred.data).length
  let nRef := (labelsOf ref.data).length
  if nPred == 0 || nRef == 0 then
    .ok { nRef := nRef, nPred := nPred, tp := 0, lists := cfg.evalMetrics.map (fun m => (m, [])),
          matchedPred := mp, lmap := lm }
  else
    let labels := matchedInstances pred.data ref.data
    let dicts := labels.map (evaluateInstance cfg.evalMetrics pred ref)
    let (tp, lists) := evalMatched Score.le cfg.evalMetrics cfg.decision dicts
    .ok { nRef := nRef, nPred := nPred, tp := tp, lists := lists, matchedPred := mp, lmap := lm }

/-- second phase on unmatched instance arrays (`bits`: width of the arrays' dtype) -/
def matchPhase (cfg : Config) (bits : Nat) (pred ref : Arr) (nPred nRef : Nat) : Except String PipeOut :=
  if nPred == 0 || nRef == 0 then
    .ok { nRef := nRef, nPred := nPred, tp := 0, lists := cfg.evalMetrics.map (fun m => (m, [])),
          matchedPred := none, lmap := none }
  else
    match cfg.matcher with
    | none => .error "AssertionError: Got UnmatchedInstancePair but not InstanceMatchingAlgorithm"
    | some mc => do
      let lm ← runMatcher mc pred ref
      let newPred := mapInstanceLabels bits pred.data (labelsOf ref.data) (labelsOf pred.data) lm
      evalPhase cfg { shape := pred.shape, data := newPred } ref (some lm) (some newPred)

/-- `panoptic_evaluate` on one (group-restricted) pair -/
def pipeline (cfg : Config) (bits : Nat) (pred ref : Arr) : Except String PipeOut :=
  match cfg.input with
  | .MATCHED => evalPhase cfg pred ref none none
  | .UNMATCHED => matchPhase cfg bits pred ref (labelsOf pred.data).length (labelsOf ref.data).length
  | .SEMANTIC =>
    let b := cfg.backend.getD (defaultBackend pred.shape.length)
    let (p', np) := if (labelsOf pred.data).isEmpty then (pred, 0) else connectedComponents b pred
    let (r', nr) := if (labelsOf ref.data).isEmpty then (ref, 0) else connectedComponents b ref
    let bits' := smallestUintBits (max (maxOf p'.data) (maxOf r'.data))
    matchPhase cfg bits' p' r' np nr

/-! ### class groups -/

structure Group where
  name : String
  labels : List Lab
  merge : Bool
  single : Bool
  deriving Repr

/-- `LabelGroup.extract_label` / `LabelMergeGroup.__call__` -/
def Group.extract (g : Group) (a : Flat) : Flat :=
  a.map (fun x => if g.labels.contains x then (if g.merge then 1 else x) else 0)

/-- `has_defined_labels_for`: first non-zero label (ascending) that belongs to no group -/
def undefinedLabel (gs : List Group) (a : Flat) : Option Lab :=
  (labelsOf a).find? (fun l => !(gs.any (fun g => g.labels.contains l)))

/-- `_evaluate_group`: restriction, single-instance shortcut (MATCHED input, decision
    threshold forced to 0.0 — see known finding C12) -/
def evaluateGroup (cfg : Config) (bits : Nat) (g : Group) (pred ref : Arr) : Except String PipeOut :=
  let p := { pred with data := g.extract pred.data }
  let r := { ref with data := g.extract ref.data }
  if g.single && cfg.input != .MATCHED then
    pipeline { cfg with input := .MATCHED,
                        decision := cfg.decision.map (fun d => (d.1, Score.exact 0)) } bits p r
  else pipeline cfg bits p r

/-- `Panoptica_Evaluator.evaluate` with class groups: rejection first, then every group -/
def evaluateGroups (cfg : Config) (bits : Nat) (gs : List Group) (pred ref : Arr) :
    Except String (List (String × Except String PipeOut)) :=
  match undefinedLabel gs pred.data with
  | some l => .error s!"AssertionError: undefined label {l}"
  | none =>
    match undefinedLabel gs ref.data with
    | some l => .error s!"AssertionError: undefined label {l}"
    | none => .ok (gs.map (fun g => (g.name, evaluateGroup cfg bits g pred ref)))

end Panoptica
