/-
  Panoptica.Model.Purity — the mutable-object skeleton around evaluation (C15):
  `Panoptica_Evaluator` caches its metric-key list, `resulting_metric_keys` hands out a list,
  `Panoptica_Aggregator(evaluator, log_times)` appends "computation_time" to the list it received,
  `evaluate` reads the configuration only.  Lists live in a tiny heap so that aliasing is explicit.
-/
import Panoptica.Model.Basic
namespace Panoptica.Pure

abbrev Loc := Nat

/-- the keys `PanopticaResult.to_dict()` exposes for the dummy evaluation (1 matched voxel), in
    registration order (panoptica_result.py) -/
def resultKeys (evalMetrics globalMetrics : List Metric) : List String :=
  ["num_ref_instances", "num_pred_instances", "tp", "fp", "fn", "prec", "rec", "rq"]
  ++ (if evalMetrics.contains .IOU then ["sq", "sq_std", "pq"] else [])
  ++ (if evalMetrics.contains .DSC then ["sq_dsc", "sq_dsc_std", "pq_dsc"] else [])
  ++ (if evalMetrics.contains .clDSC then ["sq_cldsc", "sq_cldsc_std", "pq_cldsc"] else [])
  ++ (if evalMetrics.contains .ASSD then ["sq_assd", "sq_assd_std"] else [])
  ++ (if evalMetrics.contains .RVD then ["sq_rvd", "sq_rvd_std"] else [])
  ++ (Metric.all.filter (fun m => globalMetrics.contains m)).map (fun m => "global_bin_" ++ m.name.toLower)

structure EvalCfg where
  evalMetrics : List Metric
  globalMetrics : List Metric
  saveGroupTimes : Bool
  tag : Nat                     -- stands for all remaining settings (matcher, thresholds, groups, handler)
  deriving DecidableEq, Repr

structure Evaluator where
  cfg : EvalCfg
  cache : Option Loc            -- `__resulting_metric_keys`
  deriving Repr

structure World where
  heap : List (List String)     -- location = index
  evals : List Evaluator
  aggKeys : List Loc            -- one key list per aggregator
  deriving Repr

/-- per-call options of `evaluate` -/
structure Opts where
  resultAll : Bool
  saveGroupTimes : Option Bool
  logTimes : Option Bool
  verbose : Option Bool
  deriving Repr

inductive Op where
  | newEvaluator (cfg : EvalCfg)
  | keys (e : Nat)                               -- read `resulting_metric_keys`
  | newAggregator (e : Nat) (logTimes : Bool)
  | evaluate (e : Nat) (input : Nat) (o : Opts)  -- inputs are immutable values, named by a number
  | saveConfig (e : Nat)

/-- what an operation returns -/
inductive Out where
  | unit
  | keyList (ks : List String)
  | result (cfgTag : EvalCfg) (input : Nat) (withTime : Bool)
  | config (cfg : EvalCfg)
  | error
  deriving DecidableEq, Repr

def alloc (w : World) (l : List String) : World × Loc :=
  ({ w with heap := w.heap ++ [l] }, w.heap.length)

/-- `resulting_metric_keys`; `copy = true` is the fixed code (returns `list(cache)`), `copy = false`
    the pre-fix behaviour (returns the cached list itself) -/
def getKeys (copy : Bool) (w : World) (e : Nat) : Option (World × Loc) :=
  match w.evals[e]? with
  | none => none
  | some ev =>
    let (w1, c) := match ev.cache with
      | some c => (w, c)
      | none =>
        let (w', c) := alloc w (resultKeys ev.cfg.evalMetrics ev.cfg.globalMetrics)
        ({ w' with evals := w'.evals.set e { ev with cache := some c } }, c)
    if copy then
      let (w2, c2) := alloc w1 (w1.heap.getD c [])
      some (w2, c2)
    else some (w1, c)

def stepWith (copy : Bool) (w : World) : Op → World × Out
  | .newEvaluator cfg => ({ w with evals := w.evals ++ [{ cfg := cfg, cache := none }] }, .unit)
  | .keys e => match getKeys copy w e with
    | some (w', l) => (w', .keyList (w'.heap.getD l []))
    | none => (w, .error)
  | .newAggregator e logTimes => match getKeys copy w e with
    | some (w', l) =>
      let w'' := if logTimes then { w' with heap := w'.heap.set l (w'.heap.getD l [] ++ ["computation_time"]) } else w'
      ({ w'' with aggKeys := w''.aggKeys ++ [l] }, .unit)
    | none => (w, .error)
  | .evaluate e input o => match w.evals[e]? with
    | some ev => (w, .result ev.cfg input (o.saveGroupTimes.getD ev.cfg.saveGroupTimes))
    | none => (w, .error)
  | .saveConfig e => match w.evals[e]? with
    | some ev => (w, .config ev.cfg)
    | none => (w, .error)

def step := stepWith true
def stepLegacy := stepWith false

def runOps (stp : World → Op → World × Out) (w : World) : List Op → World × List Out
  | [] => (w, [])
  | op :: ops =>
    let (w', o) := stp w op
    let (w'', os) := runOps stp w' ops
    (w'', o :: os)

def empty : World := { heap := [], evals := [], aggKeys := [] }

/-- the keys an evaluator advertises in world `w` (what `resulting_metric_keys` would show) -/
def advertised (w : World) (e : Nat) : Option (List String) :=
  match w.evals[e]? with
  | some ev => (match ev.cache with
      | some c => some (w.heap.getD c [])
      | none => some (resultKeys ev.cfg.evalMetrics ev.cfg.globalMetrics))
  | none => none

end Panoptica.Pure
