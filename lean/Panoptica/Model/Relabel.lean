/-
  Panoptica.Model.Relabel — `map_instance_labels` (instance_matcher.py) and `_map_labels`
  (_functionals.py) after the widening fix: the look-up table is built in a dtype that holds
  every key and value, so relabelling is an exact finite map.
-/
import Panoptica.Model.Matching
namespace Panoptica

/-- `_get_smallest_fitting_uint` (numpy_utils.py): bits of the chosen unsigned dtype -/
def smallestUintBits (maxValue : Nat) : Nat :=
  if maxValue < 256 then 8 else if maxValue < 65536 then 16 else if maxValue < 4294967295 then 32 else 64

/-- dict lookup with default = identity (`mapping_ar = arange; mapping_ar[k] = v; mapping_ar[arr]`);
    later entries for the same key win (numpy fancy assignment), which cannot happen for a dict. -/
def applyMap (m : List (Lab × Lab)) (x : Lab) : Lab :=
  match m.find? (fun e => e.1 == x) with
  | some e => e.2
  | none => x

/-- `_map_labels` with table dtype of `bits` bits: keys and values are reduced modulo `2^bits`
    (what `np.array(values, dtype=...)` does); the fixed code chooses `bits` so that nothing wraps. -/
def mapLabelsBits (bits : Nat) (arr : Flat) (m : List (Lab × Lab)) : Flat :=
  let M := 2 ^ bits
  let m' := m.map (fun e => (e.1 % M, e.2 % M))
  arr.map (applyMap m')

/-- the dtype the fixed `_map_labels` uses: promote(arr dtype, smallest uint holding max) -/
def mapBits (arrBits : Nat) (arr : Flat) (m : List (Lab × Lab)) : Nat :=
  let mx := max (maxOf arr) (max (maxOf (m.map (·.1))) (maxOf (m.map (·.2))))
  max arrBits (smallestUintBits mx)

def mapLabels (arrBits : Nat) (arr : Flat) (m : List (Lab × Lab)) : Flat :=
  mapLabelsBits (mapBits arrBits arr m) arr m

/-- assign fresh labels `counter, counter+1, …` to the unmatched predictions, in label order -/
def assignFresh : List Lab → Nat → List (Lab × Lab)
  | [], _ => []
  | p :: ps, c => (p, c) :: assignFresh ps (c + 1)

/-- the complete prediction→new label dictionary of `map_instance_labels` -/
def fullLabelMap (lm : LMap) (refLabels predLabels : List Lab) : List (Lab × Lab) :=
  let counter := maxOf refLabels + 1
  let missed := predLabels.filter (fun p => !lm.containsPred p)
  lm ++ assignFresh missed counter

/-- `map_instance_labels`: relabelled prediction (reference is returned unchanged) -/
def mapInstanceLabels (arrBits : Nat) (pred : Flat) (refLabels predLabels : List Lab) (lm : LMap) : Flat :=
  mapLabels arrBits pred (fullLabelMap lm refLabels predLabels)

/-- The pre-fix behaviour (table in the array's own dtype), kept to document the repaired defect. -/
def mapInstanceLabelsLegacy (arrBits : Nat) (pred : Flat) (refLabels predLabels : List Lab) (lm : LMap) : Flat :=
  mapLabelsBits arrBits pred (fullLabelMap lm refLabels predLabels)

end Panoptica
